(* C18 -- The test server replays what the recorded receiver said.
   Model/Server.v transcribes YncaDataStore (ingestion, get/put with change detection) and
   YncaCommandHandler.handle_get / handle_put; the tables, the guard flags read off the AST and the 12
   recordings are regenerated from /repo on every run (Gen/ServerTables.v, Gen/ServerRecs.v).
   "Recorded value" = the value of a line of the recording that carries @S:F=V with V <> "?" (either
   direction) and no error marker.  Oracles (universally quantified): json.loads on quoted lines,
   float()/int()/str(float). *)
From Coq Require Import List NArith ZArith Bool.
From Ynca Require Import Base.Text Model.Enum Model.Line Model.ServerNames Model.Server.
From Ynca Require Import Proofs.ServerFacts Proofs.ServerGen.
From Ynca Require Import Gen.ServerTables Gen.ServerRecs.
Import ListNotations.

Notation SRV := (srv gen_cfg srv_multi srv_related srv_inp_map srv_zones).
Notation PUT := (handle_put gen_cfg srv_related srv_inp_map srv_zones).
Notation GET := (handle_get gen_cfg srv_multi).

(* loaded from ANY recording (any list of lines), a GET of an ordinary function is answered with the
   value of the last line that carries one for it ... *)
Theorem C18_replays_last_value :
  forall pf pi ps pj pre l post s f v,
  value_line gen_json pj l = Some (s, f, v) -> is_err v = false -> ordinary_get srv_multi s f = true ->
  Forall (fun raw => forall v', line_to_command (clean gen_json pj raw) = Some (s, f, v') -> v' = s_q) post ->
  SRV pf pi ps (ingest gen_json pj (pre ++ l :: post)) (fmt_cmd s f s_q)
    = Ok (ingest gen_json pj (pre ++ l :: post), [fmt_cmd s f v]).
Proof. rewrite gen_cfg_eq. intros pf pi ps pj. exact (replay_last_value _ _ _ _ pf pi ps _ pj). Qed.
Print Assumptions C18_replays_last_value.

(* ... and with an error line when no line of the recording names it *)
Theorem C18_unknown_answers_error :
  forall pf pi ps pj ls s f,
  key_ok s f -> ordinary_get srv_multi s f = true ->
  Forall (fun raw => forall v', line_to_command (clean gen_json pj raw) <> Some (s, f, v')) ls ->
  SRV pf pi ps (ingest gen_json pj ls) (fmt_cmd s f s_q) = Ok (ingest gen_json pj ls, [s_UNDEFINED]).
Proof. rewrite gen_cfg_eq. intros pf pi ps pj. exact (replay_unknown _ _ _ _ pf pi ps _ pj). Qed.
Print Assumptions C18_unknown_answers_error.

(* an error line never overwrites a value: a line carrying a value is stored whatever came before, and any
   later line that does not carry a value for the same key leaves it alone *)
Theorem C18_last_value_kept :
  forall pj pre l post s f v,
  value_line gen_json pj l = Some (s, f, v) -> v <> s_UNDEFINED ->
  Forall (fun raw => forall v', line_to_command (clean gen_json pj raw) = Some (s, f, v') -> v' = s_q) post ->
  get_data (ingest gen_json pj (pre ++ l :: post)) s f = v.
Proof. intro pj. exact (ingest_last_value _ pj). Qed.
Print Assumptions C18_last_value_kept.

(* the 12 bundled recordings: the loaded store agrees with the independent reader's table of last values *)
Theorem C18_bundled_recordings :
  length srv_recordings = 12%nat /\ forallb rec_ok srv_recordings = true /\ gen_json && gen_json_recognised = true.
Proof. exact (conj gen_recordings_count (conj gen_recordings_ok gen_json_ok)). Qed.
Print Assumptions C18_bundled_recordings.

(* GET of an ordinary function: one line, the stored value or the error line *)
Theorem C18_get_ordinary :
  forall st s f, ordinary_get srv_multi s f = true ->
  GET st s f = Ok (if is_err (get_data st s f) then [get_data st s f] else [fmt_cmd s f (get_data st s f)]).
Proof. rewrite gen_cfg_eq. exact (get_ordinary srv_multi). Qed.
Print Assumptions C18_get_ordinary.

(* every GET, of whatever subunit and function, recorded or not, is answered with at least one line *)
Theorem C18_every_get_answered :
  forall st s f out, GET st s f = Ok out -> out <> [].
Proof. rewrite gen_cfg_eq. exact (get_always_answered srv_multi). Qed.
Print Assumptions C18_every_get_answered.

(* PUT of a new value to an ordinary stored function: stored, reported back exactly once, returned by
   later GETs, nothing else changes *)
Theorem C18_put_new :
  forall pf pi ps st s f v old fs,
  ordinary_put srv_related s f v = true -> assoc s st = Some fs -> assoc f fs = Some old ->
  old <> v -> is_err v = false ->
  exists st', PUT pf pi ps st s f v = Ok (st', [fmt_cmd s f v]) /\
              get_data st' s f = v /\
              forall s0 f0, (s0 <> s \/ f0 <> f) -> get_data st' s0 f0 = get_data st s0 f0.
Proof. rewrite gen_cfg_eq. intros pf pi ps. exact (put_ordinary_new _ _ _ pf pi ps). Qed.
Print Assumptions C18_put_new.

(* PUT of the current value: no report, nothing changes *)
Theorem C18_put_same :
  forall pf pi ps st s f v fs,
  ordinary_put srv_related s f v = true -> assoc s st = Some fs -> assoc f fs = Some v -> is_err v = false ->
  PUT pf pi ps st s f v = Ok (st, []).
Proof. rewrite gen_cfg_eq. intros pf pi ps. exact (put_ordinary_same _ _ _ pf pi ps). Qed.
Print Assumptions C18_put_same.

(* multi-value queries answer only with stored members (or the single error line) *)
Theorem C18_groups_answer_stored_members :
  forall st s f ms out, assoc f srv_multi = Some ms -> GET st s f = Ok out ->
  forall t, In t out ->
    t = s_UNDEFINED \/
    exists m, In m ms /\
      ((t = fmt_cmd s m (get_data st s m) /\ is_err (get_data st s m) = false) \/
       (t = fmt_cmd s s_STRAIGHT s_On /\ (m = s_STRAIGHT \/ m = s_DIRMODE))).
Proof.
  rewrite gen_cfg_eq. intros st s f ms out E.
  exact (group_answers_stored srv_multi st s f ms out E (groups_plain_spec f ms E)).
Qed.
Print Assumptions C18_groups_answer_stored_members.

(* every reply, to every line, from every store whose keys came out of the parser (every loaded store, and
   every store reached from one by any command sequence), is a well-formed YNCA line *)
Theorem C18_every_reply_well_formed :
  forall pf pi ps pj recording lines st' outs,
  srv_run gen_cfg srv_multi srv_related srv_inp_map srv_zones pf pi ps (ingest gen_json pj recording) lines = Ok (st', outs) ->
  Forall (Forall (fun t => wf_reply t = true)) outs.
Proof.
  rewrite gen_cfg_eq. intros pf pi ps pj recording lines st' outs H.
  exact (proj2 (srv_run_wf srv_multi srv_related srv_inp_map srv_zones pf pi ps gen_tables_ok lines _ _ _
                  (ingest_store_ok gen_json pj recording) H)).
Qed.
Print Assumptions C18_every_reply_well_formed.

(* non-vacuity: a concrete recording, a concrete ordinary key *)
Example C18_example :
  let rec := [[34;82;101;99;101;105;118;101;100;58;32;64;77;65;73;78;58;86;79;76;61;45;51;48;46;48;34;44;10]%N] in
  get_data (ingest true (fun l => Some (removelast (tl l))) rec) [77;65;73;78]%N [86;79;76]%N = [45;51;48;46;48]%N.
Proof. vm_compute. reflexivity. Qed.
