(* C13 -- Keep-alive traffic is invisible and swallows nothing else.
   Interpretation (DESIGN.md): "the library has started sending a probe" = the sender set the
   keep-alive flag (SSetFlag); g_armed records "a probe was started since the flag was last cleared",
   where the flag is cleared once per received line (and at connect).  For EVERY action list. *)
From Coq Require Import List NArith ZArith Bool Lia.
From Ynca Require Import Base.Text Model.Line Model.Conn Proofs.ConnFacts Proofs.ConnTheorems.
From Ynca Require Import Gen.Params.
Import ListNotations.
Local Open Scope Z_scope.

Notation run := (run p_spacing p_keepalive).
Notation step := (step p_spacing p_keepalive).

(* every line's fate is decided once, in arrival order; the delivered ones are delivered exactly
   once with their parse, in order; the withheld ones are all SYS:MODELNAME replies *)
Theorem C13_fates :
  forall cap l s, run (init cap) l = Some s ->
  map fst (g_fate s) ++ inflight (rpc_ s) = g_lines s /\
  g_delivered s = map (fun lf => parse_line (fst lf)) (filter snd (g_fate s)) /\
  g_withheld s = map fst (filter (fun lf => negb (snd lf)) (g_fate s)) /\
  (forall l0, In (l0, false) (g_fate s) -> is_modelname_reply (parse_line l0) = true).
Proof.
  intros cap l s H. destruct (suppression_invariant p_spacing p_keepalive cap l s H) as [_ [B [C [W [D _]]]]].
  repeat split; assumption.
Qed.
Print Assumptions C13_fates.

(* a line is withheld only through reading the flag as set, and then a probe was started since the
   previous line was received (since the flag was last cleared) *)
Theorem C13_withheld_only_after_probe :
  forall cap l s s', run (init cap) l = Some s -> step s (RGetFlag true) = Some s' -> g_armed s = true.
Proof. exact (withhold_needs_probe p_spacing p_keepalive). Qed.
Print Assumptions C13_withheld_only_after_probe.

Theorem C13_withholding_step :
  forall s a s' l0, step s a = Some s' -> g_fate s' = g_fate s ++ [(l0, false)] ->
  a = RClrFlag /\ rpc_ s = RFlag l0 true.
Proof. exact (fate_decided_once p_spacing p_keepalive). Qed.
Print Assumptions C13_withholding_step.

(* converse: once a probe is started the flag stays set until the reader clears it, whatever else
   happens (writes, other threads, the device) ... *)
Theorem C13_flag_persists :
  forall l s s', run s l = Some s' -> no_clear l -> flag s = true -> flag s' = true.
Proof. exact (flag_persists p_spacing p_keepalive). Qed.
Print Assumptions C13_flag_persists.

(* ... and with the flag set the next MODELNAME line is withheld, not delivered *)
Theorem C13_reply_withheld :
  forall s l0 s1 s2,
  rpc_ s = RLogged l0 -> flag s = true -> is_modelname_reply (parse_line l0) = true ->
  step s (RGetFlag true) = Some s1 -> step s1 RClrFlag = Some s2 ->
  g_fate s2 = g_fate s ++ [(l0, false)] /\ g_delivered s2 = g_delivered s /\ rpc_ s2 = RIdle.
Proof. exact (modelname_withheld_when_armed p_spacing p_keepalive). Qed.
Print Assumptions C13_reply_withheld.

Theorem C13_armed_reads_true :
  forall s l0 s1, rpc_ s = RLogged l0 -> flag s = true -> step s (RGetFlag false) = Some s1 -> False.
Proof. exact (armed_reads_true p_spacing p_keepalive). Qed.
Print Assumptions C13_armed_reads_true.

(* Non-vacuity: a user's own MODELNAME reply with no probe outstanding is delivered; after a probe it is withheld *)
Definition t_reply : text := [64;83;89;83;58;77;79;68;69;76;78;65;77;69;61;88]%N.
Example C13_nonvacuous :
  exists s, run (init 0)
    [DevEmit (t_reply ++ [13;10])%N None; RRead (t_reply ++ [13;10])%N; RLineStart t_reply; RLogAdd t_reply;
     RGetFlag false; RClrFlag; RDeliverA (StOK, Some (t_SYS, t_MODELNAME, [88]%N));
     Enq 100 IKA; SDeq IKA; SCheckConn true; SSetFlag;
     DevEmit (t_reply ++ [13;10])%N None; RRead (t_reply ++ [13;10])%N; RLineStart t_reply; RLogAdd t_reply;
     RGetFlag true; RClrFlag] = Some s
  /\ g_fate s = [(t_reply, true); (t_reply, false)].
Proof. eexists. split; [vm_compute; reflexivity|reflexivity]. Qed.
