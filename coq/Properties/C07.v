(* C07 -- initialize() exposes exactly the subunits the device has, fully populated.
   Sequential model of the two phases over the messages the reader delivers; thread interleavings,
   recorded receivers and synthetic devices are exercised by the simulation harness. *)
From Coq Require Import List NArith ZArith Bool Lia.
From Ynca Require Import Base.Text Model.Enum Model.Conv Model.Line Model.Subunit Model.Api.
From Ynca Require Import Proofs.SubunitFacts Proofs.ApiFacts Proofs.ApiGen Proofs.SubGen.
From Ynca Require Import Gen.Enums Gen.Functions Gen.Params.
Import ListNotations.

(* an accessor is set exactly for SYS and for the known ids for which an AVAIL message was delivered
   during detection *)
Theorem C07_exposed_exactly :
  forall (h : list msg) id,
  In id (exposed all_subunits h) <->
  id = t_SYS \/
  ((exists sc, find_class all_subunits id = Some sc) /\
   exists st f v, In (st, Some (id, f, v)) h /\ f = t_AVAIL).
Proof. exact (exposed_spec all_subunits). Qed.
Print Assumptions C07_exposed_exactly.

(* the object belongs to that subunit id; ids identify classes uniquely; every id of the Subunit
   enumeration has a class *)
Theorem C07_class_of_id :
  (forall id sc, find_class all_subunits id = Some sc -> sc_id sc = id /\ In sc all_subunits) /\
  nodup_text (map sc_id all_subunits) = true /\
  forallb (fun id => match find_class all_subunits id with Some _ => true | None => false end) subunit_ids = true.
Proof.
  split; [exact (find_class_id all_subunits)|]. split; [exact gen_ids_unique|exact (proj1 gen_ids_have_classes)].
Qed.
Print Assumptions C07_class_of_id.

(* detection asks every known id for AVAIL and then the synchronisation query *)
Theorem C07_detection_queries :
  detect_submissions subunit_ids =
    map (fun id => fmt_cmd id t_AVAIL [c_q]) subunit_ids ++ [fmt_cmd t_SYS t_VERSION [c_q]].
Proof. reflexivity. Qed.
Print Assumptions C07_detection_queries.

(* each function of an exposed subunit reads the decoding of the last value delivered for it (C03),
   and initialize() of that subunit returned only after everything received before its
   synchronisation reply had been processed (C06) *)
Theorem C07_populated :
  forall pf pi sc, In sc all_subunits ->
  forall (h : list msg) st ns fn, In fn (sc_funcs sc) ->
  run pf pi sc ss_init h = Ok (st, ns) ->
  read st (f_name fn) = latest pf pi sc fn (rev h).
Proof.
  intros pf pi sc Hsc h st ns fn Hfn H.
  exact (read_spec pf pi sc h st ns fn (names_unique_of sc Hsc) Hfn H).
Qed.
Print Assumptions C07_populated.

Example C07_nonvacuous :
  exposed all_subunits
    [ (StOK, Some ([77;65;73;78], t_AVAIL, [82;101;97;100;121]));
      (StUNDEFINED, None);
      (StOK, Some ([70;79;79], t_AVAIL, [82;101;97;100;121]));
      (StOK, Some ([84;85;78], t_AVAIL, [78;111;116;32;82;101;97;100;121]));
      (StOK, Some (t_SYS, t_VERSION, [49])) ]%N
  = [t_SYS; [77;65;73;78]; [84;85;78]]%N.
Proof. vm_compute. reflexivity. Qed.
