(* C15 -- An unexpected disconnect is reported exactly once and ends all activity.
   Two machines: the life-cycle LTS (Model/Life.v: reader exit path, close, abstract sender) and the
   connection LTS (Model/Conn.v) for the queue.  All statements hold for EVERY action list: every
   fault position and every interleaving.  PARTIAL: "both threads terminate" is proved as absence of
   unbounded blocking on the lost path (lost_path_progress: every state of connection_lost has an
   enabled next action after at most the 2 s join deadline); actual termination of OS threads is
   checked on every simulated run, not proved. *)
From Coq Require Import List NArith ZArith Bool Lia.
From Ynca Require Import Base.Text Model.Line Model.Conn Model.Life.
From Ynca Require Import Proofs.ConnFacts Proofs.ConnLost Proofs.LifeFacts Proofs.LifeMore.
From Ynca Require Import Gen.Params.
Import ListNotations.
Local Open Scope Z_scope.

Notation lrun := (lrun p_join_sender p_join_reader).
Notation lstep := (lstep p_join_sender p_join_reader).

(* the disconnect callback is invoked at most once, and only at the end of connection_lost *)
Theorem C15_reported_at_most_once :
  forall cb l s, lrun (linit cb) l = Some s ->
  (g_disc_calls s <= 1)%nat /\ (g_disc_calls s = 1%nat -> called (l_rpc s) = true) /\
  (called (l_rpc s) = false -> g_disc_calls s = O).
Proof. intros cb l s H. exact (proj1 (life_invariants p_join_sender p_join_reader cb l s H)). Qed.
Print Assumptions C15_reported_at_most_once.

(* ... and exactly once when connection_lost reaches its end with the callback still set: the
   reader's steps are forced (LGetCbA reads the callback that is there, LCall can only call it) *)
Theorem C15_reported_when_present :
  forall s s1 s2 s3, l_rpc s = LGetCb -> l_cb s = true ->
  lstep s (LGetCbA true) = Some s1 -> lstep s1 (LGetCb2A true) = Some s2 -> lstep s2 LCallCb = Some s3 ->
  g_disc_calls s3 = S (g_disc_calls s) /\ l_rpc s3 = LInCb /\ lstep s (LGetCbA false) = None.
Proof.
  intros s s1 s2 s3 R C H1 H2 H3. unfold Life.lstep in *. rewrite R in *. rewrite C in *. cbn in *.
  injection H1 as <-. cbn in H2. injection H2 as <-. cbn in H3.
  injection H3 as <-. cbn. repeat split.
Qed.
Print Assumptions C15_reported_when_present.

(* the user's callback runs on each protocol-level invocation unless a close() has started *)
Theorem C15_user_callback_invoked :
  forall s s', l_rpc s = LCall2 -> l_closed s = false -> lstep s LCallCb = Some s' ->
  g_user_calls s' = S (g_user_calls s).
Proof.
  intros s s' R C H. unfold Life.lstep in H. rewrite R in H. injection H as <-. cbn. now rewrite C.
Qed.
Print Assumptions C15_user_callback_invoked.

(* the connection reports itself as not connected from the first step of connection_lost on, and no
   delivery of a message starts after that *)
Theorem C15_not_connected_and_silent :
  forall cb l s, lrun (linit cb) l = Some s ->
  l_connected s = negb (past_lost (l_rpc s)) /\ g_delivers_after_lost s = O.
Proof. intros cb l s H. exact (proj1 (proj2 (proj2 (life_invariants p_join_sender p_join_reader cb l s H)))). Qed.
Print Assumptions C15_not_connected_and_silent.

(* the lost path never blocks without a deadline *)
Theorem C15_lost_path_progress :
  forall s,
  match l_rpc s with
  | LExit => exists s', lstep s LSetConnFalse = Some s'
  | LDrain => exists s', lstep s LDrainEmpty = Some s'
  | LPutExit => exists s', lstep s LEnqExit = Some s'
  | LJoinStart => exists s', lstep s (LJoinStartA (l_now s + p_join_sender)) = Some s'
  | LJoin dl => exists s1 s2, lstep s (LTick (Z.max 0 (dl - l_now s))) = Some s1 /\ lstep s1 LJoinEnd = Some s2
  | LGetCb => exists s', lstep s (LGetCbA (l_cb s)) = Some s'
  | LCall => exists s', lstep s (LGetCb2A (l_cb s)) = Some s'
  | LCall2 => exists s', lstep s LCallCb = Some s'
  | _ => True
  end.
Proof. exact (lost_path_progress p_join_sender p_join_reader). Qed.
Print Assumptions C15_lost_path_progress.

(* queued commands are discarded rather than written: an item removed by the drain is not written
   (as multisets: #written(x) + #drained(x) <= #submitted(x)), for every schedule *)
Theorem C15_drained_not_written :
  forall cap l s x, run p_spacing p_keepalive (init cap) l = Some s ->
  (count_occ item_eq_dec (map snd (g_wire s)) x + count_occ item_eq_dec (g_drained s) x
     <= count_occ item_eq_dec (g_enq s) x)%nat.
Proof. exact (drained_not_written p_spacing p_keepalive). Qed.
Print Assumptions C15_drained_not_written.

(* after the exit marker the sender stops: it leaves its loop without writing *)
Theorem C15_exit_marker_stops_sender :
  forall s s', spc_ s = SGot IExit -> step p_spacing p_keepalive s SExit = Some s' -> spc_ s' = SDone /\ g_wire s' = g_wire s.
Proof.
  intros s s' E H. unfold Conn.step in H. rewrite E in H. injection H as <-. split; reflexivity.
Qed.
Print Assumptions C15_exit_marker_stops_sender.

Example C15_nonvacuous :
  exists s, lrun (linit true)
    [LDeliver; LLoopExit; LSetConnFalse; LDrainDeq; LDrainEmpty; LEnqExit; LJoinStartA p_join_sender;
     LSenderExit; LJoinEnd; LGetCbA true; LGetCb2A true; LCallCb; LFinish] = Some s
  /\ g_disc_calls s = 1%nat /\ l_connected s = false /\ l_rpc s = LDone.
Proof. eexists. split; [vm_compute; reflexivity|repeat split]. Qed.

(* the reader thread terminates: in EVERY run -- any interleaving with sender, closers and time -- it takes
   at most ten progress steps of its own from its read loop (nine once it has left the loop); nobody can move
   it backwards, and with lost_path_progress each of those steps is enabled after a wait with a finite
   deadline.  (The drain of the queue is bounded by the queue length: Conn.v.) *)
Theorem C15_reader_terminates_in_bounded_steps :
  forall cb acts s', lrun (linit cb) acts = Some s' -> (length (filter reader_progress acts) <= 10)%nat.
Proof. exact (reader_steps_at_most_ten p_join_sender p_join_reader). Qed.
Print Assumptions C15_reader_terminates_in_bounded_steps.

Theorem C15_reader_progress_measure :
  forall acts s s', lrun s acts = Some s' ->
  (length (filter reader_progress acts) + rank (l_rpc s') <= rank (l_rpc s))%nat.
Proof. exact (reader_steps_bounded p_join_sender p_join_reader). Qed.
Print Assumptions C15_reader_progress_measure.

Theorem C15_ended_thread_stays_ended :
  forall acts s s', l_rpc s = LDone -> lrun s acts = Some s' -> l_rpc s' = LDone.
Proof. exact (done_is_final p_join_sender p_join_reader). Qed.
Print Assumptions C15_ended_thread_stays_ended.

(* commands still queued are discarded rather than written later, for every schedule: once connection_lost has
   set connected := False the sender completes at most the one write whose item had already passed its
   `connected` test ... *)
Theorem C15_after_the_loss_at_most_one_write :
  forall acts s s', run p_spacing p_keepalive s acts = Some s' -> g_lost s = true ->
  (length (g_wire s') + pot (spc_ s') <= length (g_wire s) + pot (spc_ s))%nat.
Proof. exact (after_the_loss_at_most_one_write p_spacing p_keepalive). Qed.
Print Assumptions C15_after_the_loss_at_most_one_write.

(* ... and nothing at all if it was not in the middle of a command *)
Theorem C15_nothing_written_after_the_loss :
  forall acts s s', run p_spacing p_keepalive s acts = Some s' -> g_lost s = true -> pot (spc_ s) = 0%nat ->
  g_wire s' = g_wire s.
Proof. exact (nothing_written_after_the_loss p_spacing p_keepalive). Qed.
Print Assumptions C15_nothing_written_after_the_loss.
