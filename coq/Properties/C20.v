(* C20 -- The communication log is a faithful, bounded record of the wire.
   For EVERY N (= cap), every action list of the connection machine. *)
From Coq Require Import List NArith ZArith Bool Lia.
From Ynca Require Import Base.Text Base.Utf8 Model.Framing Model.Line Model.Ring Model.Conn.
From Ynca Require Import Proofs.ConnFacts Proofs.ConnTheorems.
From Ynca Require Import Gen.Params.
Import ListNotations.
Local Open Scope Z_scope.

Notation run := (run p_spacing p_keepalive).
Notation step := (step p_spacing p_keepalive).

(* the buffer is the most recent N entries of the complete log: at most N, empty for N = 0 *)
Theorem C20_bounded_suffix :
  forall cap l s, run (init cap) l = Some s ->
  logbuf s = lastn cap (g_log s) /\ (length (logbuf s) <= cap)%nat /\ (cap = O -> logbuf s = []).
Proof. exact (log_is_bounded_suffix p_spacing p_keepalive). Qed.
Print Assumptions C20_bounded_suffix.

(* the deque(maxlen=N).append model: appending to the bounded buffer = bounding the appended log *)
Theorem C20_ring : forall (n : nat) (l : list entry) x, ring_add n (lastn n l) x = lastn n (l ++ [x]).
Proof. intros. apply ring_add_lastn. Qed.
Print Assumptions C20_ring.

(* Send entries are the written texts in transmission order (keep-alive probes included), plus at
   most the one entry whose write has not happened yet (rest = [] while the sender lives) *)
Theorem C20_sends_in_transmission_order :
  forall cap l s, run (init cap) l = Some s ->
  exists rest,
    sends (g_log s) = map (fun w => item_text (snd w)) (g_wire s) ++ logged_unwritten (spc_ s) ++ rest /\
    (spc_ s <> SDone -> rest = []).
Proof. exact (log_sends_follow_wire p_spacing p_keepalive). Qed.
Print Assumptions C20_sends_in_transmission_order.

(* Received entries are the received lines in arrival order, with the exact line text (probe replies
   included: logging happens before the keep-alive suppression) *)
Theorem C20_receives_in_arrival_order :
  forall cap l s, run (init cap) l = Some s -> recvs (g_log s) ++ entering (rpc_ s) = g_lines s.
Proof. exact (log_recvs_follow_lines p_spacing p_keepalive). Qed.
Print Assumptions C20_receives_in_arrival_order.

(* the received lines are the complete lines of what the device emitted, in order *)
Theorem C20_lines_are_emitted_lines :
  forall cap l s, run (init cap) l = Some s ->
  exists consumed, g_emitted s = consumed ++ rxport s /\
    scan consumed = (g_packets s ++ rpend s, rbuf s) /\ g_lines s = map decode_packet (g_packets s).
Proof. exact (lines_are_framing_of_emitted p_spacing p_keepalive). Qed.
Print Assumptions C20_lines_are_emitted_lines.

(* no reply before its command: when the device answers write number w, that write's Send entry is
   already in the log (and the reply's Received entry can only be appended after its bytes arrived) *)
Theorem C20_reply_after_command :
  forall cap l s b w s', run (init cap) l = Some s -> step s (DevEmit b (Some w)) = Some s' ->
  (w < length (sends (g_log s)))%nat.
Proof. exact (reply_after_logged_send p_spacing p_keepalive). Qed.
Print Assumptions C20_reply_after_command.

Example C20_nonvacuous :
  exists s, run (init 2)
    [Enq 1 (ICmd 1 [65]%N); SDeq (ICmd 1 [65]%N); SCheckConn true; SLogAdd [65]%N; SLockAcq; SWriteA (frame [65]%N);
     DevEmit [66;13;10]%N (Some 0%nat); RRead [66;13;10]%N; RLineStart [66]%N; RLogAdd [66]%N;
     Enq 1 (ICmd 1 [67]%N); SLockRel; SSleepStartA p_spacing; Tick p_spacing; SWake;
     SDeq (ICmd 1 [67]%N); SCheckConn true; SLogAdd [67]%N] = Some s
  /\ logbuf s = [LRecv [66]%N; LSend [67]%N] /\ length (g_log s) = 3%nat.
Proof. eexists. split; [vm_compute; reflexivity|split; reflexivity]. Qed.
