(* C10 -- Nothing the device sends can take the connection down.
   Statements only.  The reader thread's path (framing, UTF-8 decoding with replacement, line
   parsing, every registered subunit's message handler incl. value decoding) is the total function
   `pipeline`; exceptions are explicit (`Raise` = the reader loop would exit, connection_lost would
   run and the disconnect callback would fire).  User callbacks are outside the statement. *)
From Coq Require Import List NArith ZArith Bool.
From Ynca Require Import Base.Text Model.Enum Model.Conv Model.Framing Model.Line Model.Reader Model.Subunit Model.Pipeline.
From Ynca Require Import Proofs.SubunitFacts Proofs.PipelineFacts Proofs.SubGen.
From Ynca Require Import Gen.Enums Gen.Functions.
Import ListNotations.

(* (1) For EVERY sequence of byte chunks (malformed, invalid UTF-8, arbitrarily long, undecodable
       values), every set of subunit instances in any state, every oracle: no exception. *)
Theorem C10_never_raises :
  forall pf pi rs is chunks, exists rs' is' ns, pipeline pf pi rs is chunks = Ok (rs', is', ns).
Proof. exact pipeline_total. Qed.
Print Assumptions C10_never_raises.

(* (2) All subsequent input is still processed normally: processing c1 then c2 is processing c2 from
       the state c1 left, with nothing lost. *)
Theorem C10_subsequent_lines_processed :
  forall pf pi rs is c1 c2,
  pipeline pf pi rs is (c1 ++ c2) =
    match pipeline pf pi rs is c1 with
    | Raise => Raise
    | Ok (rs1, is1, n1) =>
        match pipeline pf pi rs1 is1 c2 with
        | Raise => Raise
        | Ok (rs2, is2, n2) => Ok (rs2, is2, n1 ++ n2)
        end
    end.
Proof. exact pipeline_app. Qed.
Print Assumptions C10_subsequent_lines_processed.

(* (3) A value that cannot be decoded for its function leaves the attribute at its previous value. *)
Theorem C10_undecodable_keeps_previous :
  forall pf pi sc, In sc all_subunits -> forall st fn v st' n,
  In fn (sc_funcs sc) ->
  to_value pf pi (f_conv fn) v = Raise ->
  on_msg pf pi sc st (StOK, Some (sc_id sc, f_name fn, v)) = Ok (st', n) ->
  ss_vals st' = ss_vals st /\ n = None.
Proof.
  intros pf pi sc Hsc st fn v st' n Hfn. apply undecodable_keeps; [|assumption].
  exact (names_unique_of sc Hsc).
Qed.
Print Assumptions C10_undecodable_keeps_previous.

(* (4) Never a value of the wrong type: every cached value inhabits its function's value type,
       after any input. *)
Theorem C10_typing_invariant :
  forall pf pi rs is chunks rs' is' ns,
  all_typed is -> pipeline pf pi rs is chunks = Ok (rs', is', ns) -> all_typed is'.
Proof. exact pipeline_typed. Qed.
Print Assumptions C10_typing_invariant.

(* Non-vacuity: the line a real RX-V500D sends while seeking, followed by a good one. *)
Example C10_nonvacuous :
  match find_class all_subunits [68;65;66]%N with
  | Some sc =>
      match pipeline (fun _ => None) (fun _ => None) rx_init [(sc, ss_init)]
              [[64;68;65;66;58;70;77;70;82;69;81;61;57;51;46;54;53;13;10];
               [64;68;65;66;58;70;77;70;82;69;81;61;65;117;116;111;32;68;111;119;110;13;10]]%N with
      | Ok (_, [(_, st)], _) => read st [70;77;70;82;69;81]%N
      | _ => None
      end
  | None => None
  end = Some (VFloat (FDec 9365 2)).
Proof. vm_compute. reflexivity. Qed.

(* The model's line handler has no exception channel of its own (Raise can only come out of the message callback, whose
   decoding is what the theorems above are about).  That the code's handle_line contains no `raise` statement is read
   off the AST of ynca/connection.py on every run (Gen/Params.v). *)
From Ynca Require Import Gen.Params.
Theorem C10_the_line_handler_raises_nothing_itself : p_handle_line_raises_nothing = true.
Proof. reflexivity. Qed.
Print Assumptions C10_the_line_handler_raises_nothing_itself.
