(* C17 -- connection_check() reports model and exactly the zones present, then cleans up.
   The message callback of connection_check as a fold over the delivered messages (Model/Api.v).
   The device discipline is explicit in the statement: replies arrive in request order, so the
   messages are: any number of late replies to the connection's own keep-alive probes (whatever the
   latency), the four zone answers (value or error), the model name. *)
From Coq Require Import List NArith ZArith Bool Lia.
From Ynca Require Import Base.Text Model.Line Model.Api Model.Life.
From Ynca Require Import Proofs.ApiFacts Proofs.ApiGen Proofs.LifeFacts.
From Ynca Require Import Gen.Params.
Import ListNotations.

(* for EVERY number of late probe replies: model name accepted, zones = exactly those that answered
   with a value *)
Theorem C17_result :
  forall pre z1 z2 z3 z4 s f v post,
  forallb is_probe_reply pre = true ->
  Forall (fun z => msg_wf z /\ zone_reply z = true /\ is_probe_reply z = false) [z1; z2; z3; z4] ->
  teqb s t_SYS = true -> teqb f t_MODELNAME = true ->
  let r := cc_run cc_init (pre ++ [z1; z2; z3; z4] ++ (StOK, Some (s, f, v)) :: post) in
  cc_model r = Some v /\ cc_zones r = zones_with_value [z1; z2; z3; z4].
Proof. exact connection_check_result. Qed.
Print Assumptions C17_result.

(* no model name message => nothing accepted => the 1.5 s wait expires and the connection error is raised *)
Theorem C17_no_model_name :
  forall h, Forall (fun m => msg_wf m /\ is_probe_reply m = false) h -> cc_model (cc_run cc_init h) = None.
Proof. exact connection_check_no_model. Qed.
Print Assumptions C17_no_model_name.

(* messages produced by the line parser are well formed *)
Theorem C17_parser_messages_wf : forall l, msg_wf (parse_line l).
Proof. exact parse_line_wf. Qed.
Print Assumptions C17_parser_messages_wf.

(* in every outcome the finally-block's close() leaves the temporary connection closed (C16) *)
Theorem C17_closed_afterwards :
  forall cb l s, lrun p_join_sender p_join_reader (linit cb) l = Some s -> g_closed_returned s = true ->
  l_open s = false /\ l_alive s = false /\ l_closed s = true.
Proof.
  intros cb l s H R.
  destruct (life_invariants p_join_sender p_join_reader cb l s H) as [_ [_ [_ G]]].
  exact (proj2 (proj2 (proj2 (proj2 G))) R).
Qed.
Print Assumptions C17_closed_afterwards.

(* the check's time-out is a known positive constant of the code *)
Theorem C17_timeout_constant : (0 < p_check_timeout)%Z.
Proof. vm_compute. reflexivity. Qed.
Print Assumptions C17_timeout_constant.

(* Non-vacuity: one late probe reply (latency above the command spacing), MAIN and ZONE2 present,
   ZONE3 restricted, ZONE4 undefined *)
Example C17_nonvacuous :
  let r := cc_run cc_init
    [ (StOK, Some (t_SYS, t_MODELNAME, [88]));
      (StOK, Some ([77;65;73;78], t_AVAIL, [82])); (StOK, Some ([90;79;78;69;50], t_AVAIL, [82]));
      (StRESTRICTED, None); (StUNDEFINED, None);
      (StOK, Some (t_SYS, t_MODELNAME, [88;49])) ]%N in
  cc_model r = Some [88;49]%N /\ cc_zones r = [[77;65;73;78]; [90;79;78;69;50]]%N.
Proof. vm_compute. split; reflexivity. Qed.
