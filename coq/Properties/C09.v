(* C09 -- Each reported value notifies every update callback exactly once, safely.
   Sequential half: Model/Subunit.v (what is notified, with what, in which order, gated by
   _initialized).  Concurrent half: Model/Deliver.v (one delivery over a snapshot of the callback set
   with a membership test per callback, while callbacks and other threads register, unregister and
   close at any moment).  All statements for EVERY history / action list. *)
From Coq Require Import List NArith ZArith Arith Bool Lia.
From Ynca Require Import Base.Text Model.Enum Model.Conv Model.Line Model.Subunit Model.Deliver.
From Ynca Require Import Proofs.SubunitFacts Proofs.SubGen Proofs.DeliverFacts.
From Ynca Require Import Gen.Enums Gen.Functions.
Import ListNotations.
Local Open Scope nat_scope.

(* (1) what is handed to the update callbacks: one (function name, decoded value) per decodable value
       reported for a modelled function of THIS subunit, in arrival order, and only while the subunit is
       initialised; nothing for other subunits, unmodelled functions, error replies *)
Theorem C09_notifications :
  forall pf pi sc (h : list msg) st st' ns,
  run pf pi sc st h = Ok (st', ns) ->
  ns = if ss_initialized st then filter_map (notify_of pf pi sc) h else [].
Proof. intros pf pi sc h st st' ns. apply run_notifications. Qed.
Print Assumptions C09_notifications.

(* (2) the cache already reflects the value when the callbacks are notified *)
Theorem C09_cache_updated_first :
  forall pf pi sc st m st' f x,
  on_msg pf pi sc st m = Ok (st', Some (f, x)) -> read st' f = Some x.
Proof.
  intros pf pi sc st m st' f x H. unfold on_msg, handler_update in H.
  destruct (fst m); try discriminate.
  destruct (snd m) as [[[s0 f0] v]|]; try discriminate.
  destruct (negb (teqb (sc_id sc) s0)); try discriminate.
  destruct (find_func sc f0) as [fn|]; try discriminate.
  destruct (to_value pf pi (f_conv fn) v) as [y|]; try discriminate.
  injection H as <- E. unfold read. cbn.
  destruct (ss_initialized _); [|discriminate]. injection E as <- <-.
  now rewrite assoc_upd, teqb_refl.
Qed.
Print Assumptions C09_cache_updated_first.

(* (3) one delivery under arbitrary concurrent / re-entrant mutation: when it is complete, every
       callback registered at the snapshot and not unregistered since has been invoked exactly once,
       nothing outside the snapshot was invoked, nobody twice *)
Theorem C09_delivery_exactly_once :
  forall cbs (l : list daction) s, drun (dinit cbs) l = Some s -> d_complete s = true ->
  forall c,
    (count_occ Nat.eq_dec (g_called s) c <= 1) /\
    (count_occ Nat.eq_dec (g_called s) c >= 1 -> mem c (g_snap s) = true) /\
    (mem c (g_snap s) = true -> mem c (g_removed s) = false -> count_occ Nat.eq_dec (g_called s) c = 1).
Proof. exact delivery_exactly_once. Qed.
Print Assumptions C09_delivery_exactly_once.

(* (4) registering, unregistering and closing are possible in every state: they never raise and
       never break the delivery in progress *)
Theorem C09_mutation_never_fails :
  forall s cb,
  (exists s', dstep s (DAdd cb) = Some s') /\ (exists s', dstep s (DDiscard cb) = Some s') /\
  (exists s', dstep s DClear = Some s').
Proof. exact mutation_always_enabled. Qed.
Print Assumptions C09_mutation_never_fails.

(* (5) the delivery loop always makes progress and terminates: each remaining snapshot element can be
       tested, and is then no longer remaining *)
Theorem C09_delivery_progress :
  forall s c, d_pending s = None -> mem c (d_remaining s) = true ->
  exists s', dstep s (DTest c (mem c (d_live s))) = Some s' /\ mem c (d_remaining s') = false.
Proof. exact delivery_progress. Qed.
Print Assumptions C09_delivery_progress.

(* Non-vacuity: callback 1 unregisters callback 2 and registers 3 during the delivery: 1 is called,
   2 is skipped, 3 is not part of this delivery. *)
Example C09_nonvacuous :
  exists s, drun (dinit [1; 2])
    [DStart; DTest 1 true; DCall 1; DDiscard 2; DAdd 3; DTest 2 false] = Some s
  /\ d_complete s = true /\ g_called s = [1] /\ d_live s = [3; 1].
Proof. eexists. split; [vm_compute; reflexivity|repeat split]. Qed.
