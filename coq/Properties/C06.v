(* C06 -- Subunit initialisation asks each query once, returns only after the sync reply.
   Sequential model (Model/Api.v, Model/Subunit.v) of what initialize() submits and of what the
   reader does with the lines it receives; the caller/reader interleaving is exercised by the
   simulation harness (each run is replayed against these definitions).  PARTIAL: the barrier is proved
   for the reader's sequential processing order; that the caller observes the event only after the
   reader set it is the contract of threading.Event (modelled by the harness, not verified). *)
From Coq Require Import List NArith ZArith Bool Lia.
From Ynca Require Import Base.Text Model.Enum Model.Conv Model.Line Model.Subunit Model.Api.
From Ynca Require Import Proofs.SubunitFacts Proofs.ApiFacts Proofs.ApiGen Proofs.SubGen.
From Ynca Require Import Gen.Enums Gen.Functions Gen.Params.
Import ListNotations.

(* each distinct initial query exactly once ... *)
Theorem C06_plan_no_duplicates : forall sc, NoDup (init_plan sc).
Proof. exact plan_NoDup. Qed.
Print Assumptions C06_plan_no_duplicates.

(* ... a query is in the plan iff it is the own GET or the group query of a function that is not
   excluded from initialisation ... *)
Theorem C06_plan_sound_complete :
  forall sc q, In q (init_plan sc) <->
  exists f, In f (sc_funcs sc) /\ f_noinit f = false /\ q = init_query f.
Proof. exact plan_sound. Qed.
Print Assumptions C06_plan_sound_complete.

(* ... no excluded function is ever queried (regenerated tables: SYS:VERSION) ... *)
Theorem C06_excluded_never_queried : forallb plan_respects_noinit all_subunits = true.
Proof. exact gen_plans_respect_noinit. Qed.
Print Assumptions C06_excluded_never_queried.

(* ... and the submissions are one GET per query followed by the synchronisation query, last *)
Theorem C06_submissions :
  forall sc,
  init_submissions sc =
    map (fun q => fmt_cmd (sc_id sc) q [c_q]) (init_plan sc) ++ [fmt_cmd t_SYS t_VERSION [c_q]] /\
  length (init_submissions sc) = S (length (init_plan sc)).
Proof. exact submissions_shape. Qed.
Print Assumptions C06_submissions.

(* while not initialised the event is set exactly by a SYS:VERSION message *)
Theorem C06_event_set_by_version :
  forall pf pi sc h st st' ns, ss_initialized st = false ->
  run pf pi sc st h = Ok (st', ns) -> ss_event st' = ss_event st || existsb is_version h.
Proof. exact event_set_by_version. Qed.
Print Assumptions C06_event_set_by_version.

(* the barrier: event clear at entry and found set => a VERSION message was processed and every
   message received before it had been completely processed (so C03 applies to that prefix: every
   value the device sent before it is readable) *)
Theorem C06_barrier :
  forall pf pi sc h st st' ns,
  ss_initialized st = false -> ss_event st = false ->
  run pf pi sc st h = Ok (st', ns) -> ss_event st' = true ->
  exists h1 v h2 st1 n1,
    h = h1 ++ v :: h2 /\ is_version v = true /\ existsb is_version h1 = false /\
    run pf pi sc st h1 = Ok (st1, n1) /\ ss_event st1 = false.
Proof. exact barrier. Qed.
Print Assumptions C06_barrier.

(* no update callback fires before initialisation has completed *)
Theorem C06_no_notification_before_initialised :
  forall pf pi sc h st st' ns, ss_initialized st = false ->
  run pf pi sc st h = Ok (st', ns) -> ns = [].
Proof.
  intros pf pi sc h st st' ns Hi H. rewrite (run_notifications pf pi sc h st st' ns H), Hi. reflexivity.
Qed.
Print Assumptions C06_no_notification_before_initialised.

(* the wait is a timed wait (AST shape checked by the translator) whose bound is proportional to the number of
   queries sent: a positive constant plus a positive constant per command *)
Theorem C06_timeout :
  p_init_wait_known = true /\ (0 < p_init_base)%Z /\ (0 < p_init_per_cmd)%Z /\
  forall sc, init_timeout p_init_base p_init_per_cmd sc = (p_init_base + p_init_per_cmd * Z.of_nat (S (length (init_plan sc))))%Z.
Proof.
  split; [vm_compute; reflexivity|]. split; [vm_compute; reflexivity|]. split; [vm_compute; reflexivity|].
  intro sc. unfold init_timeout. rewrite (proj2 (submissions_shape sc)). reflexivity.
Qed.
Print Assumptions C06_timeout.

Example C06_nonvacuous :
  match find_class all_subunits [77;65;73;78]%N with
  | Some sc => (Nat.ltb 5 (length (init_plan sc))) && mem_text [66;65;83;73;67]%N (init_plan sc)
               && negb (mem_text [86;79;76]%N (init_plan sc))
  | None => false
  end = true.
Proof. vm_compute. reflexivity. Qed.
