(* C08 -- Consecutive transmissions are at least 100 ms apart.
   The connection machine (Model/Conn.v) with the constants regenerated from /repo.  The theorem
   holds for EVERY action list: any number of callers, any burst pattern, any idle gaps, any
   device, any scheduling delays (Tick is unrestricted), close/lost traffic included.
   Time is the virtual time of the simulated sleep/clock; see DESIGN.md for what that leaves out. *)
From Coq Require Import List NArith ZArith Bool Lia.
From Ynca Require Import Base.Text Model.Line Model.Conn Proofs.ConnFacts Proofs.ConnTheorems.
From Ynca Require Import Gen.Params.
Import ListNotations.
Local Open Scope Z_scope.

Theorem C08_spacing_all_schedules :
  forall cap (l : list action) s,
  run p_spacing p_keepalive (init cap) l = Some s -> spaced p_spacing (g_wire s).
Proof. exact (spacing_all_schedules p_spacing p_keepalive). Qed.
Print Assumptions C08_spacing_all_schedules.

(* any two consecutive writes, explicitly *)
Theorem C08_consecutive_writes :
  forall cap l s i a b,
  run p_spacing p_keepalive (init cap) l = Some s ->
  nth_error (g_wire s) i = Some a -> nth_error (g_wire s) (S i) = Some b ->
  fst a + p_spacing <= fst b.
Proof.
  intros cap l s i a b H. apply spaced_nth. exact (spacing_all_schedules p_spacing p_keepalive cap l s H).
Qed.
Print Assumptions C08_consecutive_writes.

(* nobody but the sender's write transition puts anything on the wire *)
Theorem C08_only_the_sender_writes :
  forall s a s', step p_spacing p_keepalive s a = Some s' -> g_wire s' <> g_wire s -> exists b, a = SWriteA b.
Proof. exact (only_sender_writes p_spacing p_keepalive). Qed.
Print Assumptions C08_only_the_sender_writes.

(* the constant in /repo is at least the 100 ms the protocol requires *)
Theorem C08_constant : 100000 <= p_spacing.
Proof. vm_compute. discriminate. Qed.
Print Assumptions C08_constant.

(* Non-vacuity: a run with two writes exists (two commands queued at once). *)
Example C08_nonvacuous :
  exists s, run p_spacing p_keepalive (init 0)
    [Enq 1 (ICmd 1 [65]%N); Enq 1 (ICmd 1 [66]%N);
     SDeq (ICmd 1 [65]%N); SCheckConn true; SLogAdd [65]%N; SLockAcq; SWriteA (frame [65]%N); SLockRel;
     SSleepStartA p_spacing; Tick p_spacing; SWake;
     SDeq (ICmd 1 [66]%N); SCheckConn true; SLogAdd [66]%N; SLockAcq; SWriteA (frame [66]%N)] = Some s
  /\ length (g_wire s) = 2%nat.
Proof. eexists. split; [vm_compute; reflexivity|reflexivity]. Qed.
