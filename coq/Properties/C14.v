(* C14 -- A failed initialize() raises in bounded time and leaves nothing behind.
   PARTIAL (see DESIGN.md): the bound is proved as arithmetic over the regenerated wait constants under
   the assumption that every blocking step of initialize() is one of the timed waits (checked: the
   translator reads the AST of both wait expressions; a wait without time-out makes the obligation
   false) and that computation takes no virtual time.  Cleanup after the failure is C16's close()
   (port closed, _closed set, no further write) and C15's lost path; the fault enumeration on the real
   code (every fault position of the start-up dialogue) is the correspondence. *)
From Coq Require Import List NArith ZArith Bool Lia.
From Ynca Require Import Base.Text Model.Enum Model.Conv Model.Line Model.Subunit Model.Api Model.Life.
From Ynca Require Import Proofs.ApiFacts Proofs.ApiGen Proofs.LifeFacts.
From Ynca Require Import Gen.Enums Gen.Functions Gen.Params.
Import ListNotations.
Local Open Scope Z_scope.

(* both waits of the start-up dialogue are timed waits *)
Theorem C14_all_waits_are_timed : p_init_wait_known && p_detect_wait_known = true.
Proof. exact gen_waits_are_timed. Qed.
Print Assumptions C14_all_waits_are_timed.

(* whatever the phases actually take, if each is bounded by its time-out the total is bounded by the sum *)
Theorem C14_total_bounded :
  forall ds ts, Forall2 (fun d t => d <= t) ds ts -> fold_right Z.add 0 ds <= fold_right Z.add 0 ts.
Proof. exact sum_bounded. Qed.
Print Assumptions C14_total_bounded.

(* the closed form for a device with every known subunit, computed from the regenerated tables *)
Theorem C14_worst_case : worst_case_bound <= 300000000.
Proof. exact worst_case_value. Qed.
Print Assumptions C14_worst_case.

(* every time-out involved is a known, positive constant of the code (whatever its value: the bound above is
   computed from them) *)
Theorem C14_constants :
  0 < p_init_base /\ 0 < p_init_per_cmd /\ 0 < p_detect_base /\ 0 < p_detect_per_cmd /\
  0 < p_join_sender /\ 0 < p_join_reader /\ 0 < p_check_timeout.
Proof. exact gen_wait_constants. Qed.
Print Assumptions C14_constants.

(* afterwards: the close() issued by initialize()'s finally-block leaves the port closed, the reader
   stopped and the user's disconnect callback muted, for every interleaving (C16) *)
Theorem C14_released_after_close :
  forall cb l s, lrun p_join_sender p_join_reader (linit cb) l = Some s -> g_closed_returned s = true ->
  l_open s = false /\ l_alive s = false /\ l_closed s = true.
Proof.
  intros cb l s H R.
  destruct (life_invariants p_join_sender p_join_reader cb l s H) as [_ [_ [_ G]]].
  exact (proj2 (proj2 (proj2 (proj2 G))) R).
Qed.
Print Assumptions C14_released_after_close.

Example C14_nonvacuous : 30000000 <= worst_case_bound.
Proof. vm_compute. discriminate. Qed.

(* ---------------------------------------------------------------------------------------------------------
   "it never returns normally": YncaApi.initialize() as a sequence of phases (Model/Startup.v: availability scan, SYS,
   every detected subunit), for EVERY pattern of phases whose synchronisation reply does or does not arrive.  The four
   facts about the code it rests on are read off the AST on every run (Gen/Params.v): the two timed waits raise when
   they expire, nothing swallows a subunit's failure, the try/finally closes unless the try-body ran to its end. *)
From Ynca Require Import Model.Startup Proofs.StartupFacts.

Theorem C14_returns_only_when_every_phase_was_answered : forall d oks,
  o_out (startup gen_scfg d oks) = Returned <-> d = true /\ forallb (fun b => b) oks = true.
Proof. rewrite gen_scfg_good. exact startup_returns_iff_all_phases_ok. Qed.
Print Assumptions C14_returns_only_when_every_phase_was_answered.

Theorem C14_a_failed_initialize_has_released_everything : forall d oks,
  o_out (startup gen_scfg d oks) = Raised ->
  o_released (startup gen_scfg d oks) = true /\ o_exposed (startup gen_scfg d oks) = O.
Proof. rewrite gen_scfg_good. exact startup_failure_releases. Qed.
Print Assumptions C14_a_failed_initialize_has_released_everything.

Theorem C14_a_successful_initialize_exposes_every_phase : forall d oks,
  o_out (startup gen_scfg d oks) = Returned ->
  o_exposed (startup gen_scfg d oks) = length oks /\ o_released (startup gen_scfg d oks) = false.
Proof. rewrite gen_scfg_good. exact startup_success_exposes_all. Qed.
Print Assumptions C14_a_successful_initialize_exposes_every_phase.

(* skipping a subunit that does not answer would let initialize() return normally after a failed step *)
Theorem C14_skipping_a_failed_subunit_refuted :
  exists d oks, forallb (fun b => b) oks = false /\ o_out (startup cfg_swallow d oks) = Returned.
Proof. exact swallow_refuted. Qed.
Print Assumptions C14_skipping_a_failed_subunit_refuted.

Example C14_startup_nonvacuous :
  o_out (startup gen_scfg true [true; true; false; true]) = Raised /\ o_out (startup gen_scfg true [true; true]) = Returned.
Proof. split; reflexivity. Qed.
