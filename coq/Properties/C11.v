(* C11 -- Stepped numbers are written on the step grid with fixed decimals.
   Statements only.  v = vn/vd is the exact value of the number assigned (Fraction(v));
   step = sn/sd; `decimals` the function's number of decimals. *)
From Coq Require Import List NArith ZArith Bool.
From Ynca Require Import Base.Text Base.Decimal Model.Enum Model.Conv Model.Step Model.Put Model.StepSpec.
From Ynca Require Import Proofs.StepFacts Proofs.C11Gen.
From Ynca Require Import Gen.Enums Gen.Functions.
Import ListNotations.
Open Scope Z_scope.

(* (1) The transmitted text is a plain decimal literal with exactly `decimals` decimals that
       parses back to exactly k*step: mantissa * sd = k * sn * 10^decimals. *)
Theorem C11_on_grid_and_decodes :
  forall vn vd sn sd decimals, step_wf sn sd decimals = true ->
  dec_parse (step_fmt vn vd sn sd decimals) = Some (mant vn vd sn sd decimals, decimals) /\
  mant vn vd sn sd decimals * Zpos sd = step_count vn vd sn sd * Zpos sn * 10 ^ Z.of_nat decimals.
Proof.
  intros. split; [now apply fmt_parses|now apply mant_on_grid].
Qed.
Print Assumptions C11_on_grid_and_decodes.

(* (2) k*step is a grid point nearest to v: |v - k*step| <= |v - j*step| for EVERY integer j
       (both sides multiplied by the positive number vd*sd).  No magnitude bound. *)
Theorem C11_nearest :
  forall vn vd sn sd (j : Z),
  Z.abs (vn * Zpos sd - step_count vn vd sn sd * (Zpos vd * Zpos sn))
    <= Z.abs (vn * Zpos sd - j * (Zpos vd * Zpos sn)).
Proof. intros. exact (fmt_nearest vn vd sn sd O j). Qed.
Print Assumptions C11_nearest.

(* (3) Shape of the literal: optional '-', str(int part), and when decimals > 0 a '.' followed by
       exactly `decimals` digits; the '-' is present iff the grid value is negative, so zero is
       never written with a minus sign. *)
Theorem C11_format :
  forall vn vd sn sd decimals, step_wf sn sd decimals = true ->
  step_fmt vn vd sn sd decimals =
    dec_print (mant vn vd sn sd decimals <? 0)
      (Z.to_N (Z.abs (mant vn vd sn sd decimals)) / 10 ^ N.of_nat decimals)%N
      (Z.to_N (Z.abs (mant vn vd sn sd decimals)) mod 10 ^ N.of_nat decimals)%N decimals.
Proof. intros. now apply fmt_sign. Qed.
Print Assumptions C11_format.

(* (4) Every stepped function of every subunit class in /repo (regenerated tables) has
       admissible parameters, the (decimals, step) pair the protocol prescribes for its name, a
       converter shape the model covers, and MAXVOL alone carries the 16.5 exception. *)
Theorem C11_descriptors :
  forall sc f, In sc all_subunits -> In f (sc_funcs sc) -> func_step_ok f = true.
Proof. exact gen_func_step_ok. Qed.
Print Assumptions C11_descriptors.

(* (5) Assigning a number (int, bool or finite float, exactly n/d) to a writable stepped attribute
       hands the connection exactly one PUT whose value is step_fmt of that number -- or the
       documented literal when the number equals the special value -- for every oracle. *)
Theorem C11_assignment :
  forall pf pi sc f v n d t,
  In sc all_subunits -> In f (sc_funcs sc) -> f_put f = true ->
  numeric_arg v = true -> num_of v = Some (n, d) ->
  stepped_wire (f_conv f) n d = Some t ->
  set_attr pf pi sc (f_attr f) v = Some (Ok [(sc_id sc, f_name f, t)]).
Proof.
  intros pf pi sc f v n d t Hsc Hf Hput Hv Hn Hw.
  apply (stepped_assign pf pi sc f v n d t); try assumption.
  apply find_attr_self; [|assumption].
  exact (proj1 (forallb_forall _ _) gen_attrs_unique sc Hsc).
Qed.
Print Assumptions C11_assignment.

(* Non-vacuity: the generated tables contain stepped functions; 8.6 on the 0.2 grid gives "8.60";
   -0.1 on the 0.5 grid gives "0.0"; MAXVOL 16.5 is the literal. *)
Example C11_nonvacuous :
  existsb (fun sc => existsb (fun f => match conv_step (f_conv f) with Some _ => f_put f | None => false end)
                             (sc_funcs sc)) all_subunits = true /\
  step_fmt 43 5 1 5 2 = [56;46;54;48]%N /\
  step_fmt (-1) 10 1 2 1 = [48;46;48]%N /\
  stepped_wire (CMulti [CFloat (TSOnly t_16_5 33 2); CFloat (TSStep 1 5 1)]) 33 2 = Some t_16_5.
Proof. vm_compute. repeat split; reflexivity. Qed.
