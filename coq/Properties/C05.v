(* C05 -- A write sends exactly one canonical PUT and never touches the cache.
   Statements only.  In the model an assignment is the function set_attr of (class, attribute,
   value) that returns the PUTs handed to the connection or an exception; it neither takes nor
   returns the subunit state, so "leaves what the attribute reads unchanged" holds by construction
   and is tied to the code by the correspondence (reads before/after every write).
   [Some r] = decided by the model, [None] = argument kind outside the model (left open by C05). *)
From Coq Require Import List NArith ZArith Bool.
From Ynca Require Import Base.Text Base.Decimal Model.Enum Model.Conv Model.Step Model.Put Model.Methods Model.Subunit.
From Ynca Require Import Proofs.C05Facts Proofs.C05Gen Proofs.C11Gen.
From Ynca Require Import Gen.Enums Gen.Functions Gen.Methods.
Import ListNotations.

Section S.
  Variable pf : text -> option fnum.
  Variable pi : text -> option Z.

  (* (1) valid value => exactly one PUT with the function's protocol name and the canonical text *)
  Theorem C05_assign_valid :
    forall sc f v t, In sc all_subunits -> In f (sc_funcs sc) -> f_put f = true ->
    conv_to_str pf pi (f_conv f) v = Some (Ok t) ->
    set_attr pf pi sc (f_attr f) v = Some (Ok [(sc_id sc, f_name f, t)]).
  Proof.
    intros sc f v t Hsc Hf Hp Hc. apply set_attr_ok; try assumption.
    apply find_attr_self; [|assumption].
    exact (proj1 (forallb_forall _ _) gen_attrs_unique sc Hsc).
  Qed.

  (*     ... where the canonical text is: the member's wire text, *)
  Theorem C05_canon_enum : forall e en mn w s, conv_to_str pf pi (CEnum e) (PEnum en mn w s) = Some (Ok w).
  Proof. exact (enc_enum pf pi). Qed.
  Theorem C05_canon_float_or_enum : forall ts e en mn w, float_of_text pf w = None ->
    conv_to_str pf pi (CMulti [CFloat ts; CEnum e]) (PEnum en mn w true) = Some (Ok w).
  Proof. exact (enc_float_or_enum pf pi). Qed.
  Theorem C05_canon_int_or_enum : forall ts e en mn w, int_of_text pi w = None ->
    conv_to_str pf pi (CMulti [CInt ts; CEnum e]) (PEnum en mn w true) = Some (Ok w).
  Proof. exact (enc_int_or_enum pf pi). Qed.
  (*     the text itself when within the length limits (and an error beyond them), *)
  Theorem C05_canon_text : forall mn mx t,
    conv_to_str pf pi (CStr mn mx) (PStr t) = Some (if len_ok mn mx t then Ok t else Raise).
  Proof. exact (enc_text pf pi). Qed.
  (*     the decimal digits of an integer (stepped numbers: C11). *)
  Theorem C05_canon_int : forall z, conv_to_str pf pi (CInt TSStr) (PInt z) = Some (Ok (print_int z)).
  Proof. exact (enc_int pf pi). Qed.

  (* (2) read-only attributes reject assignment, whatever the value; nothing is transmitted *)
  Theorem C05_readonly :
    forall sc f v, In sc all_subunits -> In f (sc_funcs sc) -> f_put f = false ->
    set_attr pf pi sc (f_attr f) v = Some Raise.
  Proof.
    intros sc f v Hsc Hf Hp. apply set_attr_readonly; [|assumption].
    apply find_attr_self; [|assumption].
    exact (proj1 (forallb_forall _ _) gen_attrs_unique sc Hsc).
  Qed.

  (* (3) values outside the domain raise and nothing is transmitted: not a number for a numeric
         function, not an enumeration member for an enumerated one, text beyond the length limit *)
  Theorem C05_out_of_domain :
    forall sc f v, In sc all_subunits -> In f (sc_funcs sc) ->
    rejects pf pi (f_conv f) v = true ->
    set_attr pf pi sc (f_attr f) v = Some Raise.
  Proof.
    intros sc f v Hsc Hf Hr. apply set_attr_rejected; [|assumption].
    apply find_attr_self; [|assumption].
    exact (proj1 (forallb_forall _ _) gen_attrs_unique sc Hsc).
  Qed.

  (* (4) never more than one PUT, always for this subunit and the function's protocol name *)
  Theorem C05_at_most_one_put :
    forall sc attr v l, set_attr pf pi sc attr v = Some (Ok l) ->
    exists f t, find_attr sc attr = Some f /\ l = [(sc_id sc, f_name f, t)].
  Proof. exact (set_attr_shape pf pi). Qed.
End S.
Print Assumptions C05_assign_valid.
Print Assumptions C05_canon_enum.
Print Assumptions C05_canon_float_or_enum.
Print Assumptions C05_canon_int_or_enum.
Print Assumptions C05_canon_text.
Print Assumptions C05_canon_int.
Print Assumptions C05_readonly.
Print Assumptions C05_out_of_domain.
Print Assumptions C05_at_most_one_put.

(* (5) write-only attributes reject reading *)
Theorem C05_writeonly :
  forall sc st f, In sc all_subunits -> In f (sc_funcs sc) -> f_get f = false ->
  read_attr sc st (f_attr f) = Some Raise.
Proof.
  intros sc st f Hsc Hf Hg. apply read_writeonly; [|assumption].
  apply (find_attr_self sc f); [|assumption].
  exact (proj1 (forallb_forall _ _) gen_attrs_unique sc Hsc).
Qed.
Print Assumptions C05_writeonly.

(* (6) every action method of every class is one the model covers; it yields at most one PUT, for
       its own subunit; relative volume helpers have the prescribed shape *)
Theorem C05_methods_modelled : all_methods_ok all_methods = true.
Proof. exact gen_methods_ok. Qed.
Print Assumptions C05_methods_modelled.

Theorem C05_method_one_put :
  forall id b v l, call_method id b v = Some (Ok l) -> exists f t, l = [(id, f, t)].
Proof. exact call_method_shape. Qed.
Print Assumptions C05_method_one_put.

(* (7) relative volume: for EVERY int, float or bool step the text is `Up`/`Down` or
       `Up N dB`/`Down N dB` with N in {1,2,5} *)
Theorem C05_relative_volume :
  forall cid ms name vs f d v,
  In (cid, ms) all_methods -> In (name, MVol vs f, d) ms -> step_arg v = true ->
  vol_text vs v = Some (vs_word vs) \/
  exists k, (k = 1 \/ k = 2 \/ k = 5)%Z /\
            vol_text vs v = Some (vs_word vs ++ t_sp ++ print_int k ++ t_dB).
Proof.
  intros cid ms name vs f d v H1 H2 Hv.
  apply vol_text_shape; [|assumption].
  exact (gen_method_ok cid ms name (MVol vs f) d H1 H2).
Qed.
Print Assumptions C05_relative_volume.

(* Non-vacuity *)
Example C05_nonvacuous :
  existsb (fun c => existsb (fun m => match snd (fst m) with MVol _ _ => true | _ => false end) (snd c)) all_methods = true /\
  vol_text vs_do_vol_up (PFloat 2 1) = Some [85;112;32;50;32;100;66]%N /\
  vol_text vs_do_vol_down (PBool true) = Some [68;111;119;110;32;49;32;100;66]%N /\
  vol_text vs_do_vol_up (PFloat 1 2) = Some [85;112]%N.
Proof. vm_compute. repeat split; reflexivity. Qed.
