(* C16 -- close() is safe at any time, from any thread, any number of times.
   Life-cycle LTS (Model/Life.v): any number of close() calls on threads other than the reader
   (KStart ... KReturn per thread, repeated, concurrent) and close() on the reader thread itself
   (QStart ... QUnlockA, inside a message or disconnect callback), interleaved arbitrarily with the
   reader's loop / exit path and the sender.  For EVERY action list.
   PARTIAL: "returns without raising" is the absence of a raising transition in the transcribed
   close(); it is tied to the code by replaying real traces, in which a raise would be an event the
   model refuses.  Termination of OS threads: see C15. *)
From Coq Require Import List NArith ZArith Bool Lia.
From Ynca Require Import Model.Life Proofs.LifeFacts Proofs.LifeMore.
From Ynca Require Import Gen.Params.
Import ListNotations.
Local Open Scope Z_scope.

Notation lrun := (lrun p_join_sender p_join_reader).
Notation lstep := (lstep p_join_sender p_join_reader).

(* once a close() has cleared the callback it stays cleared, and no disconnect callback that is read
   after that is ever invoked: a planned close() is not reported as a disconnect *)
Theorem C16_no_disconnect_report_after_close :
  forall cb l s, lrun (linit cb) l = Some s ->
  (g_cleared s = true -> l_cb s = false) /\ g_calls_after_clear s = O.
Proof. intros cb l s H. exact (proj1 (proj2 (life_invariants p_join_sender p_join_reader cb l s H))). Qed.
Print Assumptions C16_no_disconnect_report_after_close.

(* from the moment any close() has STARTED (its first statement sets _closed), the user's disconnect
   callback is never invoked again, whatever happens -- also when the close() came while connect()
   was still in progress and there was no protocol instance to clear yet; _closed never reverts *)
Theorem C16_user_never_notified_once_close_started :
  forall s a s', lstep s a = Some s' -> l_closed s = true ->
  l_closed s' = true /\ g_user_calls s' = g_user_calls s.
Proof. exact (closed_freezes_user_calls p_join_sender p_join_reader). Qed.
Print Assumptions C16_user_never_notified_once_close_started.

Theorem C16_close_start_sets_closed :
  forall s tid s', lstep s (KStart tid) = Some s' -> l_closed s' = true.
Proof.
  intros s tid s' H. unfold Life.lstep in H.
  destruct (kfind tid (l_closers s)) as [[]|]; try discriminate; injection H as <-; reflexivity.
Qed.
Print Assumptions C16_close_start_sets_closed.

Theorem C16_close_on_reader_thread_sets_closed :
  forall s s', lstep s QStart = Some s' -> l_closed s' = true.
Proof.
  intros s s' H. unfold Life.lstep in H.
  destruct (l_rpc s); destruct (l_self s); try discriminate; injection H as <-; reflexivity.
Qed.
Print Assumptions C16_close_on_reader_thread_sets_closed.

(* once any close() has returned: the transport is closed, the reader is told to stop, _closed is
   set -- and this never reverts *)
Theorem C16_after_close_returned :
  forall cb l s, lrun (linit cb) l = Some s -> g_closed_returned s = true ->
  l_open s = false /\ l_alive s = false /\ l_closed s = true.
Proof.
  intros cb l s H R.
  destruct (life_invariants p_join_sender p_join_reader cb l s H) as [_ [_ [_ G]]].
  exact (proj2 (proj2 (proj2 (proj2 G))) R).
Qed.
Print Assumptions C16_after_close_returned.

(* with the port closed the sender cannot put anything on the wire: its write fails *)
Theorem C16_nothing_written_after_close :
  forall cb l s s', lrun (linit cb) l = Some s -> g_closed_returned s = true ->
  lstep s (LSenderWrite true) = Some s' -> False.
Proof.
  intros cb l s s' H R W.
  destruct (C16_after_close_returned cb l s H R) as [O _].
  unfold Life.lstep in W. destruct (l_sender_done s); [discriminate|]. rewrite O in W. discriminate.
Qed.
Print Assumptions C16_nothing_written_after_close.

(* a close() in any state is possible: from a fresh or finished closer the first step is enabled, and
   a thread that finished a close() may start another one *)
Theorem C16_close_can_always_start :
  forall s tid, (kfind tid (l_closers s) = None \/ kfind tid (l_closers s) = Some KDone) ->
  exists s', lstep s (KStart tid) = Some s'.
Proof.
  intros s tid [H|H]; unfold Life.lstep; rewrite H; eexists; reflexivity.
Qed.
Print Assumptions C16_close_can_always_start.

(* the closer's join of the reader has a deadline: it can always proceed after at most join_reader *)
Theorem C16_close_never_blocks_forever :
  forall s tid dl, kfind tid (l_closers s) = Some (KJoin dl) ->
  exists s1 s2, lstep s (LTick (Z.max 0 (dl - l_now s))) = Some s1 /\ lstep s1 (KJoinEndA tid) = Some s2.
Proof.
  intros s tid dl H. unfold Life.lstep.
  destruct (Z.leb_spec 0 (Z.max 0 (dl - l_now s))) as [_|C]; [|lia].
  eexists. eexists. split; [reflexivity|]. cbn. rewrite H.
  destruct (Z.leb_spec dl (l_now s + Z.max 0 (dl - l_now s))) as [_|C]; [|lia].
  rewrite orb_true_r. reflexivity.
Qed.
Print Assumptions C16_close_never_blocks_forever.

(* the reader thread closing from inside a callback: Non-vacuity *)
Example C16_nonvacuous :
  exists s, lrun (linit true)
    [LDeliver; QStart; QClrA; QClearCbsA; QLockA; QStopA; QPortCloseA; QUnlockA;
     LLoopExit; LSetConnFalse; LDrainEmpty; LEnqExit; LJoinStartA p_join_sender; LSenderExit; LJoinEnd;
     LGetCbA false; LFinish; KStart 1; KClrA 1; KLockA 1; KStopA 1; KJoinStartA 1 p_join_reader;
     KJoinEndA 1; KPortCloseA 1; KUnlockA 1; KReturn 1] = Some s
  /\ g_disc_calls s = O /\ l_open s = false /\ g_closed_returned s = true.
Proof. eexists. split; [vm_compute; reflexivity|repeat split]. Qed.

(* a close() in progress on thread tid is moved only by its own steps, each of which moves it strictly forward:
   it needs at most seven steps after it started, one of them a lock acquisition and one a join with a finite
   deadline (C16_close_never_blocks_forever) *)
Theorem C16_close_progress_measure :
  forall tid s a s', closer_step tid a = true -> lstep s a = Some s' -> (kr tid s' < kr tid s)%nat.
Proof. exact (closer_strict p_join_sender p_join_reader). Qed.
Print Assumptions C16_close_progress_measure.

Theorem C16_close_not_disturbed_by_others :
  forall tid s a s', closer_step tid a = false -> closer_start tid a = false -> lstep s a = Some s' -> kr tid s' = kr tid s.
Proof. exact (closer_untouched p_join_sender p_join_reader). Qed.
Print Assumptions C16_close_not_disturbed_by_others.

(* ---------------------------------------------------------------------------------------------------------
   Two sessions on one object (Model/Reconnect.v): close() of the first session, connect() again on the same
   object -- from inside the callback that closed, or from another thread -- and the first session's reader
   thread winding down at any point in between or afterwards.  With what the translator reads off close() and
   connect() today (Gen/Params.v: close() clears the old protocol's callback, the wrapper tests `_closed`),
   the user's disconnect callback is not invoked, for EVERY order of these steps. *)
From Ynca Require Import Model.Reconnect Proofs.ReconnectFacts.

Theorem C16_planned_close_then_reconnect_never_reports_a_disconnect :
  forall tr s, rrun gen_rcfg rinit tr = Some s -> r_user_calls s = O.
Proof. exact (clears_no_user_call gen_rcfg gen_close_clears). Qed.
Print Assumptions C16_planned_close_then_reconnect_never_reports_a_disconnect.

(* the `_closed` flag alone is enough as long as the object is not connected again ... *)
Theorem C16_closed_flag_enough_without_reconnect :
  forall tr s, ~ In RConnect tr -> rrun gen_rcfg rinit tr = Some s -> r_user_calls s = O.
Proof. exact (flag_enough_without_reconnect gen_rcfg gen_wrapper_checks). Qed.
Print Assumptions C16_closed_flag_enough_without_reconnect.

(* ... and not otherwise: a close() that relied on the flag alone would report the planned close as a disconnect
   of the new session (the history is the replay) *)
Theorem C16_closed_flag_alone_refuted :
  exists tr s, rrun cfg_flag_only rinit tr = Some s /\ r_user_calls s = 1%nat.
Proof. exact flag_only_refuted. Qed.
Print Assumptions C16_closed_flag_alone_refuted.

Example C16_reconnect_nonvacuous :
  exists s, rrun gen_rcfg rinit [RClose; RConnect; ROldRead; ROldCall] = Some s /\ r_reconnected s = true /\ r_old s = ODone.
Proof. eexists. split; [vm_compute; reflexivity|split; reflexivity]. Qed.
