(* C03 -- An attribute always reads the decoding of the last value the device reported.
   Statements only; proofs in Proofs/SubunitFacts.v, reflection in Proofs/SubGen.v. *)
From Coq Require Import List NArith ZArith Bool.
From Ynca Require Import Base.Text Model.Enum Model.Conv Model.Line Model.Subunit.
From Ynca Require Import Proofs.SubunitFacts Proofs.SubGen.
From Ynca Require Import Gen.Enums Gen.Functions.
Import ListNotations.

(* For every subunit class of /repo, every oracle, EVERY history of messages (any subunits, any
   function names, errors interleaved) and every function the class models: what a read returns is
   the decoding of the most recent decodable value reported for exactly this subunit id and this
   function name, or None if there is none.  (`latest` scans the reversed history.) *)
Theorem C03_read_is_last_reported :
  forall pf pi sc, In sc all_subunits ->
  forall (h : list msg) st ns fn, In fn (sc_funcs sc) ->
  run pf pi sc ss_init h = Ok (st, ns) ->
  read st (f_name fn) = latest pf pi sc fn (rev h).
Proof.
  intros pf pi sc Hsc h st ns fn Hfn H.
  exact (read_spec pf pi sc h st ns fn (names_unique_of sc Hsc) Hfn H).
Qed.
Print Assumptions C03_read_is_last_reported.

(* Messages for other subunits, for functions the subunit does not model, error replies and
   unparsable lines change no cached value (and notify nobody). *)
Theorem C03_non_interference :
  forall pf pi sc st m st' n,
  on_msg pf pi sc st m = Ok (st', n) ->
  (fst m <> StOK \/
   (exists s f v, snd m = Some (s, f, v) /\ (s <> sc_id sc \/ find_func sc f = None)) \/
   snd m = None) ->
  ss_vals st' = ss_vals st /\ n = None.
Proof. exact on_msg_foreign. Qed.
Print Assumptions C03_non_interference.

(* Handling a message never raises, so `run` is defined on every history. *)
Theorem C03_run_total :
  forall pf pi sc h st, exists st' ns, run pf pi sc st h = Ok (st', ns).
Proof. intros. apply run_total. Qed.
Print Assumptions C03_run_total.

(* Function names are unique within each class and ids across classes (regenerated tables), so
   "exactly that subunit and function" identifies one cache slot. *)
Theorem C03_tables :
  forallb names_unique all_subunits = true /\ nodup_text (map sc_id all_subunits) = true.
Proof. split; [exact gen_names_unique|exact gen_ids_unique]. Qed.
Print Assumptions C03_tables.

(* Non-vacuity: MAIN receives VOL twice with a ZONE2 message and an error in between. *)
Example C03_nonvacuous :
  match find_class all_subunits [77;65;73;78]%N with
  | Some sc =>
      match run (fun _ => None) (fun _ => None) sc ss_init
              [ (StOK, Some ([77;65;73;78], [86;79;76], [45;51;48;46;53]));
                (StOK, Some ([90;79;78;69;50], [86;79;76], [45;49;48;46;48]));
                (StUNDEFINED, None);
                (StOK, Some ([77;65;73;78], [86;79;76], [45;50;53;46;48])) ]%N with
      | Ok (st, _) => read st [86;79;76]%N
      | Raise => None
      end
  | None => None
  end = Some (VFloat (FDec (-250) 1)).
Proof. vm_compute. reflexivity. Qed.
