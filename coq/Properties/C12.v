(* C12 -- The device never sees a silent gap longer than the keep-alive interval.
   Upper bounds need promptness assumptions: an URGENT run (Proofs/ConnUrgent.v) lets time pass only
   while the sender is blocked (in get() with an empty queue, or in sleep()) and never past the
   deadline it waits for; nobody else holds the write lock or removes queue items (no close(), no
   connection_lost(): "while connected").  The real bound is this plus scheduling latency. *)
From Coq Require Import List NArith ZArith Bool Lia.
From Ynca Require Import Base.Text Model.Line Model.Conn Proofs.ConnFacts Proofs.ConnTheorems Proofs.ConnUrgent.
From Ynca Require Import Gen.Params.
Import ListNotations.
Local Open Scope Z_scope.

Lemma sp_nonneg : 0 <= p_spacing. Proof. vm_compute. discriminate. Qed.
Lemma ka_nonneg : 0 <= p_keepalive. Proof. vm_compute. discriminate. Qed.

(* while the sender lives: never more than keepalive + spacing since the last write (keepalive since
   the start before the first write) *)
Theorem C12_silence_bounded :
  forall cap l s, urun p_spacing p_keepalive (init cap) l = Some s -> spc_ s <> SDone ->
  now s <= base p_spacing s + p_keepalive.
Proof. exact (silence_bounded p_spacing p_keepalive sp_nonneg ka_nonneg). Qed.
Print Assumptions C12_silence_bounded.

(* consecutive writes are at most keepalive + spacing apart; the first one comes within keepalive *)
Theorem C12_gaps_bounded :
  forall cap l s, urun p_spacing p_keepalive (init cap) l = Some s ->
  gapped p_spacing p_keepalive (g_wire s) /\
  (forall a, nth_error (g_wire s) 0 = Some a -> fst a <= p_keepalive).
Proof. exact (gaps_bounded p_spacing p_keepalive sp_nonneg ka_nonneg). Qed.
Print Assumptions C12_gaps_bounded.

(* an urgent run is a run: every all-schedules theorem (C01, C08, C13, C20) applies to it *)
Theorem C12_urgent_runs_are_runs :
  forall l s s', urun p_spacing p_keepalive s l = Some s' -> run p_spacing p_keepalive s l = Some s'.
Proof. exact (urun_run p_spacing p_keepalive). Qed.
Print Assumptions C12_urgent_runs_are_runs.

(* directly after connecting two probes are queued before anything else (connection_made), so by C01
   they are the first two lines on the wire *)
Theorem C12_first_two_are_probes :
  forall cap l s r, run p_spacing p_keepalive (init cap) l = Some s -> g_drained s = [] ->
  g_enq s = IKA :: IKA :: r -> (2 <= length (g_wire s))%nat ->
  exists w, map snd (g_wire s) = IKA :: IKA :: w.
Proof.
  intros cap l s r H D E L.
  destruct (wire_is_prefix_of_submissions p_spacing p_keepalive cap l s H D) as [x P].
  rewrite E in P. cbn in P.
  destruct (map snd (g_wire s)) as [|a [|b w]] eqn:M;
    [apply (f_equal (@length _)) in M; rewrite map_length in M; cbn in M; lia
    |apply (f_equal (@length _)) in M; rewrite map_length in M; cbn in M; lia|].
  cbn in P. injection P as <- <- _. now exists w.
Qed.
Print Assumptions C12_first_two_are_probes.

(* the constant in /repo: at most 30 s *)
Theorem C12_constant : p_keepalive <= 30000000 /\ 0 < p_keepalive.
Proof. vm_compute. split; [discriminate|reflexivity]. Qed.
Print Assumptions C12_constant.

Example C12_nonvacuous :
  exists s, urun p_spacing p_keepalive (init 0)
    [SGetWait p_keepalive; Tick p_keepalive; SDeqEmpty; SEnqKA; SDeq IKA; SCheckConn true; SSetFlag; SLogAdd t_probe;
     SLockAcq; SWriteA (frame t_probe)] = Some s
  /\ g_wire s = [(p_keepalive, IKA)].
Proof. eexists. split; [vm_compute; reflexivity|reflexivity]. Qed.
