(* C02 -- Received bytes are framed and parsed identically however they are chunked.
   Statements only; proofs in Proofs/FramingFacts.v, Proofs/LineFacts.v, Base/Utf8.v. *)
From Coq Require Import List NArith Bool.
From Ynca Require Import Base.Text Base.Utf8 Model.Framing Model.Line Model.Reader.
From Ynca Require Import Proofs.FramingFacts Proofs.LineFacts.
Import ListNotations.
Open Scope N_scope.

(* (1) Framing is the unique decomposition of the stream into CRLF-free lines and a CRLF-free rest. *)
Theorem C02_framing_spec :
  forall ls rest, forallb no_crlf ls = true -> no_crlf rest = true ->
  scan (join_lines ls rest) = (ls, rest).
Proof. exact scan_join. Qed.
Print Assumptions C02_framing_spec.

Theorem C02_framing_sound :
  forall b, let '(ps, rest) := scan b in
  b = join_lines ps rest /\ forallb no_crlf ps = true /\ no_crlf rest = true.
Proof. exact scan_sound. Qed.
Print Assumptions C02_framing_sound.

(* (2) Chunk independence of the whole receive path: for EVERY list of read chunks (cuts inside CR LF
       and inside multi-byte characters included), the callback notifications are exactly the parsed
       decodings of the complete lines of the concatenated stream, one per line, in order, and the
       incomplete trailing line is kept in the buffer, not reported. *)
Theorem C02_chunk_independent :
  forall chunks,
  rx_run rx_init chunks =
    let '(ls, rest) := scan (concat chunks) in
    ({| r_buf := rest; r_flag := false |}, map (fun p => parse_line (decode_packet p)) ls).
Proof. exact rx_chunk_independent. Qed.
Print Assumptions C02_chunk_independent.

Corollary C02_any_two_partitions :
  forall chunks1 chunks2, concat chunks1 = concat chunks2 ->
  rx_run rx_init chunks1 = rx_run rx_init chunks2.
Proof. intros c1 c2 E. rewrite !rx_chunk_independent, E. reflexivity. Qed.
Print Assumptions C02_any_two_partitions.

(* (3) Parsing: S up to the first colon, F up to the first following '=', V the whole remainder. *)
Theorem C02_parse :
  forall s f v, s <> [] -> lacks c_colon s -> f <> [] -> lacks c_eq f ->
  parse_line (fmt_cmd s f v) = (StOK, Some (s, f, v)).
Proof. exact parse_line_fmt. Qed.
Print Assumptions C02_parse.

Theorem C02_error_lines :
  parse_line t_at_UNDEFINED = (StUNDEFINED, None) /\
  parse_line t_at_RESTRICTED = (StRESTRICTED, None).
Proof. exact parse_line_errors. Qed.
Print Assumptions C02_error_lines.

(* (4) UTF-8: any text of scalar values survives encode/decode. *)
Theorem C02_utf8 : forall t, all_scalar t -> utf8_decode (utf8_encode t) = t.
Proof. exact utf8_roundtrip. Qed.
Print Assumptions C02_utf8.

(* (5) End to end: messages S/F/V (any Unicode value), UTF-8 encoded, CRLF framed, followed by an
       incomplete line, cut into ANY chunks: delivered as (OK, S, F, V) once each, in order. *)
Theorem C02_end_to_end :
  forall ms rest chunks,
  Forall wf_sfv ms -> no_crlf rest = true ->
  concat chunks = wire_of ms rest ->
  rx_run rx_init chunks =
    ({| r_buf := rest; r_flag := false |}, map (fun m => (StOK, Some m)) ms).
Proof. exact rx_end_to_end. Qed.
Print Assumptions C02_end_to_end.

(* Non-vacuity: "@MAIN:VOL=-30.5" CR LF "@SYS:X=a:b=c" CR LF "@Z" cut inside the CR LF and inside
   a two-byte character. *)
Example C02_nonvacuous :
  snd (rx_run rx_init [[64;77;65;73;78;58;86;79;76;61;45;51;48;46;53;13]; [10;64;83;89;83;58;88;61;195];
                       [169;58;98;61;99;13;10;64;90]])
  = [ (StOK, Some ([77;65;73;78], [86;79;76], [45;51;48;46;53]));
      (StOK, Some ([83;89;83], [88], [233;58;98;61;99])) ].
Proof. vm_compute. reflexivity. Qed.
