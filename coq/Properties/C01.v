(* C01 -- Commands reach the wire exactly once, one CRLF line each, in submission order.
   For EVERY action list of the connection machine: any number of caller threads (the ghost tid in
   ICmd), any interleaving with sender, reader and device.  "While the connection is up" = nobody
   but the sender removes queue items (g_drained = []: no connection_lost drain). *)
From Coq Require Import List NArith ZArith Bool Lia.
From Ynca Require Import Base.Text Base.Utf8 Model.Framing Model.Line Model.Conn.
From Ynca Require Import Proofs.ConnFacts Proofs.ConnTheorems.
From Ynca Require Import Gen.Params.
Import ListNotations.
Local Open Scope Z_scope.

Notation run := (run p_spacing p_keepalive).
Notation step := (step p_spacing p_keepalive).

(* FIFO: everything ever enqueued = what the sender took ++ what is still queued *)
Theorem C01_fifo :
  forall cap l s, run (init cap) l = Some s -> g_drained s = [] -> g_enq s = g_deq s ++ q s.
Proof. exact (fifo_all_schedules p_spacing p_keepalive). Qed.
Print Assumptions C01_fifo.

(* at most once, in order, nothing else: the items written, then the one in the sender's hand, are
   exactly the non-marker items dequeued (rest = [] while the sender lives) *)
Theorem C01_exactly_once :
  forall cap l s, run (init cap) l = Some s ->
  exists rest, nonexit (g_deq s) = map snd (g_wire s) ++ hand (spc_ s) ++ rest /\
               (spc_ s <> SDone -> rest = []).
Proof. exact (exactly_once_all_schedules p_spacing p_keepalive). Qed.
Print Assumptions C01_exactly_once.

(* the wire is a prefix of the submissions (keep-alive markers included, exit marker aside) *)
Theorem C01_wire_prefix_of_submissions :
  forall cap l s, run (init cap) l = Some s -> g_drained s = [] ->
  is_prefix_of (map snd (g_wire s)) (nonexit (g_enq s)).
Proof. exact (wire_is_prefix_of_submissions p_spacing p_keepalive). Qed.
Print Assumptions C01_wire_prefix_of_submissions.

(* the commands of any one caller appear in the order that caller submitted them *)
Theorem C01_per_caller_order :
  forall cap l s c, run (init cap) l = Some s -> g_drained s = [] ->
  is_prefix_of (filter (from_caller c) (map snd (g_wire s)))
               (filter (from_caller c) (nonexit (g_enq s))).
Proof. exact (per_caller_order p_spacing p_keepalive). Qed.
Print Assumptions C01_per_caller_order.

(* once idle, every submitted command has been written *)
Theorem C01_idle_all_written :
  forall cap l s, run (init cap) l = Some s -> g_drained s = [] ->
  q s = [] -> hand (spc_ s) = [] -> spc_ s <> SDone ->
  map snd (g_wire s) = nonexit (g_enq s).
Proof. exact (idle_means_all_written p_spacing p_keepalive). Qed.
Print Assumptions C01_idle_all_written.

(* each write is frame(text) of the item in hand ... *)
Theorem C01_write_is_framed_text :
  forall s b s', step s (SWriteA b) = Some s' ->
  exists i, spc_ s = SWrite i /\ b = frame (item_text i) /\ g_wire s' = g_wire s ++ [(now s, i)].
Proof. exact (write_is_one_framed_line p_spacing p_keepalive). Qed.
Print Assumptions C01_write_is_framed_text.

(* ... which is exactly one CRLF-terminated line carrying the text unchanged *)
Theorem C01_frame_is_one_line :
  forall t, all_scalar t -> no_crlf (utf8_encode t) = true ->
  scan (frame t) = ([utf8_encode t], []) /\ utf8_decode (utf8_encode t) = t.
Proof. exact frame_is_one_line. Qed.
Print Assumptions C01_frame_is_one_line.

(* the text of a marker is the keep-alive probe; of a command, the command (put/get format: C02's fmt_cmd) *)
Theorem C01_probe_text : item_text IKA = fmt_cmd t_SYS t_MODELNAME [c_q].
Proof. reflexivity. Qed.
Print Assumptions C01_probe_text.

Example C01_nonvacuous :
  exists s, run (init 0)
    [Enq 100 IKA; Enq 1 (ICmd 1 [65]%N); Enq 2 (ICmd 2 [66]%N);
     SDeq IKA; SCheckConn true; SSetFlag; SLogAdd t_probe; SLockAcq; SWriteA (frame t_probe); SLockRel;
     SSleepStartA p_spacing; Tick p_spacing; SWake; SDeq (ICmd 7 [65]%N)] = Some s
  /\ g_drained s = [] /\ map snd (g_wire s) = [IKA] /\ hand (spc_ s) = [ICmd 1 [65]%N].
Proof. eexists. split; [vm_compute; reflexivity|repeat split]. Qed.

(* The model's caller step puts every submitted command into the queue.  That the code's raw()/put()/keep-alive do the
   same -- a plain blocking put, or a non-blocking one on a queue without a size bound, with no exception handler on the
   path that could drop the item (one level of helpers followed) -- is read off the AST of ynca/connection.py on every
   run (Gen/Params.v, false when the shape is not recognised). *)
Theorem C01_a_submitted_command_enters_the_queue : p_enqueue_lossless = true.
Proof. reflexivity. Qed.
Print Assumptions C01_a_submitted_command_enters_the_queue.
