(* C19 -- No client command can make the test server drop the session.
   The handler is a total function with an explicit exception channel: every Python operation in it that can
   raise (dict indexing, float()/int(), list indexing, strict decoding) returns Raise in the model unless
   the guard the translator found in the AST covers it (Gen/ServerTables.gen_cfg).  Oracles for float(),
   int() and str(float) are universally quantified. *)
From Coq Require Import List NArith ZArith Bool.
From Ynca Require Import Base.Text Model.Enum Model.Line Model.ServerNames Model.Server.
From Ynca Require Import Proofs.ServerFacts Proofs.ServerMore Proofs.ServerGen.
From Ynca Require Import Gen.ServerTables Gen.ServerRecs.
Import ListNotations.

(* the guards are all there, and the relative-volume condition has the intended truth table *)
Theorem C19_guards_present : cfg_eqb gen_cfg good_cfg = true.
Proof. exact gen_cfg_good. Qed.
Print Assumptions C19_guards_present.

(* for EVERY store, EVERY sequence of received byte lines (any bytes: unknown names, malformed text, invalid
   UTF-8) and every oracle: the handler never raises, so the session goes on and every later line is answered
   by the same total function *)
Theorem C19_never_raises :
  forall pf pi ps st lines,
  exists r, srv_run gen_cfg srv_multi srv_related srv_inp_map srv_zones pf pi ps st lines = Ok r.
Proof.
  rewrite gen_cfg_eq. intros pf pi ps st lines.
  exact (srv_run_total srv_multi srv_related srv_inp_map srv_zones pf pi ps lines (inp_ok_spec _ gen_inp_ok) st).
Qed.
Print Assumptions C19_never_raises.

(* in particular every command the typed API can emit, since it is a line *)
Theorem C19_one_line :
  forall pf pi ps st b, exists r, srv_bytes gen_cfg srv_multi srv_related srv_inp_map srv_zones pf pi ps st b = Ok r.
Proof.
  rewrite gen_cfg_eq. intros pf pi ps st b.
  exact (srv_bytes_total srv_multi srv_related srv_inp_map srv_zones pf pi ps st b (inp_ok_spec _ gen_inp_ok)).
Qed.
Print Assumptions C19_one_line.

(* relative values are an arithmetic matter only for the volume functions: for every other function a value
   starting with Up or Down is stored like any other value, with no conversion, identically for Up and Down *)
Theorem C19_relative_only_for_volume :
  forall pf pi ps st s f v,
  teqb f s_VOL = false -> teqb f s_ZONEBVOL = false ->
  put_value gen_cfg pf pi ps st s f v = Ok (Some v).
Proof. rewrite gen_cfg_eq. intros pf pi ps. exact (put_non_volume pf pi ps). Qed.
Print Assumptions C19_relative_only_for_volume.

(* on the volume functions a well-formed step is current +/- amount (one half without an amount) ... *)
Theorem C19_relative_step :
  forall pf pi ps st s f v cn cd,
  (teqb f s_VOL || teqb f s_ZONEBVOL) = true -> (starts_with s_Up v || starts_with s_Down v) = true ->
  pf (get_data st s f) = Some (Fin cn cd) ->
  forall an ad,
    (match split_space v [] with
     | [_] => Some (1%Z, 2%positive)
     | _ :: p :: _ => match pi p with Some z => Some (z, 1%positive) | None => None end
     | [] => None
     end) = Some (an, ad) -> int_overflows an = false ->
    let sgn := if starts_with s_Up v then 1%Z else (-1)%Z in
    put_value gen_cfg pf pi ps st s f v = Ok (Some (ps ((cn * Zpos ad + sgn * an * Zpos cd)%Z, (cd * ad)%positive))).
Proof. rewrite gen_cfg_eq. intros pf pi ps. exact (put_volume_relative_ok pf pi ps). Qed.
Print Assumptions C19_relative_step.

(* ... and a step on a level that is not a number is answered with an error line and changes nothing *)
Theorem C19_relative_step_without_level :
  forall pf pi ps st s f v,
  (teqb f s_VOL || teqb f s_ZONEBVOL) = true -> (starts_with s_Up v || starts_with s_Down v) = true ->
  teqb s s_SYS && teqb f s_REMOTECODE = false -> teqb f s_MEM = false ->
  pf (get_data st s f) = None ->
  handle_put gen_cfg srv_related srv_inp_map srv_zones pf pi ps st s f v = Ok (st, [s_UNDEFINED]).
Proof. rewrite gen_cfg_eq. intros pf pi ps. exact (put_volume_relative_bad srv_related srv_inp_map srv_zones pf pi ps). Qed.
Print Assumptions C19_relative_step_without_level.

(* stored values of unrelated functions: whatever the line (and whatever the guards), a command never adds or
   removes a key ... *)
Theorem C19_keys_never_change :
  forall pf pi ps st lines st' outs,
  srv_run gen_cfg srv_multi srv_related srv_inp_map srv_zones pf pi ps st lines = Ok (st', outs) -> keys st' = keys st.
Proof. intros pf pi ps st lines st' outs. exact (srv_run_keys srv_multi srv_related srv_inp_map srv_zones pf pi ps gen_cfg lines st st' outs). Qed.
Print Assumptions C19_keys_never_change.

(* ... and a PUT leaves every stored value alone except the one it names and, when the function is PWR, the
   PWR / PWRB values it is coupled with *)
Theorem C19_unrelated_values_unchanged :
  forall pf pi ps st s f v st' out,
  handle_put gen_cfg srv_related srv_inp_map srv_zones pf pi ps st s f v = Ok (st', out) ->
  forall s0 f0, (s0 <> s \/ f0 <> f) -> (teqb f s_PWR = false \/ (f0 <> s_PWR /\ f0 <> s_PWRB)) ->
  get_data st' s0 f0 = get_data st s0 f0.
Proof. intros pf pi ps st s f v st' out. exact (handle_put_frame srv_related srv_inp_map srv_zones pf pi ps gen_cfg st s f v st' out). Qed.
Print Assumptions C19_unrelated_values_unchanged.
