(* C04 -- Typed decoding is total and round-trips with the wire text.
   Statements only; proofs are in Proofs/EnumFacts.v (generic) and Proofs/C04Gen.v
   (reflection over the tables regenerated from /repo on every run). *)
From Coq Require Import List NArith ZArith Bool.
From Ynca Require Import Base.Text Base.Decimal Model.Enum Model.Conv Model.Recorded.
From Ynca Require Import Proofs.EnumFacts Proofs.C04Gen.
From Ynca Require Import Gen.Enums Gen.Functions Gen.RecTriples.
Import ListNotations.

Definition enums_in_use := used_enums all_subunits ++ all_enums.

(* Decoding ANY string yields the member with that wire text, else UNKNOWN; never an exception. *)
Theorem C04_decode_total :
  forall e, In e enums_in_use -> forall s : text,
  exists n, enum_decode e s = Ok n /\
    (In (n, s) (en_members e) \/ (n = t_UNKNOWN /\ ~ In s (en_wires e))).
Proof. intros e He. exact (decode_total e (enum_wf_of e He)). Qed.
Print Assumptions C04_decode_total.

(* Encoding any member and decoding the result gives back the same member. *)
Theorem C04_roundtrip :
  forall e, In e enums_in_use -> forall n w,
  In (n, w) (en_members e) -> enum_encode e n = Ok w /\ enum_decode e w = Ok n.
Proof. intros e He. exact (decode_encode e (enum_wf_of e He)). Qed.
Print Assumptions C04_roundtrip.

(* Distinct members have distinct wire texts. *)
Theorem C04_injective :
  forall e, In e enums_in_use -> forall n1 n2 w,
  In (n1, w) (en_members e) -> In (n2, w) (en_members e) -> n1 = n2.
Proof. intros e He. exact (wires_injective e (enum_wf_of e He)). Qed.
Print Assumptions C04_injective.

(* Text functions pass values through unchanged (for every oracle). *)
Theorem C04_text_identity :
  forall pf pi mn mx s, to_value pf pi (CStr mn mx) s = Ok (VStr s).
Proof. reflexivity. Qed.
Print Assumptions C04_text_identity.

(* Every converter of every function is one the model knows. *)
Theorem C04_all_converters_modelled : all_convs_known all_subunits = true.
Proof. exact convs_known. Qed.
Print Assumptions C04_all_converters_modelled.

(* Every recorded value of an enumerated function decodes to a proper member that re-encodes
   identically; every recorded plain numeric literal of a numeric function decodes to exactly
   the rational it denotes (as computed independently by Python's Fraction). *)
Theorem C04_recorded :
  forall r t, In r all_recordings -> In t (snd r) ->
  triple_ok all_subunits recorded_literals t = true.
Proof. exact recorded_triple_ok. Qed.
Print Assumptions C04_recorded.

Theorem C04_recorded_enum_meaning :
  forall e v, enum_rec_ok e v = true ->
  exists n, enum_decode e v = Ok n /\ n <> t_UNKNOWN /\ enum_encode e n = Ok v.
Proof. exact enum_rec_ok_spec. Qed.
Print Assumptions C04_recorded_enum_meaning.

Theorem C04_recorded_float_meaning :
  forall v m k, float_rec_ok recorded_literals v = true -> dec_parse v = Some (m, k) ->
  assoc v recorded_literals = Some (m, k).
Proof. exact (float_rec_ok_spec recorded_literals). Qed.
Print Assumptions C04_recorded_float_meaning.

(* Non-vacuity: a modelled, enumerated, recorded triple exists and meets the check. *)
Example C04_nonvacuous :
  existsb (fun r => existsb (triple_modelled all_subunits) (snd r)) all_recordings = true /\
  enum_rec_ok enum_Mute [79;102;102]%N = true.
Proof. vm_compute. split; reflexivity. Qed.
