(* Plain decimal literals  -?d+(.d+)?  over code points: printing and parsing.
   Definitions plus the round-trip facts the property proofs need. *)
From Coq Require Import List NArith ZArith Bool Lia ZifyBool ZifyN.
Ltac Zify.zify_post_hook ::= Z.to_euclidean_division_equations.
From Ynca Require Import Base.Text.
Import ListNotations.
Open Scope N_scope.

Definition is_digit (c : N) : bool := (48 <=? c) && (c <=? 57).

(* Horner evaluation of a digit string; None if a non-digit occurs. *)
Fixpoint horner (l : text) (acc : N) : option N :=
  match l with
  | [] => Some acc
  | c :: r => if is_digit c then horner r (acc * 10 + (c - 48)) else None
  end.

Definition parse_nat (l : text) : option N :=
  match l with [] => None | _ => horner l 0 end.

(* exactly k digits, most significant first, of n mod 10^k *)
Fixpoint fixed_digits (k : nat) (n : N) : text :=
  match k with
  | O => []
  | S k' => fixed_digits k' (n / 10) ++ [48 + n mod 10]
  end.

(* little-endian digits without leading zeros; fuel = an upper bound on the digit count *)
Fixpoint digits_le (fuel : nat) (n : N) : text :=
  match fuel with
  | O => []
  | S f => if n =? 0 then [] else (48 + n mod 10) :: digits_le f (n / 10)
  end.

(* str(n) for a non-negative Python int *)
Definition print_nat (n : N) : text :=
  if n =? 0 then [48] else rev (digits_le (N.to_nat (N.size n)) n).

(* split at the first '.' *)
Fixpoint split_dot (l : text) : text * option text :=
  match l with
  | [] => ([], None)
  | c :: r => if c =? c_dot then ([], Some r)
              else let '(a, b) := split_dot r in (c :: a, b)
  end.

(* (mantissa, number of decimals): the literal denotes mantissa / 10^decimals *)
Definition dec_parse_unsigned (l : text) : option (N * nat) :=
  match split_dot l with
  | (ip, None) => match parse_nat ip with Some n => Some (n, O) | None => None end
  | (ip, Some fp) =>
      match parse_nat ip, parse_nat fp with
      | Some a, Some b => Some (a * 10 ^ N.of_nat (length fp) + b, length fp)
      | _, _ => None
      end
  end.

Definition dec_parse (l : text) : option (Z * nat) :=
  match l with
  | c :: r =>
      if c =? c_minus then
        match dec_parse_unsigned r with
        | Some (m, k) => Some (Z.opp (Z.of_N m), k)
        | None => None
        end
      else
        match dec_parse_unsigned l with
        | Some (m, k) => Some (Z.of_N m, k)
        | None => None
        end
  | [] => None
  end.

(* integer literal  -?d+  (what int() accepts inside the plain grammar) *)
Definition int_parse (l : text) : option Z :=
  match l with
  | c :: r =>
      if c =? c_minus then option_map (fun n => Z.opp (Z.of_N n)) (parse_nat r)
      else option_map Z.of_N (parse_nat l)
  | [] => None
  end.

Definition print_int (z : Z) : text :=
  match z with
  | Zneg p => c_minus :: print_nat (Npos p)
  | _ => print_nat (Z.to_N z)
  end.

(* sign, integer part, '.', exactly k fraction digits (no '.' when k = 0) *)
Definition dec_print (neg : bool) (ip fp : N) (k : nat) : text :=
  (if neg then [c_minus] else []) ++ print_nat ip ++
  match k with O => [] | _ => c_dot :: fixed_digits k fp end.

(* ---------------------------------------------------------------- facts *)

Definition all_digits (l : text) : Prop := Forall (fun c => is_digit c = true) l.

Lemma is_digit_spec c : is_digit c = true <-> 48 <= c <= 57.
Proof. unfold is_digit. rewrite andb_true_iff, !N.leb_le. tauto. Qed.

Lemma horner_app a b acc :
  horner (a ++ b) acc = match horner a acc with Some x => horner b x | None => None end.
Proof.
  revert acc; induction a as [|c a IH]; intro acc; cbn; [reflexivity|].
  destruct (is_digit c); [apply IH|reflexivity].
Qed.

Lemma digit_of_mod n : is_digit (48 + n mod 10) = true /\ 48 + n mod 10 - 48 = n mod 10.
Proof.
  assert (n mod 10 < 10) by (apply N.mod_lt; lia).
  split; [apply is_digit_spec; lia|lia].
Qed.

Lemma horner_fixed k : forall n acc,
  horner (fixed_digits k n) acc = Some (acc * 10 ^ N.of_nat k + n mod 10 ^ N.of_nat k).
Proof.
  induction k as [|k IH]; intros n acc.
  - change (N.of_nat 0) with 0. rewrite N.pow_0_r, N.mod_1_r. cbn [fixed_digits horner]. f_equal. lia.
  - cbn [fixed_digits]. rewrite horner_app, IH. cbn [horner].
    destruct (digit_of_mod n) as [Hd Hv]. rewrite Hd, Hv. f_equal.
    rewrite Nat2N.inj_succ, N.pow_succ_r'.
    set (p := 10 ^ N.of_nat k).
    assert (Hp : p <> 0) by (apply N.pow_nonzero; lia).
    rewrite (N.mul_comm 10 p).
    rewrite (N.mod_mul_r n p 10) by lia.
    pose proof (N.div_mod n p Hp) as D.
    assert (E : n / p mod 10 = (n / 10) mod p * 0 + n / p mod 10) by lia.
    (* n mod (p*10) = n mod p + p * ((n/p) mod 10); but we hold (n/10) mod p and n mod 10 *)
    clear E.
    assert (K : (n / 10) mod p * 10 + n mod 10 = n mod p + p * ((n / p) mod 10)).
    { pose proof (N.mod_mul_r n 10 p ltac:(lia) Hp) as M1.
      pose proof (N.mod_mul_r n p 10 Hp ltac:(lia)) as M2.
      rewrite (N.mul_comm 10 p) in M1. lia. }
    lia.
Qed.

Lemma fixed_digits_length k n : length (fixed_digits k n) = k.
Proof.
  revert n; induction k as [|k IH]; intro n; cbn; [reflexivity|].
  rewrite app_length, IH. cbn. lia.
Qed.

Lemma fixed_digits_all k n : all_digits (fixed_digits k n).
Proof.
  revert n; induction k as [|k IH]; intro n; cbn; [constructor|].
  apply Forall_app. split; [apply IH|].
  constructor; [apply digit_of_mod|constructor].
Qed.

(* value of a little-endian digit string *)
Fixpoint le_val (l : text) : N :=
  match l with [] => 0 | c :: r => (c - 48) + 10 * le_val r end.

Lemma digits_le_val f : forall n, n < 2 ^ N.of_nat f -> le_val (digits_le f n) = n.
Proof.
  induction f as [|f IH]; intros n Hn.
  - cbn in *. lia.
  - cbn [digits_le]. destruct (N.eqb_spec n 0) as [->|Hz]; [reflexivity|].
    cbn [le_val]. destruct (digit_of_mod n) as [_ Hv]. rewrite Hv.
    rewrite IH.
    + pose proof (N.div_mod n 10 ltac:(lia)). lia.
    + rewrite Nat2N.inj_succ, N.pow_succ_r' in Hn.
      apply N.div_lt_upper_bound; lia.
Qed.

Lemma digits_le_all f n : all_digits (digits_le f n).
Proof.
  revert n; induction f as [|f IH]; intro n; cbn; [constructor|].
  destruct (n =? 0); [constructor|]. constructor; [apply digit_of_mod|apply IH].
Qed.

Lemma horner_all_digits l : all_digits l -> forall acc, exists v, horner l acc = Some v.
Proof.
  induction 1 as [|c r Hc _ IH]; intro acc; cbn; [eauto|].
  rewrite Hc. apply IH.
Qed.

Lemma horner_rev_le l : all_digits l -> forall acc,
  horner (rev l) acc = Some (acc * 10 ^ N.of_nat (length l) + le_val l).
Proof.
  induction 1 as [|c r Hc Hr IH]; intro acc.
  - cbn. f_equal. lia.
  - cbn [rev]. rewrite horner_app, IH. cbn [horner]. rewrite Hc. f_equal.
    cbn [length le_val]. rewrite Nat2N.inj_succ, N.pow_succ_r'. lia.
Qed.

Lemma size_bound n : n < 2 ^ N.of_nat (N.to_nat (N.size n)).
Proof.
  rewrite N2Nat.id. destruct n as [|p]; [cbn; lia|].
  pose proof (N.size_gt (Npos p)). exact H.
Qed.

Lemma print_nat_nonempty n : print_nat n <> [].
Proof.
  unfold print_nat. destruct (N.eqb_spec n 0) as [->|Hz]; [discriminate|].
  destruct (N.to_nat (N.size n)) as [|f] eqn:E.
  - exfalso. destruct n as [|p]; [congruence|]. cbn in E. pose proof (Pos2Nat.is_pos (Pos.size p)). lia.
  - cbn [digits_le]. destruct (N.eqb_spec n 0); [contradiction|].
    cbn [rev]. intro H. apply app_eq_nil in H as [_ H]. discriminate.
Qed.

Lemma print_nat_all n : all_digits (print_nat n).
Proof.
  unfold print_nat. destruct (n =? 0).
  - constructor; [reflexivity|constructor].
  - apply Forall_rev. apply digits_le_all.
Qed.

Theorem parse_print_nat n : parse_nat (print_nat n) = Some n.
Proof.
  unfold parse_nat. pose proof (print_nat_nonempty n) as Hne.
  destruct (print_nat n) as [|c r] eqn:E; [contradiction|]. rewrite <- E.
  unfold print_nat. destruct (N.eqb_spec n 0) as [->|Hz]; [reflexivity|].
  rewrite horner_rev_le by apply digits_le_all.
  rewrite digits_le_val by apply size_bound. f_equal.
Qed.

Lemma horner_print_nat n acc :
  exists k, horner (print_nat n) acc = Some (acc * 10 ^ k + n).
Proof.
  unfold print_nat. destruct (N.eqb_spec n 0) as [->|Hz].
  - exists 1. change (horner [48] acc) with (Some (acc * 10 + (48 - 48))). f_equal; lia.
  - rewrite horner_rev_le by apply digits_le_all.
    rewrite digits_le_val by apply size_bound. eauto.
Qed.

Lemma split_dot_nodot l : all_digits l -> split_dot l = (l, None).
Proof.
  induction 1 as [|c r Hc _ IH]; cbn; [reflexivity|].
  apply is_digit_spec in Hc. destruct (N.eqb_spec c c_dot) as [E|_].
  - unfold c_dot in E. lia.
  - now rewrite IH.
Qed.

Lemma split_dot_app a b : all_digits a -> split_dot (a ++ c_dot :: b) = (a, Some b).
Proof.
  induction 1 as [|c r Hc _ IH]; cbn.
  - reflexivity.
  - apply is_digit_spec in Hc. destruct (N.eqb_spec c c_dot) as [E|_].
    + unfold c_dot in E. lia.
    + now rewrite IH.
Qed.

(* The printed literal parses back to the number it was printed from. *)
Theorem dec_parse_print (neg : bool) (ip fp : N) (k : nat) :
  fp < 10 ^ N.of_nat k ->
  dec_parse (dec_print neg ip fp k) =
    Some ((if neg then Z.opp else fun z => z) (Z.of_N (ip * 10 ^ N.of_nat k + fp)), k).
Proof.
  intro Hfp.
  assert (U : dec_parse_unsigned
                (print_nat ip ++ match k with O => [] | _ => c_dot :: fixed_digits k fp end)
              = Some (ip * 10 ^ N.of_nat k + fp, k)).
  { unfold dec_parse_unsigned. destruct k as [|k'].
    - rewrite app_nil_r, split_dot_nodot by apply print_nat_all.
      rewrite parse_print_nat. cbn in Hfp. f_equal. f_equal. cbn. lia.
    - rewrite split_dot_app by apply print_nat_all.
      rewrite parse_print_nat.
      unfold parse_nat at 1.
      destruct (fixed_digits (S k') fp) as [|c r] eqn:E.
      { pose proof (fixed_digits_length (S k') fp) as L. rewrite E in L. discriminate. }
      rewrite <- E. rewrite horner_fixed, fixed_digits_length.
      rewrite N.mod_small by assumption. f_equal. }
  unfold dec_print, dec_parse.
  pose proof (print_nat_nonempty ip) as Hne. pose proof (print_nat_all ip) as Hall.
  destruct neg.
  - cbn [app]. change (c_minus =? c_minus) with true. cbn iota. rewrite U. reflexivity.
  - cbn [app]. destruct (print_nat ip) as [|c r] eqn:E; [contradiction|].
    cbn [app]. inversion Hall as [|? ? Hc _]; subst. apply is_digit_spec in Hc.
    destruct (N.eqb_spec c c_minus) as [E'|_]; [unfold c_minus in E'; lia|].
    change (c :: r ++ _) with ((c :: r) ++ match k with O => [] | _ => c_dot :: fixed_digits k fp end).
    rewrite U. reflexivity.
Qed.

Theorem int_parse_print z : int_parse (print_int z) = Some z.
Proof.
  unfold print_int, int_parse. destruct z as [|p|p].
  - reflexivity.
  - pose proof (print_nat_nonempty (Z.to_N (Zpos p))) as Hne.
    pose proof (print_nat_all (Z.to_N (Zpos p))) as Hall.
    destruct (print_nat (Z.to_N (Zpos p))) as [|c r] eqn:E; [contradiction|].
    inversion Hall as [|? ? Hc _]; subst. apply is_digit_spec in Hc.
    destruct (N.eqb_spec c c_minus) as [E'|_]; [unfold c_minus in E'; lia|].
    rewrite <- E, parse_print_nat. reflexivity.
  - change (c_minus =? c_minus) with true. cbn iota. rewrite parse_print_nat. reflexivity.
Qed.
