(* UTF-8: encoding of scalar values and decoding with CPython's errors="replace" rule
   (one U+FFFD per maximal invalid subpart).  Definitions and the round trip. *)
From Coq Require Import List NArith ZArith Bool Lia ZifyBool ZifyN.
From Ynca Require Import Base.Text.
Import ListNotations.
Ltac Zify.zify_post_hook ::= Z.to_euclidean_division_equations.
Open Scope N_scope.

Definition FFFD : N := 65533.

Definition scalar (c : N) : bool := (c <? 55296) || ((57344 <=? c) && (c <=? 1114111)).

Definition enc1 (c : N) : bytes :=
  if c <? 128 then [c]
  else if c <? 2048 then [192 + c / 64; 128 + c mod 64]
  else if c <? 65536 then [224 + c / 4096; 128 + (c / 64) mod 64; 128 + c mod 64]
  else [240 + c / 262144; 128 + (c / 4096) mod 64; 128 + (c / 64) mod 64; 128 + c mod 64].

(* str.encode("utf-8", "replace"): a lone surrogate becomes "?" *)
Definition enc1r (c : N) : bytes := if scalar c then enc1 c else [63].

Definition utf8_encode (t : text) : bytes := flat_map enc1r t.

Definition inr (lo hi b : N) : bool := (lo <=? b) && (b <=? hi).
Definition cont (b : N) : bool := inr 128 191 b.

(* admissible range of the second byte after a 3- or 4-byte lead *)
Definition second_lo (b0 : N) : N :=
  if b0 =? 224 then 160 else if b0 =? 240 then 144 else 128.
Definition second_hi (b0 : N) : N :=
  if b0 =? 237 then 159 else if b0 =? 244 then 143 else 191.

Fixpoint utf8_decode (l : bytes) : text :=
  match l with
  | [] => []
  | b0 :: r =>
      if b0 <? 128 then b0 :: utf8_decode r
      else if inr 194 223 b0 then
        match r with
        | [] => [FFFD]
        | b1 :: r1 =>
            if cont b1 then ((b0 - 192) * 64 + (b1 - 128)) :: utf8_decode r1
            else FFFD :: utf8_decode r
        end
      else if inr 224 239 b0 then
        match r with
        | [] => [FFFD]
        | b1 :: r1 =>
            if inr (second_lo b0) (second_hi b0) b1 then
              match r1 with
              | [] => [FFFD]
              | b2 :: r2 =>
                  if cont b2 then
                    ((b0 - 224) * 4096 + (b1 - 128) * 64 + (b2 - 128)) :: utf8_decode r2
                  else FFFD :: utf8_decode r1
              end
            else FFFD :: utf8_decode r
        end
      else if inr 240 244 b0 then
        match r with
        | [] => [FFFD]
        | b1 :: r1 =>
            if inr (second_lo b0) (second_hi b0) b1 then
              match r1 with
              | [] => [FFFD]
              | b2 :: r2 =>
                  if cont b2 then
                    match r2 with
                    | [] => [FFFD]
                    | b3 :: r3 =>
                        if cont b3 then
                          ((b0 - 240) * 262144 + (b1 - 128) * 4096 + (b2 - 128) * 64 + (b3 - 128))
                            :: utf8_decode r3
                        else FFFD :: utf8_decode r2
                    end
                  else FFFD :: utf8_decode r1
              end
            else FFFD :: utf8_decode r
        end
      else FFFD :: utf8_decode r
  end.

(* ------------------------------------------------------------------ round trip *)

Lemma decode_enc1 c rest :
  scalar c = true -> utf8_decode (enc1 c ++ rest) = c :: utf8_decode rest.
Proof.
  intro Hs. unfold scalar in Hs. unfold enc1.
  destruct (N.ltb_spec c 128) as [H1|H1].
  - cbn [app utf8_decode]. destruct (N.ltb_spec c 128); [reflexivity|lia].
  - destruct (N.ltb_spec c 2048) as [H2|H2].
    + cbn [app utf8_decode].
      set (b0 := 192 + c / 64). set (b1 := 128 + c mod 64).
      assert (B0 : 194 <= b0 <= 223) by (unfold b0; lia).
      assert (B1 : 128 <= b1 <= 191) by (unfold b1; lia).
      destruct (N.ltb_spec b0 128); [lia|].
      unfold cont, inr.
      destruct (N.leb_spec 194 b0); [|lia]. destruct (N.leb_spec b0 223); [|lia]. cbn [andb].
      destruct (N.leb_spec 128 b1); [|lia]. destruct (N.leb_spec b1 191); [|lia]. cbn [andb].
      f_equal. unfold b0, b1. lia.
    + destruct (N.ltb_spec c 65536) as [H3|H3].
      * cbn [app utf8_decode].
        set (b0 := 224 + c / 4096). set (b1 := 128 + (c / 64) mod 64). set (b2 := 128 + c mod 64).
        assert (B0 : 224 <= b0 <= 239) by (unfold b0; lia).
        assert (B1 : 128 <= b1 <= 191) by (unfold b1; lia).
        assert (B2 : 128 <= b2 <= 191) by (unfold b2; lia).
        assert (S1 : b0 = 224 -> 160 <= b1) by (unfold b0, b1; lia).
        assert (S2 : b0 = 237 -> b1 <= 159).
        { unfold b0, b1. intro E.
          destruct (N.ltb_spec c 55296) as [A|A]; [lia|].
          cbn [orb] in Hs. lia. }
        destruct (N.ltb_spec b0 128); [lia|].
        unfold cont, inr, second_lo, second_hi.
        destruct (N.leb_spec 194 b0); [|lia]. destruct (N.leb_spec b0 223); [lia|]. cbn [andb].
        destruct (N.leb_spec 224 b0); [|lia]. destruct (N.leb_spec b0 239); [|lia]. cbn [andb].
        destruct (N.eqb_spec b0 240); [lia|]. destruct (N.eqb_spec b0 244); [lia|].
        assert (L : (if b0 =? 224 then 160 else 128) <=? b1 = true).
        { destruct (N.eqb_spec b0 224); apply N.leb_le; [auto|lia]. }
        assert (U : b1 <=? (if b0 =? 237 then 159 else 191) = true).
        { destruct (N.eqb_spec b0 237); apply N.leb_le; [auto|lia]. }
        rewrite L, U. cbn [andb].
        destruct (N.leb_spec 128 b2); [|lia]. destruct (N.leb_spec b2 191); [|lia]. cbn [andb].
        f_equal. unfold b0, b1, b2. lia.
      * cbn [app utf8_decode].
        assert (HC : c <= 1114111).
        { destruct (N.ltb_spec c 55296); [lia|]. cbn [orb] in Hs. lia. }
        set (b0 := 240 + c / 262144). set (b1 := 128 + (c / 4096) mod 64).
        set (b2 := 128 + (c / 64) mod 64). set (b3 := 128 + c mod 64).
        assert (B0 : 240 <= b0 <= 244) by (unfold b0; lia).
        assert (B1 : 128 <= b1 <= 191) by (unfold b1; lia).
        assert (B2 : 128 <= b2 <= 191) by (unfold b2; lia).
        assert (B3 : 128 <= b3 <= 191) by (unfold b3; lia).
        assert (S1 : b0 = 240 -> 144 <= b1) by (unfold b0, b1; lia).
        assert (S2 : b0 = 244 -> b1 <= 143) by (unfold b0, b1; lia).
        destruct (N.ltb_spec b0 128); [lia|].
        unfold cont, inr, second_lo, second_hi.
        destruct (N.leb_spec 194 b0); [|lia]. destruct (N.leb_spec b0 223); [lia|]. cbn [andb].
        destruct (N.leb_spec 224 b0); [|lia]. destruct (N.leb_spec b0 239); [lia|]. cbn [andb].
        destruct (N.leb_spec 240 b0); [|lia]. destruct (N.leb_spec b0 244); [|lia]. cbn [andb].
        destruct (N.eqb_spec b0 224); [lia|]. destruct (N.eqb_spec b0 237); [lia|].
        assert (L : (if b0 =? 240 then 144 else 128) <=? b1 = true).
        { destruct (N.eqb_spec b0 240); apply N.leb_le; [auto|lia]. }
        assert (U : b1 <=? (if b0 =? 244 then 143 else 191) = true).
        { destruct (N.eqb_spec b0 244); apply N.leb_le; [auto|lia]. }
        rewrite L, U. cbn [andb].
        destruct (N.leb_spec 128 b2); [|lia]. destruct (N.leb_spec b2 191); [|lia]. cbn [andb].
        destruct (N.leb_spec 128 b3); [|lia]. destruct (N.leb_spec b3 191); [|lia]. cbn [andb].
        f_equal. unfold b0, b1, b2, b3. lia.
Qed.

Definition all_scalar (t : text) : Prop := Forall (fun c => scalar c = true) t.

Theorem utf8_roundtrip t : all_scalar t -> utf8_decode (utf8_encode t) = t.
Proof.
  induction 1 as [|c r Hc _ IH]; [reflexivity|].
  cbn [utf8_encode flat_map]. unfold enc1r. rewrite Hc.
  rewrite decode_enc1 by exact Hc. f_equal. exact IH.
Qed.

