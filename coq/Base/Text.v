(* Text = list of Unicode code points (Python str without lone surrogates).
   Bytes = list N with every element < 256.  Definitions and basic facts. *)
From Coq Require Import List NArith Bool Lia.
Import ListNotations.
Open Scope N_scope.

Definition text := list N.
Definition bytes := list N.

Fixpoint teqb (a b : text) : bool :=
  match a, b with
  | [], [] => true
  | x :: a', y :: b' => N.eqb x y && teqb a' b'
  | _, _ => false
  end.

Lemma teqb_eq a b : teqb a b = true <-> a = b.
Proof.
  revert b; induction a as [|x a IH]; destruct b as [|y b]; cbn; split; intro H;
    try reflexivity; try discriminate.
  - apply andb_true_iff in H as [H1 H2]. apply N.eqb_eq in H1. apply IH in H2. congruence.
  - inversion H; subst. rewrite N.eqb_refl. cbn. now apply IH.
Qed.

Lemma teqb_refl a : teqb a a = true.
Proof. now apply teqb_eq. Qed.

Lemma teqb_neq a b : teqb a b = false <-> a <> b.
Proof.
  split; intro H.
  - intro E. apply teqb_eq in E. congruence.
  - destruct (teqb a b) eqn:E; [apply teqb_eq in E; contradiction|reflexivity].
Qed.

Lemma teqb_sym a b : teqb a b = teqb b a.
Proof.
  destruct (teqb a b) eqn:E.
  - apply teqb_eq in E. subst. now rewrite teqb_refl.
  - symmetry. apply teqb_neq. apply teqb_neq in E. congruence.
Qed.

Definition mem_text (x : text) (l : list text) : bool := existsb (teqb x) l.

Lemma mem_text_In x l : mem_text x l = true <-> In x l.
Proof.
  unfold mem_text. rewrite existsb_exists. split.
  - intros [y [Hy E]]. apply teqb_eq in E. now subst.
  - intro H. exists x. split; [assumption|apply teqb_refl].
Qed.

Fixpoint nodup_text (l : list text) : bool :=
  match l with
  | [] => true
  | x :: r => negb (mem_text x r) && nodup_text r
  end.

Lemma nodup_text_NoDup l : nodup_text l = true <-> NoDup l.
Proof.
  induction l as [|x r IH]; cbn.
  - split; [constructor|reflexivity].
  - rewrite andb_true_iff, negb_true_iff, IH. split.
    + intros [H1 H2]. constructor; [|assumption].
      intro Hin. apply mem_text_In in Hin. congruence.
    + intro H. inversion H; subst. split; [|assumption].
      destruct (mem_text x r) eqn:E; [apply mem_text_In in E; contradiction|reflexivity].
Qed.

(* Character constants used across the development. *)
Definition c_at : N := 64.     (* @ *)
Definition c_colon : N := 58.  (* : *)
Definition c_eq : N := 61.     (* = *)
Definition c_cr : N := 13.
Definition c_lf : N := 10.
Definition c_q : N := 63.      (* ? *)
Definition c_minus : N := 45.
Definition c_dot : N := 46.
Definition c_zero : N := 48.
Definition c_space : N := 32.

(* Association lists keyed by text. *)
Fixpoint assoc {A} (k : text) (l : list (text * A)) : option A :=
  match l with
  | [] => None
  | (k', v) :: r => if teqb k k' then Some v else assoc k r
  end.

Lemma assoc_In {A} k (l : list (text * A)) v : assoc k l = Some v -> In (k, v) l.
Proof.
  induction l as [|[k' v'] r IH]; cbn; [discriminate|].
  destruct (teqb k k') eqn:E.
  - apply teqb_eq in E. intros [= <-]. subst. now left.
  - intro H. right. now apply IH.
Qed.

Lemma assoc_None {A} k (l : list (text * A)) : assoc k l = None <-> ~ In k (map fst l).
Proof.
  induction l as [|[k' v'] r IH]; cbn.
  - split; [intros _ []|reflexivity].
  - destruct (teqb k k') eqn:E.
    + apply teqb_eq in E. subst. split; [discriminate|]. intro H. exfalso. apply H. now left.
    + rewrite IH. apply teqb_neq in E. split.
      * intros H [H1|H1]; [congruence|contradiction].
      * intros H H1. apply H. now right.
Qed.
