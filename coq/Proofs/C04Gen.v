(* Reflection obligations over the generated tables (C04). *)
From Coq Require Import List NArith ZArith Bool.
From Ynca Require Import Base.Text Base.Decimal Model.Enum Model.Conv Model.Recorded Proofs.EnumFacts.
From Ynca Require Import Gen.Enums Gen.Functions Gen.RecTriples.
Import ListNotations.

Lemma used_enums_wf : forallb enum_wf (used_enums all_subunits ++ all_enums) = true.
Proof. vm_compute. reflexivity. Qed.

Lemma convs_known : all_convs_known all_subunits = true.
Proof. vm_compute. reflexivity. Qed.

Lemma recordings_ok : forallb (recording_ok all_subunits recorded_literals) all_recordings = true.
Proof. vm_compute. reflexivity. Qed.

Lemma enum_wf_of e : In e (used_enums all_subunits ++ all_enums) -> enum_wf e = true.
Proof. intro H. exact (proj1 (forallb_forall _ _) used_enums_wf e H). Qed.

(* what the boolean check means for an enumerated function *)
Lemma enum_rec_ok_spec e v :
  enum_rec_ok e v = true ->
  exists n, enum_decode e v = Ok n /\ n <> t_UNKNOWN /\ enum_encode e n = Ok v.
Proof.
  unfold enum_rec_ok. destruct (enum_decode e v) as [n|]; [|discriminate].
  intro H. apply andb_true_iff in H as [H1 H2]. exists n. split; [reflexivity|]. split.
  - apply negb_true_iff in H1. now apply teqb_neq.
  - destruct (enum_encode e n) as [w|]; [|discriminate]. apply teqb_eq in H2. now subst.
Qed.

Lemma float_rec_ok_spec lits v m k :
  float_rec_ok lits v = true -> dec_parse v = Some (m, k) ->
  assoc v lits = Some (m, k).
Proof.
  unfold float_rec_ok, lit_agrees. intros H E. rewrite E in H.
  destruct (assoc v lits) as [[m' k']|]; [|discriminate].
  unfold zk_eqb in H. cbn in H. apply andb_true_iff in H as [H1 H2].
  apply Z.eqb_eq in H1. apply Nat.eqb_eq in H2. now subst.
Qed.

Lemma recorded_triple_ok r t :
  In r all_recordings -> In t (snd r) -> triple_ok all_subunits recorded_literals t = true.
Proof.
  intros Hr Ht.
  pose proof (proj1 (forallb_forall _ _) recordings_ok r Hr) as H.
  exact (proj1 (forallb_forall _ _) H t Ht).
Qed.
