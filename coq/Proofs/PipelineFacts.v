(* C10: the reader path never raises, whatever bytes arrive. *)
From Coq Require Import List NArith ZArith Bool.
From Ynca Require Import Base.Text Model.Enum Model.Conv Model.Framing Model.Line Model.Reader Model.Subunit Model.Pipeline.
From Ynca Require Import Proofs.SubunitFacts.
Import ListNotations.

Section P.
  Variable pf : text -> option fnum.
  Variable pi : text -> option Z.

  Lemma deliver_all_total is m : exists is' ns, deliver_all pf pi is m = Ok (is', ns).
  Proof.
    induction is as [|[sc st] r IH]; cbn; [eauto|].
    destruct (on_msg_total pf pi sc st m) as [st' [n E]]. rewrite E.
    destruct IH as [r' [ns E']]. rewrite E'. eauto.
  Qed.

  Lemma deliver_msgs_total ms : forall is, exists is' ns, deliver_msgs pf pi is ms = Ok (is', ns).
  Proof.
    induction ms as [|m r IH]; intro is; cbn; [eauto|].
    destruct (deliver_all_total is m) as [is' [n1 E]]. rewrite E.
    destruct (IH is') as [is'' [n2 E']]. rewrite E'. eauto.
  Qed.

  Theorem pipeline_total rs is chunks :
    exists rs' is' ns, pipeline pf pi rs is chunks = Ok (rs', is', ns).
  Proof.
    unfold pipeline. destruct (rx_run rs chunks) as [rs' ms].
    destruct (deliver_msgs_total ms is) as [is' [ns E]]. rewrite E. eauto.
  Qed.

  (* the set of instances and their classes is preserved *)
  Lemma deliver_all_classes is m is' ns :
    deliver_all pf pi is m = Ok (is', ns) -> map fst is' = map fst is.
  Proof.
    revert is' ns; induction is as [|[sc st] r IH]; intros is' ns H; cbn in H.
    - injection H as <- <-. reflexivity.
    - destruct (on_msg pf pi sc st m) as [[st' n]|]; [|discriminate].
      destruct (deliver_all pf pi r m) as [[r' ns']|] eqn:E; [|discriminate].
      injection H as <- <-. cbn. f_equal. eapply IH; eauto.
  Qed.

  Definition all_typed (is : list inst) : Prop :=
    Forall (fun i => typed (fst i) (snd i)) is.

  Lemma deliver_all_typed is m is' ns :
    all_typed is -> deliver_all pf pi is m = Ok (is', ns) -> all_typed is'.
  Proof.
    revert is' ns; induction is as [|[sc st] r IH]; intros is' ns T H; cbn in H.
    - injection H as <- <-. constructor.
    - inversion T as [|? ? T1 T2]; subst.
      destruct (on_msg pf pi sc st m) as [[st' n]|] eqn:E1; [|discriminate].
      destruct (deliver_all pf pi r m) as [[r' ns']|] eqn:E; [|discriminate].
      injection H as <- <-. constructor.
      + cbn. eapply on_msg_typed; eauto.
      + eapply IH; eauto.
  Qed.

  Lemma deliver_msgs_typed ms : forall is is' ns,
    all_typed is -> deliver_msgs pf pi is ms = Ok (is', ns) -> all_typed is'.
  Proof.
    induction ms as [|m r IH]; intros is is' ns T H; cbn in H.
    - injection H as <- <-. exact T.
    - destruct (deliver_all pf pi is m) as [[is1 n1]|] eqn:E; [|discriminate].
      destruct (deliver_msgs pf pi is1 r) as [[is2 n2]|] eqn:E2; [|discriminate].
      injection H as <- <-. eapply IH; [|exact E2]. eapply deliver_all_typed; eauto.
  Qed.

  Theorem pipeline_typed rs is chunks rs' is' ns :
    all_typed is -> pipeline pf pi rs is chunks = Ok (rs', is', ns) -> all_typed is'.
  Proof.
    unfold pipeline. intros T H. destruct (rx_run rs chunks) as [rs1 ms].
    destruct (deliver_msgs pf pi is ms) as [[is1 ns1]|] eqn:E; [|discriminate].
    injection H as <- <- <-. eapply deliver_msgs_typed; eauto.
  Qed.

  (* an undecodable value leaves the attribute at its previous value and notifies nobody *)
  Theorem undecodable_keeps sc st fn v st' n :
    names_unique sc = true -> In fn (sc_funcs sc) ->
    to_value pf pi (f_conv fn) v = Raise ->
    on_msg pf pi sc st (StOK, Some (sc_id sc, f_name fn, v)) = Ok (st', n) ->
    ss_vals st' = ss_vals st /\ n = None.
  Proof.
    intros Hu Hin Hr H. unfold on_msg, handler_update in H. cbn [fst snd] in H.
    rewrite teqb_refl in H. cbn [negb] in H.
    rewrite (find_func_unique sc fn Hu Hin) in H. rewrite Hr in H.
    injection H as <- <-.
    destruct (negb (ss_initialized st) && teqb (sc_id sc) t_SYS && teqb (f_name fn) t_VERSION);
      split; reflexivity.
  Qed.

  (* later input is processed as if the earlier input had only left its state behind:
     the pipeline composes *)
  Lemma rx_run_app c1 c2 rs :
    rx_run rs (c1 ++ c2) =
      let '(rs1, d1) := rx_run rs c1 in
      let '(rs2, d2) := rx_run rs1 c2 in (rs2, d1 ++ d2).
  Proof.
    revert rs; induction c1 as [|c r IH]; intro rs; cbn.
    - destruct (rx_run rs c2). reflexivity.
    - destruct (rx_step rs c) as [s' d1]. rewrite IH.
      destruct (rx_run s' r) as [s1 d2]. destruct (rx_run s1 c2) as [s2 d3].
      now rewrite app_assoc.
  Qed.

  Lemma deliver_msgs_app m1 m2 is :
    deliver_msgs pf pi is (m1 ++ m2) =
      match deliver_msgs pf pi is m1 with
      | Raise => Raise
      | Ok (is1, n1) =>
          match deliver_msgs pf pi is1 m2 with
          | Raise => Raise
          | Ok (is2, n2) => Ok (is2, n1 ++ n2)
          end
      end.
  Proof.
    revert is; induction m1 as [|m r IH]; intro is; cbn.
    - destruct (deliver_msgs pf pi is m2) as [[a b]|]; reflexivity.
    - destruct (deliver_all pf pi is m) as [[is' n1]|]; [|reflexivity].
      rewrite IH. destruct (deliver_msgs pf pi is' r) as [[is1 n2]|]; [|reflexivity].
      destruct (deliver_msgs pf pi is1 m2) as [[is2 n3]|]; [|reflexivity].
      now rewrite app_assoc.
  Qed.

  Theorem pipeline_app rs is c1 c2 :
    pipeline pf pi rs is (c1 ++ c2) =
      match pipeline pf pi rs is c1 with
      | Raise => Raise
      | Ok (rs1, is1, n1) =>
          match pipeline pf pi rs1 is1 c2 with
          | Raise => Raise
          | Ok (rs2, is2, n2) => Ok (rs2, is2, n1 ++ n2)
          end
      end.
  Proof.
    unfold pipeline. rewrite rx_run_app.
    destruct (rx_run rs c1) as [rs1 d1].
    destruct (rx_run rs1 c2) as [rs2 d2] eqn:E2.
    rewrite deliver_msgs_app.
    destruct (deliver_msgs pf pi is d1) as [[is1 n1]|]; [|reflexivity].
    rewrite E2.
    destruct (deliver_msgs pf pi is1 d2) as [[is2 n2]|]; reflexivity.
  Qed.
End P.
