(* Invariants of the connection machine, for every action list (every schedule, any number of
   callers, any device behaviour): spacing (C08), FIFO / exactly-once (C01), log (C20),
   keep-alive suppression (C13). *)
From Coq Require Import List NArith ZArith Bool Lia.
From Ynca Require Import Base.Text Base.Utf8 Model.Framing Model.Line Model.Ring Model.Conn.
From Ynca Require Import Proofs.FramingFacts.
Import ListNotations.
Local Open Scope Z_scope.

Section Inv.
  Variable spacing : Z.
  Variable keepalive : Z.
  Notation step := (step spacing keepalive).
  Notation run := (run spacing keepalive).

  (* generic: an invariant preserved by every step holds after every run *)
  Lemma run_invariant (P : cstate -> Prop) :
    (forall s a s', P s -> step s a = Some s' -> P s') ->
    forall l s s', P s -> run s l = Some s' -> P s'.
  Proof.
    intros Hstep l; induction l as [|a r IH]; intros s s' Hs H; cbn in H.
    - now injection H as <-.
    - destruct (step s a) as [s1|] eqn:E; [|discriminate].
      eapply IH; [|exact H]. eapply Hstep; eauto.
  Qed.

  (* case analysis of one step: destruct every match in the hypothesis *)
  Ltac crush_step H :=
    unfold Conn.step, set_spc, add_log in H;
    repeat match type of H with
           | context [match ?x with _ => _ end] => destruct x eqn:?; try discriminate
           | context [if ?x then _ else _] => destruct x eqn:?; try discriminate
           end;
    try (injection H as <-); cbn in *.

  (* ------------------------------------------------------------------ C08: spacing *)
  Fixpoint spaced (w : list (Z * item)) : Prop :=
    match w with
    | a :: ((b :: _) as r) => fst a + spacing <= fst b /\ spaced r
    | _ => True
    end.

  Definition last_time (w : list (Z * item)) : option Z :=
    match rev w with [] => None | a :: _ => Some (fst a) end.

  Lemma last_time_app w x : last_time (w ++ [x]) = Some (fst x).
  Proof. unfold last_time. rewrite rev_app_distr. reflexivity. Qed.

  Lemma spaced_app w x :
    spaced w -> (forall t, last_time w = Some t -> t + spacing <= fst x) -> spaced (w ++ [x]).
  Proof.
    induction w as [|a r IH]; intros Hs Hl; [exact I|].
    destruct r as [|b r'].
    - cbn. split; [|exact I]. apply Hl. reflexivity.
    - cbn [app]. change (spaced (a :: b :: (r' ++ [x]))).
      cbn in Hs. destruct Hs as [H1 H2]. split; [exact H1|].
      apply IH; [exact H2|]. intros t Ht. apply Hl.
      unfold last_time in *. cbn [rev] in *.
      destruct (rev r' ++ [b]) as [|c cs] eqn:E; [destruct (rev r'); discriminate|].
      cbn. cbn in Ht. exact Ht.
  Qed.

  Definition inv08 (s : cstate) : Prop :=
    spaced (g_wire s) /\
    forall t, last_time (g_wire s) = Some t ->
      t <= now s /\
      match spc_ s with
      | SSleep u => t + spacing <= u
      | SUnlock | SSleepStart | SDone => True
      | _ => t + spacing <= now s
      end.

  Lemma inv08_init cap : inv08 (init cap).
  Proof. split; [exact I|]. intros t H. discriminate. Qed.

  Lemma inv08_step s a s' : inv08 s -> step s a = Some s' -> inv08 s'.
  Proof.
    intros [Hs Hl] H.
    destruct a; crush_step H;
      try (split; [assumption|]; let tt := fresh "tt" in let Htt := fresh "Htt" in intros tt Htt; specialize (Hl tt Htt); cbn in *;
           repeat match goal with
                  | E : spc_ _ = _ |- _ => rewrite E in Hl
                  end; cbn in *;
           try (destruct (spc_ s)); cbn in *; intuition lia).
    (* the write *)
    - split.
      + apply spaced_app; [assumption|]. intros tt Htt. specialize (Hl tt Htt).
        repeat match goal with E : spc_ _ = _ |- _ => rewrite E in Hl end. cbn. lia.
      + intros tt Htt. cbn [g_wire] in Htt. rewrite last_time_app in Htt. injection Htt as <-. cbn. split; [lia|exact I].
  Qed.

  Theorem spacing_all_schedules cap l s :
    run (init cap) l = Some s -> spaced (g_wire s).
  Proof.
    intro H. exact (proj1 (run_invariant inv08 inv08_step l (init cap) s (inv08_init cap) H)).
  Qed.

  (* `spaced` unfolded: any two consecutive writes *)
  Lemma spaced_nth w : spaced w -> forall i a b,
    nth_error w i = Some a -> nth_error w (S i) = Some b -> fst a + spacing <= fst b.
  Proof.
    induction w as [|x r IH]; intros Hs i a b Ha Hb; [destruct i; discriminate|].
    destruct i as [|i].
    - cbn in Ha. injection Ha as <-. destruct r as [|y r']; [discriminate|].
      cbn in Hb. injection Hb as <-. exact (proj1 Hs).
    - cbn in Ha, Hb. destruct r as [|y r']; [destruct i; discriminate|].
      apply (IH (proj2 Hs) i a b); assumption.
  Qed.

  (* ------------------------------------------------------------------ C01: FIFO, exactly once *)
  Definition hand (p : spc) : list item :=
    match p with
    | SGot i => if is_exit i then [] else [i]
    | SChk i | SLog i | SLock i | SWrite i => [i]
    | _ => []
    end.

  Definition nonexit (l : list item) : list item := filter (fun i => negb (is_exit i)) l.

  Lemma nonexit_app a b : nonexit (a ++ b) = nonexit a ++ nonexit b.
  Proof. apply filter_app. Qed.
  Arguments nonexit : simpl never.

  (* FIFO: as long as nobody but the sender removes items, everything ever enqueued is what the
     sender dequeued followed by what is still queued, in order *)
  Definition inv01q (s : cstate) : Prop := g_drained s = [] -> g_enq s = g_deq s ++ q s.

  Lemma inv01q_step s a s' : inv01q s -> step s a = Some s' -> inv01q s'.
  Proof.
    unfold inv01q. intros IH H.
    destruct a; crush_step H; intro D;
      try (specialize (IH D));
      try (rewrite IH; repeat rewrite <- app_assoc; reflexivity);
      try assumption;
      try (destruct (g_drained s); discriminate).
  Qed.

  (* exactly once, in order: the non-marker items dequeued are those written, then the one in the
     sender's hand; nothing else is ever written *)
  Definition inv01w (s : cstate) : Prop :=
    exists rest,
      nonexit (g_deq s) = map snd (g_wire s) ++ hand (spc_ s) ++ rest /\
      (spc_ s <> SDone -> rest = []).

  Lemma inv01w_step s a s' : inv01w s -> step s a = Some s' -> inv01w s'.
  Proof.
    unfold inv01w. intros [rest [E R]] H.
    destruct a; crush_step H;
      repeat match goal with Ep : spc_ s = _ |- _ => rewrite Ep in E, R end; cbn [hand] in *;
      try (exists rest; split; [exact E|first [exact R|intro; apply R; discriminate]]).
    - (* SDeq from SLoop *)
      exists []. rewrite R in E by discriminate. rewrite nonexit_app, E, app_nil_r.
      split; [|reflexivity]. unfold nonexit. cbn. destruct (is_exit i0); cbn; now rewrite ?app_nil_r.
    - (* SDeq from SWait *)
      exists []. rewrite R in E by discriminate. rewrite nonexit_app, E, app_nil_r.
      split; [|reflexivity]. unfold nonexit. cbn. destruct (is_exit i0); cbn; now rewrite ?app_nil_r.
    - (* SWriteA *)
      exists rest. rewrite map_app. cbn. rewrite <- app_assoc. cbn. split; [exact E|first [exact R|intro; apply R; discriminate]].
    - (* SWriteErr *)
      exists (i :: rest). split; [exact E|]. intro C. now contradiction C.
    - (* SExit with a command in hand, the connection being lost: the command is dropped *)
      eexists. split; [exact E|]. intro C. now contradiction C.
    - eexists. split; [exact E|]. intro C. now contradiction C.
  Qed.

  Lemma inv01_init cap : inv01q (init cap) /\ inv01w (init cap).
  Proof. split; [intros _; reflexivity|]. exists []. split; [reflexivity|reflexivity]. Qed.

  Theorem fifo_all_schedules cap l s :
    run (init cap) l = Some s -> g_drained s = [] -> g_enq s = g_deq s ++ q s.
  Proof.
    intro H. exact (run_invariant inv01q inv01q_step l (init cap) s (proj1 (inv01_init cap)) H).
  Qed.

  Theorem exactly_once_all_schedules cap l s :
    run (init cap) l = Some s -> inv01w s.
  Proof.
    intro H. exact (run_invariant inv01w inv01w_step l (init cap) s (proj2 (inv01_init cap)) H).
  Qed.

  (* ------------------------------------------------------------------ C20: the log *)
  Definition sends (l : list entry) : list text :=
    flat_map (fun e => match e with LSend t => [t] | LRecv _ => [] end) l.
  Definition recvs (l : list entry) : list text :=
    flat_map (fun e => match e with LRecv t => [t] | LSend _ => [] end) l.

  Lemma sends_app a b : sends (a ++ b) = sends a ++ sends b.
  Proof. apply flat_map_app. Qed.
  Lemma recvs_app a b : recvs (a ++ b) = recvs a ++ recvs b.
  Proof. apply flat_map_app. Qed.
  Arguments sends : simpl never.
  Arguments recvs : simpl never.

  (* the bounded buffer is always the last `logcap` entries of the unbounded log *)
  Definition inv20a (s : cstate) : Prop :=
    logbuf s = lastn (logcap s) (g_log s).

  Lemma inv20a_step s a s' : inv20a s -> step s a = Some s' -> inv20a s'.
  Proof.
    unfold inv20a. intros IH H.
    destruct a; crush_step H; try exact IH; rewrite IH; apply ring_add_lastn.
  Qed.

  (* sends are logged before they are written: the Send entries are the written texts in write
     order, plus at most the one entry whose write has not happened (yet) *)
  Definition logged_unwritten (p : spc) : list text :=
    match p with SLock i | SWrite i => [item_text i] | _ => [] end.

  Definition inv20b (s : cstate) : Prop :=
    exists rest,
      sends (g_log s) = map (fun w => item_text (snd w)) (g_wire s) ++ logged_unwritten (spc_ s) ++ rest /\
      (spc_ s <> SDone -> rest = []).

  Lemma inv20b_step s a s' : inv20b s -> step s a = Some s' -> inv20b s'.
  Proof.
    unfold inv20b. intros [rest [E R]] H.
    destruct a; crush_step H;
      repeat match goal with Ep : spc_ s = _ |- _ => rewrite Ep in E, R end; cbn [logged_unwritten] in *;
      try (exists rest; split; [exact E|first [exact R|intro; apply R; discriminate]]).
    - (* SLogAdd of a command *)
      exists []. rewrite R in E by discriminate. rewrite sends_app, E, !app_nil_r.
      match goal with Hq : teqb _ _ = true |- _ => apply teqb_eq in Hq; subst end.
      split; reflexivity.
    - (* SLogAdd of a probe *)
      exists []. rewrite R in E by discriminate. rewrite sends_app, E, !app_nil_r.
      match goal with Hq : teqb _ _ = true |- _ => apply teqb_eq in Hq; subst end.
      split; reflexivity.
    - (* SWriteA *)
      exists rest. rewrite map_app. cbn. rewrite <- app_assoc. cbn.
      split; [exact E|first [exact R|intro; apply R; discriminate]].
    - (* SWriteErr *)
      exists (item_text i :: rest). split; [exact E|]. intro C. now contradiction C.
    - (* RLogAdd *)
      exists rest. rewrite sends_app. unfold sends at 2. cbn. rewrite app_nil_r. split; [exact E|exact R].
  Qed.

  (* receives are logged in arrival order: the Received entries are the lines handed to
     handle_line, except the one that has just entered *)
  Definition entering (r : rpc) : list text := match r with RLine l => [l] | _ => [] end.

  Definition inv20c (s : cstate) : Prop :=
    recvs (g_log s) ++ entering (rpc_ s) = g_lines s.

  Lemma inv20c_step s a s' : inv20c s -> step s a = Some s' -> inv20c s'.
  Proof.
    unfold inv20c. intros IH H.
    destruct a; crush_step H;
      repeat match goal with Ep : rpc_ s = _ |- _ => rewrite Ep in IH end; cbn [entering] in *;
      try exact IH.
    - rewrite recvs_app. unfold recvs at 2. cbn. now rewrite !app_nil_r.
    - rewrite recvs_app. unfold recvs at 2. cbn. now rewrite !app_nil_r.
    - rewrite app_nil_r in IH. now rewrite IH.
    - rewrite recvs_app. unfold recvs at 2. cbn.
      match goal with Hq : teqb _ _ = true |- _ => apply teqb_eq in Hq; subst end.
      rewrite app_nil_r. exact IH.
  Qed.

  (* framing of everything read so far: the packets handled and pending are exactly the complete
     lines of the consumed prefix of what the device emitted *)
  Lemma is_prefix_spec a b rest : is_prefix a b = Some rest -> b = a ++ rest.
  Proof.
    revert b; induction a as [|x a IH]; intros b H; cbn in H.
    - now injection H as <-.
    - destruct b as [|y b]; [discriminate|]. destruct (N.eqb_spec x y); [|discriminate].
      subst. cbn. f_equal. now apply IH.
  Qed.

  Definition inv20e (s : cstate) : Prop :=
    exists consumed,
      g_emitted s = consumed ++ rxport s /\
      scan consumed = (g_packets s ++ rpend s, rbuf s) /\
      g_lines s = map decode_packet (g_packets s).

  Lemma inv20e_step s a s' : inv20e s -> step s a = Some s' -> inv20e s'.
  Proof.
    unfold inv20e. intros [c [E1 [E2 E3]]] H.
    destruct a; crush_step H; try (exists c; repeat split; assumption).
    - (* RRead *)
      match goal with Hp : is_prefix _ _ = Some _ |- _ => apply is_prefix_spec in Hp; rename Hp into P end.
      rewrite app_nil_r in E2.
      exists (c ++ chunk). repeat split.
      + rewrite E1, P. now rewrite app_assoc.
      + rewrite scan_app, E2. unfold feed in *.
        match goal with Hf : scan (rbuf s ++ chunk) = _ |- _ => rewrite Hf end. reflexivity.
      + exact E3.
    - (* RLineStart *)
      exists c. repeat split; [exact E1| |].
      + rewrite <- app_assoc. exact E2.
      + rewrite map_app, E3. cbn.
        match goal with Hq : teqb _ _ = true |- _ => apply teqb_eq in Hq; now subst end.
    - (* DevEmit with a cause *)
      exists c. repeat split; [|exact E2|exact E3]. rewrite E1. now rewrite app_assoc.
  Qed.

  (* ------------------------------------------------------------------ C13: keep-alive suppression *)
  Definition inflight (r : rpc) : list text :=
    match r with RIdle => [] | RLine l | RLogged l | RFlag l _ | RDeliver l => [l] end.

  Definition inv13 (s : cstate) : Prop :=
    g_armed s = flag s /\
    map fst (g_fate s) ++ inflight (rpc_ s) = g_lines s /\
    g_delivered s = map (fun lf => parse_line (fst lf)) (filter snd (g_fate s)) /\
    g_withheld s = map fst (filter (fun lf => negb (snd lf)) (g_fate s)) /\
    (forall l, In (l, false) (g_fate s) -> is_modelname_reply (parse_line l) = true) /\
    (forall l, rpc_ s = RFlag l true -> is_modelname_reply (parse_line l) = true).

  Lemma inv13_step s a s' : inv13 s -> step s a = Some s' -> inv13 s'.
  Proof.
    unfold inv13. intros [A [B [C [W [D F]]]]] H.
    destruct a; crush_step H;
      repeat match goal with Ep : rpc_ s = _ |- _ => rewrite Ep in B, F end; cbn [inflight] in *;
      try (repeat split; first [assumption | discriminate | (intros; discriminate) | idtac]).
    all: try (rewrite app_nil_r in B).
    all: try (rewrite <- B; rewrite ?app_nil_r; reflexivity).
    all: try (intros l0 Hl0; injection Hl0 as El Eb; subst; apply andb_true_iff in Eb; tauto).
    all: try (rewrite !map_app, <- ?app_assoc; cbn; rewrite <- B; now rewrite <- ?app_assoc).
    all: try (rewrite filter_app, map_app; cbn; rewrite ?app_nil_r; now rewrite ?C, ?W).
    all: try (intros l0 Hl0; apply in_app_or in Hl0 as [Hl0|[Hl0|[]]]; [now apply D|try discriminate; injection Hl0 as <-; now apply F]).
    all: try (apply andb_true_iff in H0; tauto).
  Qed.

  Lemma inv13_init cap : inv13 (init cap).
  Proof. repeat split; try reflexivity; intros; try contradiction; discriminate. Qed.
  (* ------------------------------------------------------------------ C15: discarded, not written *)
  Lemma item_eq_dec : forall a b : item, {a = b} + {a <> b}.
  Proof.
    decide equality; try apply Nat.eq_dec.
    apply (list_eq_dec N.eq_dec).
  Qed.

  Notation cnt := (count_occ item_eq_dec).

  (* every item ever enqueued is in exactly one place: taken by the sender, removed by the drain, or
     still queued (as multisets) *)
  Definition inv15 (s : cstate) : Prop :=
    forall x, cnt (g_enq s) x = (cnt (g_deq s) x + cnt (g_drained s) x + cnt (q s) x)%nat.

  Lemma inv15_step s a s' : inv15 s -> step s a = Some s' -> inv15 s'.
  Proof.
    unfold inv15. intros IH H x. specialize (IH x).
    destruct a; crush_step H; try exact IH;
      repeat match goal with Hq : q s = _ |- _ => rewrite Hq in IH end;
      rewrite ?count_occ_app; cbn [count_occ] in *;
      repeat match goal with |- context [item_eq_dec ?a ?b] => destruct (item_eq_dec a b) end;
      repeat match goal with Hc : context [item_eq_dec ?a ?b] |- _ => destruct (item_eq_dec a b) end;
      try lia; try congruence.
  Qed.

  Lemma cnt_filter_le (P : item -> bool) l x : (cnt (filter P l) x <= cnt l x)%nat.
  Proof.
    induction l as [|a r IH]; cbn; [lia|].
    destruct (P a); cbn; destruct (item_eq_dec a x); lia.
  Qed.

  (* a command that was removed by the drain is not also written: for every item x,
     #written(x) + #drained(x) <= #submitted(x) *)
  Theorem drained_not_written cap l s x :
    run (init cap) l = Some s ->
    (cnt (map snd (g_wire s)) x + cnt (g_drained s) x <= cnt (g_enq s) x)%nat.
  Proof.
    intro H.
    assert (I15 : inv15 s).
    { refine (run_invariant inv15 inv15_step l (init cap) s _ H). intro y. reflexivity. }
    destruct (exactly_once_all_schedules cap l s H) as [rest [E _]].
    specialize (I15 x).
    pose proof (cnt_filter_le (fun i => negb (is_exit i)) (g_deq s) x) as F.
    fold (nonexit (g_deq s)) in F. rewrite E, !count_occ_app in F. lia.
  Qed.
End Inv.
