(* C15, "commands still queued are discarded rather than written later", for all schedules: once connection_lost
   has set connected := False, the sender can complete at most the ONE write whose item had already passed its
   `connected` test; whatever it dequeues afterwards is dropped and it stops. *)
From Coq Require Import List NArith ZArith Bool Lia.
From Ynca Require Import Base.Text Model.Line Model.Conn Proofs.ConnFacts.
Import ListNotations.
Local Open Scope nat_scope.

(* writes the sender can still perform once the connection is lost *)
Definition pot (p : spc) : nat :=
  match p with SChk _ | SLog _ | SLock _ | SWrite _ => 1 | _ => 0 end.

Section L.
  Variable spacing : Z.
  Variable keepalive : Z.
  Notation step := (Conn.step spacing keepalive).
  Notation run := (Conn.run spacing keepalive).

  Ltac crush H :=
    unfold Conn.step, set_spc, add_log in H;
    repeat match type of H with
           | context [match ?x with _ => _ end] => destruct x eqn:?; try discriminate
           | context [if ?x then _ else _] => destruct x eqn:?; try discriminate
           end;
    try (injection H as <-); cbn in *.

  (* the loss is never undone *)
  Lemma lost_stays s a s' : step s a = Some s' -> g_lost s = true -> g_lost s' = true.
  Proof. intros H L. destruct a; crush H; try assumption; try reflexivity. Qed.

  (* while lost, (lines written so far) + (writes still possible) never grows *)
  Lemma lost_potential s a s' :
    step s a = Some s' -> g_lost s = true ->
    length (g_wire s') + pot (spc_ s') <= length (g_wire s) + pot (spc_ s).
  Proof.
    intros H L. destruct a; crush H;
      repeat match goal with E : spc_ s = _ |- _ => rewrite E end; cbn [pot];
      rewrite ?app_length; cbn [length]; try lia;
      try (rewrite L in *; discriminate);
      repeat match goal with E : Bool.eqb _ _ = true |- _ => apply eqb_prop in E end;
      try (rewrite L in *; cbn in *; subst; cbn [pot]; lia).
  Qed.

  Theorem after_the_loss_at_most_one_write acts : forall s s',
    run s acts = Some s' -> g_lost s = true ->
    length (g_wire s') + pot (spc_ s') <= length (g_wire s) + pot (spc_ s).
  Proof.
    induction acts as [|a r IH]; intros s s' H L; cbn in H.
    - injection H as <-. lia.
    - destruct (step s a) as [s1|] eqn:E; [|discriminate].
      pose proof (lost_potential s a s1 E L). pose proof (lost_stays s a s1 E L) as L1.
      specialize (IH s1 s' H L1). lia.
  Qed.

  (* in particular: if the sender is not in the middle of a command when the connection is lost, NOTHING is
     written any more, whatever is queued and whatever is submitted afterwards, under every schedule *)
  Corollary nothing_written_after_the_loss acts s s' :
    run s acts = Some s' -> g_lost s = true -> pot (spc_ s) = 0 -> g_wire s' = g_wire s.
  Proof.
    intros H L P. pose proof (after_the_loss_at_most_one_write acts s s' H L) as B. rewrite P in B.
    assert (G : exists ext, g_wire s' = g_wire s ++ ext).
    { clear B P L. revert s H. induction acts as [|a r IH]; intros s H; cbn in H.
      - injection H as <-. exists []. now rewrite app_nil_r.
      - destruct (step s a) as [s1|] eqn:E; [|discriminate].
        destruct (IH s1 H) as [ext X].
        assert (Y : exists e1, g_wire s1 = g_wire s ++ e1).
        { destruct a; crush E; try (exists []; now rewrite app_nil_r); eexists; reflexivity. }
        destruct Y as [e1 Y]. exists (e1 ++ ext). now rewrite X, Y, app_assoc. }
    destruct G as [ext G]. rewrite G, app_length in B.
    destruct ext; [now rewrite app_nil_r in G|cbn in B; lia].
  Qed.
End L.
