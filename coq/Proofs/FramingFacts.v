(* Facts about the framing model: relational characterisation and chunk independence (C02). *)
From Coq Require Import List NArith Bool Lia.
From Ynca Require Import Base.Text Model.Framing.
Import ListNotations.
Open Scope N_scope.

Definition is_crlf (x y : N) : bool := (x =? c_cr) && (y =? c_lf).

Lemma scan_ind2 (P : bytes -> Prop) :
  P [] -> (forall x, P [x]) ->
  (forall x y r, is_crlf x y = true -> P r -> P (x :: y :: r)) ->
  (forall x y r, is_crlf x y = false -> P (y :: r) -> P (x :: y :: r)) ->
  forall b, P b.
Proof.
  intros H0 H1 H2 H3 b.
  assert (G : forall n b, (length b <= n)%nat -> P b).
  { induction n as [|n IH]; intros [|x [|y r]] Hl; cbn in Hl; try lia; auto.
    destruct (is_crlf x y) eqn:E.
    - apply H2; [assumption|]. apply IH. lia.
    - apply H3; [assumption|]. apply IH. cbn. lia. }
  apply (G (length b)). lia.
Qed.

Lemma scan_crlf x y r : is_crlf x y = true ->
  scan (x :: y :: r) = let '(ps, rest) := scan r in ([] :: ps, rest).
Proof. unfold is_crlf. intro E. cbn [scan]. rewrite E. reflexivity. Qed.

Lemma scan_other x y r : is_crlf x y = false ->
  scan (x :: y :: r) = cons_first x (scan (y :: r)).
Proof. unfold is_crlf. intro E. cbn [scan]. rewrite E. reflexivity. Qed.

Lemma is_crlf_eq x y : is_crlf x y = true -> x = c_cr /\ y = c_lf.
Proof.
  unfold is_crlf. intro H. apply andb_true_iff in H as [A B].
  apply N.eqb_eq in A. apply N.eqb_eq in B. now split.
Qed.

Lemma no_crlf_cons x y r : no_crlf (x :: y :: r) = negb (is_crlf x y) && no_crlf (y :: r).
Proof. reflexivity. Qed.

(* head relation between a buffer and what scan returns for it *)
Lemma scan_head b :
  match scan b with
  | ([], rest) => rest = b
  | (p :: _, _) =>
      match p with
      | [] => exists r, b = c_cr :: c_lf :: r
      | h :: _ => exists r, b = h :: r
      end
  end.
Proof.
  induction b as [| x | x y r E IH | x y r E IH] using scan_ind2.
  - reflexivity.
  - reflexivity.
  - rewrite scan_crlf by assumption. destruct (scan r) as [ps rest].
    apply is_crlf_eq in E as [-> ->]. eauto.
  - rewrite scan_other by assumption. destruct (scan (y :: r)) as [[|p ps] rest]; cbn.
    + now subst.
    + eauto.
Qed.

(* soundness: the result is a decomposition of the buffer into CRLF-free lines and a CRLF-free rest *)
Lemma scan_sound b :
  let '(ps, rest) := scan b in
  b = join_lines ps rest /\ forallb no_crlf ps = true /\ no_crlf rest = true.
Proof.
  induction b as [| x | x y r E IH | x y r E IH] using scan_ind2.
  - cbn. auto.
  - cbn. auto.
  - rewrite scan_crlf by assumption. destruct (scan r) as [ps rest].
    destruct IH as [A [B C]]. apply is_crlf_eq in E as [-> ->].
    split; [cbn; now rewrite <- A|split; [cbn; exact B|exact C]].
  - rewrite scan_other by assumption.
    pose proof (scan_head (y :: r)) as Hh.
    destruct (scan (y :: r)) as [[|p ps] rest]; cbn [cons_first].
    + destruct IH as [A [B C]]. subst rest. split; [reflexivity|split; [reflexivity|]].
      rewrite no_crlf_cons, E. exact C.
    + destruct IH as [A [B C]]. cbn in B. apply andb_true_iff in B as [B1 B2].
      split; [|split].
      * cbn in A |- *. now f_equal.
      * cbn [forallb]. apply andb_true_iff. split; [|exact B2].
        destruct p as [|h p'].
        -- reflexivity.
        -- destruct Hh as [r0 Hr]. injection Hr as -> _.
           rewrite no_crlf_cons, E. exact B1.
      * exact C.
Qed.

Lemma scan_rest rest : no_crlf rest = true -> scan rest = ([], rest).
Proof.
  induction rest as [| x | x y r E IH | x y r E IH] using scan_ind2; intro H.
  - reflexivity.
  - reflexivity.
  - rewrite no_crlf_cons, E in H. discriminate.
  - rewrite no_crlf_cons, E in H. cbn in H.
    rewrite scan_other by assumption. rewrite IH by assumption. reflexivity.
Qed.

Lemma scan_line l t : no_crlf l = true ->
  scan (l ++ c_cr :: c_lf :: t) = let '(ps, rest) := scan t in (l :: ps, rest).
Proof.
  induction l as [| x | x y r E IH | x y r E IH] using scan_ind2; intro H.
  - cbn [app]. rewrite scan_crlf by reflexivity. reflexivity.
  - cbn [app].
    assert (E : is_crlf x c_cr = false).
    { unfold is_crlf. destruct (x =? c_cr); reflexivity. }
    rewrite scan_other by assumption. rewrite scan_crlf by reflexivity.
    destruct (scan t) as [ps rest]. reflexivity.
  - rewrite no_crlf_cons, E in H. discriminate.
  - rewrite no_crlf_cons, E in H. cbn in H.
    change ((x :: y :: r) ++ c_cr :: c_lf :: t) with (x :: y :: (r ++ c_cr :: c_lf :: t)).
    rewrite scan_other by assumption.
    change (y :: r ++ c_cr :: c_lf :: t) with ((y :: r) ++ c_cr :: c_lf :: t).
    rewrite IH by assumption. destruct (scan t) as [ps rest]. reflexivity.
Qed.

(* completeness / uniqueness: any such decomposition is what scan computes *)
Theorem scan_join ls rest :
  forallb no_crlf ls = true -> no_crlf rest = true ->
  scan (join_lines ls rest) = (ls, rest).
Proof.
  induction ls as [|l r IH]; intros Hl Hr.
  - cbn. now apply scan_rest.
  - cbn in Hl. apply andb_true_iff in Hl as [H1 H2].
    cbn [join_lines]. rewrite scan_line by assumption. rewrite IH by assumption. reflexivity.
Qed.

Lemma join_lines_app ls rest b : join_lines ls rest ++ b = join_lines ls (rest ++ b).
Proof.
  induction ls as [|l r IH]; cbn; [reflexivity|].
  rewrite <- app_assoc. cbn. now rewrite IH.
Qed.

Lemma join_lines_join l1 l2 rest : join_lines l1 (join_lines l2 rest) = join_lines (l1 ++ l2) rest.
Proof. induction l1 as [|l r IH]; cbn; [reflexivity|now rewrite IH]. Qed.

(* extending the buffer: what was split off stays, the rest is re-scanned with the new data *)
Theorem scan_app a b :
  scan (a ++ b) =
    let '(p1, r1) := scan a in
    let '(p2, r2) := scan (r1 ++ b) in
    (p1 ++ p2, r2).
Proof.
  pose proof (scan_sound a) as Sa. destruct (scan a) as [p1 r1]. destruct Sa as [Ea [Pa Ra]].
  pose proof (scan_sound (r1 ++ b)) as Sb. destruct (scan (r1 ++ b)) as [p2 r2].
  destruct Sb as [Eb [Pb Rb]].
  rewrite Ea, join_lines_app, Eb, join_lines_join.
  apply scan_join; [|assumption].
  rewrite forallb_app, Pa, Pb. reflexivity.
Qed.

(* Chunk independence: feeding the chunks one by one yields exactly the packets and the remaining
   buffer of the whole stream, whatever the partition. *)
Theorem feed_all_scan buf chunks :
  no_crlf buf = true ->
  feed_all buf chunks = scan (buf ++ concat chunks).
Proof.
  revert buf; induction chunks as [|c cs IH]; intros buf Hb.
  - cbn. rewrite app_nil_r. symmetry. now apply scan_rest.
  - cbn [feed_all concat]. unfold feed.
    rewrite app_assoc. rewrite (scan_app (buf ++ c) (concat cs)).
    pose proof (scan_sound (buf ++ c)) as S. destruct (scan (buf ++ c)) as [ps buf'].
    destruct S as [_ [_ Hr]].
    rewrite IH by assumption. destruct (scan (buf' ++ concat cs)) as [qs buf'']. reflexivity.
Qed.

Corollary feed_all_partition chunks1 chunks2 :
  concat chunks1 = concat chunks2 -> feed_all [] chunks1 = feed_all [] chunks2.
Proof.
  intro E. rewrite !feed_all_scan by reflexivity. cbn. now rewrite E.
Qed.
