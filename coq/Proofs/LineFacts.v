(* Facts about line parsing and the sequential receive path (C02). *)
From Coq Require Import List NArith Bool Lia.
From Ynca Require Import Base.Text Base.Utf8 Model.Framing Model.Line Model.Reader Proofs.FramingFacts.
Import ListNotations.
Open Scope N_scope.

Definition lacks (c : N) (t : text) : Prop := ~ In c t.

Lemma upto_eq_app a v : lacks c_eq a -> upto_eq (a ++ c_eq :: v) = Some (a, v).
Proof.
  induction a as [|c r IH]; intro H; cbn.
  - reflexivity.
  - destruct (N.eqb_spec c c_eq) as [E|E].
    + exfalso. apply H. now left.
    + rewrite IH; [reflexivity|]. intro Hin. apply H. now right.
Qed.

Lemma find_eq_app f v : f <> [] -> lacks c_eq f -> find_eq (f ++ c_eq :: v) = Some (f, v).
Proof.
  destruct f as [|c r]; [congruence|]. intros _ H. cbn.
  rewrite upto_eq_app; [reflexivity|]. intro Hin. apply H. now right.
Qed.

Lemma scan_sub_app acc s f v :
  lacks c_colon s -> f <> [] -> lacks c_eq f ->
  scan_sub acc (s ++ c_colon :: f ++ c_eq :: v) = Some (rev acc ++ s, f, v).
Proof.
  revert acc; induction s as [|c r IH]; intros acc Hs Hf He.
  - cbn. rewrite find_eq_app by assumption. now rewrite app_nil_r.
  - cbn [app scan_sub]. destruct (N.eqb_spec c c_colon) as [E|E].
    + exfalso. apply Hs. now left.
    + rewrite IH; try assumption.
      * cbn [rev]. now rewrite <- app_assoc.
      * intro Hin. apply Hs. now right.
Qed.

(* The regular expression recovers exactly (S, F, V) from a formatted line: S non-empty without
   ':', F non-empty without '=', V ANY text (empty, further ':' or '=', any code points). *)
Theorem parse_fmt s f v :
  s <> [] -> lacks c_colon s -> f <> [] -> lacks c_eq f ->
  parse_sfv (fmt_cmd s f v) = Some (s, f, v).
Proof.
  intros Hs Hc Hf He. destruct s as [|c r]; [congruence|].
  unfold fmt_cmd, parse_sfv. cbn [app]. rewrite N.eqb_refl.
  rewrite scan_sub_app; try assumption.
  - reflexivity.
  - intro Hin. apply Hc. now right.
Qed.

Lemma status_fmt s f v : line_status (fmt_cmd s f v) = StOK.
Proof.
  unfold line_status.
  assert (H : forall t, ~ In c_colon t -> teqb (fmt_cmd s f v) t = false).
  { intros t Ht. apply teqb_neq. intro E. apply Ht. rewrite <- E.
    unfold fmt_cmd. right. apply in_or_app. right. now left. }
  rewrite !H; [reflexivity| |]; cbn; unfold c_colon; intuition discriminate.
Qed.

Theorem parse_line_fmt s f v :
  s <> [] -> lacks c_colon s -> f <> [] -> lacks c_eq f ->
  parse_line (fmt_cmd s f v) = (StOK, Some (s, f, v)).
Proof. intros. unfold parse_line. rewrite status_fmt, parse_fmt by assumption. reflexivity. Qed.

Theorem parse_line_errors :
  parse_line t_at_UNDEFINED = (StUNDEFINED, None) /\
  parse_line t_at_RESTRICTED = (StRESTRICTED, None).
Proof. split; reflexivity. Qed.

(* with the keep-alive flag clear every packet is delivered, in order *)
Lemma handle_packets_clear ps :
  handle_packets false ps = (false, map (fun p => parse_line (decode_packet p)) ps).
Proof.
  induction ps as [|p r IH]; [reflexivity|].
  cbn [handle_packets handle_line andb map]. rewrite IH. reflexivity.
Qed.

Lemma rx_run_clear buf chunks :
  no_crlf buf = true ->
  rx_run {| r_buf := buf; r_flag := false |} chunks =
    let '(ps, rest) := feed_all buf chunks in
    ({| r_buf := rest; r_flag := false |}, map (fun p => parse_line (decode_packet p)) ps).
Proof.
  revert buf; induction chunks as [|c cs IH]; intros buf Hb.
  - reflexivity.
  - cbn [rx_run feed_all]. unfold rx_step. cbn [r_buf r_flag].
    pose proof (scan_sound (buf ++ c)) as S. unfold feed.
    destruct (scan (buf ++ c)) as [ps buf']. destruct S as [_ [_ Hr]].
    rewrite handle_packets_clear. rewrite IH by assumption.
    destruct (feed_all buf' cs) as [qs buf'']. now rewrite map_app.
Qed.

(* C02, receive path: for EVERY partition of the byte stream into reads, the deliveries are exactly
   the parsed decodings of the complete lines of the whole stream, in order; the incomplete
   trailing line stays in the buffer and is not reported. *)
Theorem rx_chunk_independent chunks :
  rx_run rx_init chunks =
    let '(ls, rest) := scan (concat chunks) in
    ({| r_buf := rest; r_flag := false |}, map (fun p => parse_line (decode_packet p)) ls).
Proof.
  unfold rx_init. rewrite rx_run_clear by reflexivity.
  rewrite feed_all_scan by reflexivity. reflexivity.
Qed.

(* end to end: well-formed messages, encoded and framed, then cut arbitrarily *)
Definition wf_sfv (m : text * text * text) : Prop :=
  let '(s, f, v) := m in
  s <> [] /\ lacks c_colon s /\ f <> [] /\ lacks c_eq f /\
  all_scalar (fmt_cmd s f v) /\ no_crlf (utf8_encode (fmt_cmd s f v)) = true.

Definition wire_of (ms : list (text * text * text)) (rest : bytes) : bytes :=
  join_lines (map (fun '(s, f, v) => utf8_encode (fmt_cmd s f v)) ms) rest.

Theorem rx_end_to_end ms rest chunks :
  Forall wf_sfv ms -> no_crlf rest = true ->
  concat chunks = wire_of ms rest ->
  rx_run rx_init chunks =
    ({| r_buf := rest; r_flag := false |}, map (fun m => (StOK, Some m)) ms).
Proof.
  intros Hms Hrest Hc. rewrite rx_chunk_independent, Hc. unfold wire_of.
  rewrite scan_join; [| |assumption].
  - f_equal. rewrite map_map. apply map_ext_in. intros [[s f] v] Hin.
    rewrite Forall_forall in Hms. specialize (Hms _ Hin). cbn in Hms.
    destruct Hms as [A [B [C [D [E F]]]]].
    unfold decode_packet. rewrite utf8_roundtrip by assumption.
    now apply parse_line_fmt.
  - rewrite forallb_forall. intros l Hl. apply in_map_iff in Hl as [[[s f] v] [<- Hin]].
    rewrite Forall_forall in Hms. specialize (Hms _ Hin). cbn in Hms. tauto.
Qed.
