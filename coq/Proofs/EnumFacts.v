(* Facts about the generic enum model (used by C04, C03, C10). *)
From Coq Require Import List NArith Bool Lia.
From Ynca Require Import Base.Text Model.Enum.
Import ListNotations.

Lemma find_wire_Some s ms n :
  find_wire s ms = Some n -> In (n, s) ms.
Proof.
  induction ms as [|[n' w] r IH]; cbn; [discriminate|].
  destruct (teqb s w) eqn:E.
  - apply teqb_eq in E. intros [= <-]. subst. now left.
  - intro H. right. now apply IH.
Qed.

Lemma find_wire_None s ms :
  find_wire s ms = None <-> ~ In s (map snd ms).
Proof.
  induction ms as [|[n' w] r IH]; cbn.
  - split; [intros _ []|reflexivity].
  - destruct (teqb s w) eqn:E.
    + apply teqb_eq in E. subst. split; [discriminate|]. intro H; exfalso; apply H; now left.
    + apply teqb_neq in E. rewrite IH. split.
      * intros H [H1|H1]; [congruence|contradiction].
      * intros H H1. apply H. now right.
Qed.

Lemma find_wire_first s ms n :
  NoDup (map snd ms) -> In (n, s) ms -> find_wire s ms = Some n.
Proof.
  induction ms as [|[n' w] r IH]; cbn; [intros _ []|].
  intros Hnd [H|H].
  - inversion H; subst. now rewrite teqb_refl.
  - inversion Hnd as [|? ? Hnotin Hnd']; subst.
    destruct (teqb s w) eqn:E.
    + apply teqb_eq in E. subst. exfalso. apply Hnotin.
      change w with (snd (n, w)). now apply in_map.
    + now apply IH.
Qed.

Lemma assoc_first {A} k (l : list (text * A)) v :
  NoDup (map fst l) -> In (k, v) l -> assoc k l = Some v.
Proof.
  induction l as [|[k' v'] r IH]; cbn; [intros _ []|].
  intros Hnd [H|H].
  - inversion H; subst. now rewrite teqb_refl.
  - inversion Hnd as [|? ? Hnotin Hnd']; subst.
    destruct (teqb k k') eqn:E.
    + apply teqb_eq in E. subst. exfalso. apply Hnotin.
      change k' with (fst (k', v)). now apply in_map.
    + now apply IH.
Qed.

Section WF.
  Variable e : enum.
  Hypothesis Hwf : enum_wf e = true.

  Lemma wf_names : NoDup (en_names e).
  Proof.
    unfold enum_wf in Hwf. apply andb_true_iff in Hwf as [H _].
    apply andb_true_iff in H as [H _]. now apply nodup_text_NoDup.
  Qed.

  Lemma wf_wires : NoDup (en_wires e).
  Proof.
    unfold enum_wf in Hwf. apply andb_true_iff in Hwf as [H _].
    apply andb_true_iff in H as [_ H]. now apply nodup_text_NoDup.
  Qed.

  Lemma wf_missing : en_missing e = MissingMember t_UNKNOWN /\ In t_UNKNOWN (en_names e).
  Proof.
    unfold enum_wf in Hwf. apply andb_true_iff in Hwf as [_ H].
    destruct (en_missing e) as [u| |]; try discriminate.
    apply andb_true_iff in H as [H1 H2]. apply teqb_eq in H1. subst.
    split; [reflexivity|now apply mem_text_In].
  Qed.

  (* Totality: decoding any string gives the member with that wire text, or UNKNOWN
     when no member has it; it never raises. *)
  Theorem decode_total (s : text) :
    exists n, enum_decode e s = Ok n /\
      ((In (n, s) (en_members e)) \/ (n = t_UNKNOWN /\ ~ In s (en_wires e))).
  Proof.
    unfold enum_decode. destruct (find_wire s (en_members e)) as [n|] eqn:F.
    - exists n. split; [reflexivity|]. left. now apply find_wire_Some.
    - destruct wf_missing as [Hm Hin]. rewrite Hm.
      apply mem_text_In in Hin. rewrite Hin.
      exists t_UNKNOWN. split; [reflexivity|]. right. split; [reflexivity|].
      now apply find_wire_None.
  Qed.

  (* Round trip: every member (UNKNOWN included) is what its own wire text decodes to. *)
  Theorem decode_encode (n w : text) :
    In (n, w) (en_members e) ->
    enum_encode e n = Ok w /\ enum_decode e w = Ok n.
  Proof.
    intro Hin. split.
    - unfold enum_encode. rewrite (assoc_first n (en_members e) w); [reflexivity| |assumption].
      exact wf_names.
    - unfold enum_decode. rewrite (find_wire_first w (en_members e) n); [reflexivity| |assumption].
      exact wf_wires.
  Qed.

  (* Distinct members have distinct wire texts. *)
  Theorem wires_injective (n1 n2 w : text) :
    In (n1, w) (en_members e) -> In (n2, w) (en_members e) -> n1 = n2.
  Proof.
    intros H1 H2.
    pose proof (find_wire_first w (en_members e) n1 wf_wires H1) as E1.
    pose proof (find_wire_first w (en_members e) n2 wf_wires H2) as E2.
    congruence.
  Qed.

  Theorem decode_never_raises (s : text) : enum_decode e s <> Raise.
  Proof. destruct (decode_total s) as [n [H _]]. congruence. Qed.
End WF.
