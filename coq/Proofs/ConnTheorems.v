(* Corollaries of the connection-machine invariants, in the form the property files state them. *)
From Coq Require Import List NArith ZArith Bool Lia.
From Ynca Require Import Base.Text Base.Utf8 Model.Framing Model.Line Model.Ring Model.Conn.
From Ynca Require Import Proofs.FramingFacts Proofs.ConnFacts.
Import ListNotations.
Local Open Scope Z_scope.

Section T.
  Variable spacing : Z.
  Variable keepalive : Z.
  Notation step := (step spacing keepalive).
  Notation run := (run spacing keepalive).

  Definition is_prefix_of {A} (a b : list A) : Prop := exists r, b = a ++ r.

  Lemma filter_prefix {A} (P : A -> bool) a b : is_prefix_of a b -> is_prefix_of (filter P a) (filter P b).
  Proof. intros [r ->]. exists (filter P r). apply filter_app. Qed.

  (* C01 (a): what has been written is a prefix of what was submitted (markers aside), in
     submission order -- each item at most once, nothing that was not submitted *)
  Theorem wire_is_prefix_of_submissions cap l s :
    run (init cap) l = Some s -> g_drained s = [] ->
    is_prefix_of (map snd (g_wire s)) (nonexit (g_enq s)).
  Proof.
    intros H D.
    pose proof (fifo_all_schedules spacing keepalive cap l s H D) as Q.
    destruct (exactly_once_all_schedules spacing keepalive cap l s H) as [rest [E _]].
    rewrite Q, nonexit_app, E. exists ((hand (spc_ s) ++ rest) ++ nonexit (q s)).
    now rewrite <- !app_assoc.
  Qed.

  (* C01 (b): the same restricted to any one caller *)
  Definition from_caller (c : nat) (i : item) : bool :=
    match i with ICmd n _ => Nat.eqb n c | _ => false end.

  Theorem per_caller_order cap l s c :
    run (init cap) l = Some s -> g_drained s = [] ->
    is_prefix_of (filter (from_caller c) (map snd (g_wire s)))
                 (filter (from_caller c) (nonexit (g_enq s))).
  Proof. intros H D. apply filter_prefix. eapply wire_is_prefix_of_submissions; eauto. Qed.

  (* C01 (d): once the queue is empty and the sender holds nothing, everything submitted is on the wire *)
  Theorem idle_means_all_written cap l s :
    run (init cap) l = Some s -> g_drained s = [] ->
    q s = [] -> hand (spc_ s) = [] -> spc_ s <> SDone ->
    map snd (g_wire s) = nonexit (g_enq s).
  Proof.
    intros H D Hq Hh Hd.
    pose proof (fifo_all_schedules spacing keepalive cap l s H D) as Q.
    destruct (exactly_once_all_schedules spacing keepalive cap l s H) as [rest [E R]].
    rewrite Q, Hq, app_nil_r, E, Hh, (R Hd). now rewrite !app_nil_r.
  Qed.

  (* C01 (c): a write hands the transport exactly frame(text) of the item in hand *)
  Theorem write_is_one_framed_line s b s' :
    step s (SWriteA b) = Some s' ->
    exists i, spc_ s = SWrite i /\ b = frame (item_text i) /\ g_wire s' = g_wire s ++ [(now s, i)].
  Proof.
    unfold Conn.step. destruct (spc_ s) as [| | | | | |i| | | | |] eqn:E; try discriminate.
    destruct (teqb b (frame (item_text i))) eqn:F; [|discriminate].
    intros [= <-]. exists i. apply teqb_eq in F. repeat split; assumption.
  Qed.

  (* ... and such a frame is exactly one CRLF-terminated line whose text decodes back unchanged *)
  Theorem frame_is_one_line t :
    all_scalar t -> no_crlf (utf8_encode t) = true ->
    scan (frame t) = ([utf8_encode t], []) /\ utf8_decode (utf8_encode t) = t.
  Proof.
    intros Hs Hn. split; [|now apply utf8_roundtrip].
    unfold frame. change (utf8_encode t ++ [c_cr; c_lf]) with (join_lines [utf8_encode t] []).
    apply scan_join; [cbn; now rewrite Hn|reflexivity].
  Qed.

  (* only the sender's write transition extends the wire *)
  Theorem only_sender_writes s a s' :
    step s a = Some s' -> g_wire s' <> g_wire s -> exists b, a = SWriteA b.
  Proof.
    intros H Hne. destruct a; try (exists b; reflexivity); exfalso; apply Hne;
      unfold Conn.step, set_spc, add_log in H;
      repeat match type of H with
             | context [match ?x with _ => _ end] => destruct x eqn:?; try discriminate
             | context [if ?x then _ else _] => destruct x eqn:?; try discriminate
             end; injection H as <-; reflexivity.
  Qed.

  (* C20: the buffer is the last N entries of the full log *)
  Theorem log_is_bounded_suffix cap l s :
    run (init cap) l = Some s ->
    logbuf s = lastn cap (g_log s) /\ (length (logbuf s) <= cap)%nat /\ (cap = O -> logbuf s = []).
  Proof.
    intro H.
    assert (C : logcap s = cap).
    { refine (run_invariant spacing keepalive (fun s => logcap s = cap) _ l (init cap) s eq_refl H).
      intros s0 a s1 Hc Hs. destruct a;
        unfold Conn.step, set_spc, add_log in Hs;
        repeat match type of Hs with
               | context [match ?x with _ => _ end] => destruct x eqn:?; try discriminate
               | context [if ?x then _ else _] => destruct x eqn:?; try discriminate
               end; injection Hs as <-; exact Hc. }
    pose proof (run_invariant spacing keepalive inv20a (inv20a_step spacing keepalive) l (init cap) s eq_refl H) as A.
    unfold inv20a in A. rewrite C in A. split; [exact A|]. split.
    - rewrite A, lastn_length. lia.
    - intros ->. rewrite A. apply lastn_0.
  Qed.

  Theorem log_sends_follow_wire cap l s :
    run (init cap) l = Some s -> inv20b s.
  Proof.
    intro H. refine (run_invariant spacing keepalive inv20b (inv20b_step spacing keepalive) l (init cap) s _ H).
    exists []. split; reflexivity.
  Qed.

  Theorem log_recvs_follow_lines cap l s :
    run (init cap) l = Some s -> inv20c s.
  Proof.
    intro H. exact (run_invariant spacing keepalive inv20c (inv20c_step spacing keepalive) l (init cap) s eq_refl H).
  Qed.

  Theorem lines_are_framing_of_emitted cap l s :
    run (init cap) l = Some s -> inv20e s.
  Proof.
    intro H. refine (run_invariant spacing keepalive inv20e (inv20e_step spacing keepalive) l (init cap) s _ H).
    exists []. repeat split; reflexivity.
  Qed.

  (* causality, part 1: the device can only answer a write that happened, and that write's Send
     entry is already in the log *)
  Theorem reply_after_logged_send cap l s b w s' :
    run (init cap) l = Some s -> step s (DevEmit b (Some w)) = Some s' ->
    (w < length (sends (g_log s)))%nat.
  Proof.
    intros H Hs. destruct (log_sends_follow_wire cap l s H) as [rest [E _]].
    unfold Conn.step in Hs. destruct (Nat.ltb_spec w (length (g_wire s))) as [Hw|Hw]; [|discriminate].
    rewrite E, !app_length, map_length. lia.
  Qed.

  (* C13 *)
  Theorem suppression_invariant cap l s :
    run (init cap) l = Some s -> inv13 s.
  Proof.
    intro H. exact (run_invariant spacing keepalive inv13 (inv13_step spacing keepalive) l (init cap) s (inv13_init cap) H).
  Qed.

  (* a line can only be withheld after reading the flag as set, and then a probe was started since
     the flag was last cleared (g_armed: set by the sender's SSetFlag, reset by every RClrFlag) *)
  Theorem withhold_needs_probe cap l s s' :
    run (init cap) l = Some s -> step s (RGetFlag true) = Some s' -> g_armed s = true.
  Proof.
    intros H Hs. destruct (suppression_invariant cap l s H) as [A _].
    unfold Conn.step in Hs. destruct (rpc_ s); try discriminate.
    destruct (parse_sfv l0); [|discriminate].
    destruct (flag s) eqn:F; [now rewrite A|discriminate].
  Qed.

  Theorem fate_decided_once s a s' l0 :
    step s a = Some s' -> g_fate s' = g_fate s ++ [(l0, false)] ->
    a = RClrFlag /\ rpc_ s = RFlag l0 true.
  Proof.
    intros H E. destruct a;
      unfold Conn.step, set_spc, add_log in H;
      repeat match type of H with
             | context [match ?x with _ => _ end] => destruct x eqn:?; try discriminate
             | context [if ?x then _ else _] => destruct x eqn:?; try discriminate
             end; injection H as <-; cbn in E;
      try (exfalso; symmetry in E; apply (f_equal (@length _)) in E; rewrite app_length in E; cbn in E; lia).
    - apply app_inv_head in E. injection E as <-. split; reflexivity.
    - apply app_inv_head in E. discriminate.
  Qed.

  (* the flag stays set as long as the reader does not clear it *)
  Fixpoint no_clear (l : list action) : Prop :=
    match l with [] => True | RClrFlag :: _ => False | _ :: r => no_clear r end.

  Theorem flag_persists l : forall s s',
    run s l = Some s' -> no_clear l -> flag s = true -> flag s' = true.
  Proof.
    induction l as [|a r IH]; intros s s' H N F; cbn in H.
    - now injection H as <-.
    - destruct (step s a) as [s1|] eqn:E; [|discriminate].
      assert (F1 : flag s1 = true).
      { destruct a; try contradiction;
          unfold Conn.step, set_spc, add_log in E;
          repeat match type of E with
                 | context [match ?x with _ => _ end] => destruct x eqn:?; try discriminate
                 | context [if ?x then _ else _] => destruct x eqn:?; try discriminate
                 end; injection E as <-; cbn; auto. }
      apply (IH s1 s' H); [|exact F1]. destruct a; try exact N; contradiction.
  Qed.

  (* converse clause: with the flag set, a MODELNAME line is withheld *)
  Theorem modelname_withheld_when_armed s l0 s1 s2 :
    rpc_ s = RLogged l0 -> flag s = true -> is_modelname_reply (parse_line l0) = true ->
    step s (RGetFlag true) = Some s1 -> step s1 RClrFlag = Some s2 ->
    g_fate s2 = g_fate s ++ [(l0, false)] /\ g_delivered s2 = g_delivered s /\ rpc_ s2 = RIdle.
  Proof.
    intros R F M H1 H2. unfold Conn.step in H1. rewrite R in H1.
    destruct (parse_sfv l0); [|discriminate]. rewrite F in H1. cbn in H1. injection H1 as <-.
    unfold Conn.step in H2. cbn in H2. rewrite M in H2. cbn in H2. injection H2 as <-. cbn.
    repeat split.
  Qed.

  (* with the flag set the reader cannot take the "read false" branch *)
  Theorem armed_reads_true s l0 s1 :
    rpc_ s = RLogged l0 -> flag s = true -> step s (RGetFlag false) = Some s1 -> False.
  Proof.
    intros R F H. unfold Conn.step in H. rewrite R, F in H.
    destruct (parse_sfv l0); discriminate.
  Qed.
End T.
