(* Reflection over the regenerated server tables, guard flags and recordings (Gen/ServerTables.v,
   Gen/ServerRecs.v): everything here is re-checked against /repo's working tree on every run. *)
From Coq Require Import List NArith ZArith Bool.
From Ynca Require Import Base.Text Model.Line Model.ServerNames Model.Server Proofs.ServerFacts.
From Ynca Require Import Gen.ServerTables Gen.ServerRecs.
Import ListNotations.

(* every operation of the handler that can raise is guarded, the relative-volume condition has the intended
   truth table, stored error values are recognised exactly, received bytes are decoded leniently *)
Theorem gen_cfg_good : cfg_eqb gen_cfg good_cfg = true.
Proof. vm_compute. reflexivity. Qed.

Theorem gen_cfg_eq : gen_cfg = good_cfg.
Proof. apply cfg_eqb_good. exact gen_cfg_good. Qed.

(* fill_from_file decodes JSON string lines (in the one shape the translator recognises) *)
Theorem gen_json_ok : gen_json && gen_json_recognised = true.
Proof. vm_compute. reflexivity. Qed.

Theorem gen_markers_ok : gen_markers = (s_UNDEFINED, s_RESTRICTED).
Proof. vm_compute. reflexivity. Qed.

Theorem gen_tables_ok : tables_ok srv_multi srv_related srv_inp_map srv_zones = true.
Proof. vm_compute. reflexivity. Qed.

Theorem gen_inp_ok : inp_ok srv_inp_map = true.
Proof. vm_compute. reflexivity. Qed.

(* no group contains the two self-enumerating names *)
Definition groups_plain : bool :=
  forallb (fun p => forallb (fun m => negb (teqb m s_SCENENAME) && negb (teqb m s_INPNAME)) (snd p)) srv_multi.
Theorem gen_groups_plain : groups_plain = true.
Proof. vm_compute. reflexivity. Qed.

Lemma groups_plain_spec f ms : assoc f srv_multi = Some ms ->
  forall m, In m ms -> teqb m s_SCENENAME = false /\ teqb m s_INPNAME = false.
Proof.
  intros E m Hm. pose proof gen_groups_plain as G. unfold groups_plain in G.
  rewrite forallb_forall in G. specialize (G _ (assoc_In _ _ _ E)). cbn [snd] in G.
  rewrite forallb_forall in G. specialize (G m Hm). apply andb_true_iff in G as [A B].
  apply negb_true_iff in A, B. now split.
Qed.

(* each of the bundled recordings, loaded by the model of fill_from_file, holds for every (subunit, function)
   the last value the independent reader finds for it in the recording *)
Definition rec_ok (r : text * list text * list (text * text * text)) : bool :=
  let '(name, lines, tab) := r in
  let st := ingest gen_json rec_json lines in
  forallb (fun '(s, f, v) => teqb (get_data st s f) v) tab.

Theorem gen_recordings_ok : forallb rec_ok srv_recordings = true.
Proof. vm_compute. reflexivity. Qed.

Theorem gen_recordings_count : length srv_recordings = 12%nat.
Proof. reflexivity. Qed.
