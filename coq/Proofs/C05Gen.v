(* C05: reflection over the generated method tables. *)
From Coq Require Import List NArith ZArith Bool.
From Ynca Require Import Base.Text Model.Enum Model.Conv Model.Put Model.Methods.
From Ynca Require Import Gen.Enums Gen.Functions Gen.Methods.
Import ListNotations.

Lemma gen_methods_ok : all_methods_ok all_methods = true.
Proof. vm_compute. reflexivity. Qed.

Lemma gen_method_ok cid ms name b d :
  In (cid, ms) all_methods -> In (name, b, d) ms -> mbody_ok b = true.
Proof.
  intros H1 H2.
  pose proof (proj1 (forallb_forall _ _) gen_methods_ok (cid, ms) H1) as H. cbn in H.
  exact (proj1 (forallb_forall _ _) H (name, b, d) H2).
Qed.

(* every class with methods is a known subunit id *)
Lemma gen_method_ids : forallb (fun c => mem_text (fst c) (map sc_id all_subunits)) all_methods = true.
Proof. vm_compute. reflexivity. Qed.
