(* C05: facts about encoders, assignment and action methods. *)
From Coq Require Import List NArith ZArith Bool Lia.
From Ynca Require Import Base.Text Base.Decimal Model.Enum Model.Conv Model.Step Model.Put Model.Methods Model.Subunit.
From Ynca Require Import Proofs.SubunitFacts.
Import ListNotations.

Section E.
  Variable pf : text -> option fnum.
  Variable pi : text -> option Z.
  Notation conv_to_str := (conv_to_str pf pi).
  Notation set_attr := (set_attr pf pi).

  (* ---- valid values *)
  Lemma enc_enum e en mn w s : conv_to_str (CEnum e) (PEnum en mn w s) = Some (Ok w).
  Proof. reflexivity. Qed.

  (* number-or-enumeration functions: a member whose text is not a number goes to the enumeration *)
  Lemma enc_float_or_enum ts e en mn w :
    float_of_text pf w = None ->
    conv_to_str (CMulti [CFloat ts; CEnum e]) (PEnum en mn w true) = Some (Ok w).
  Proof. intro H. cbn. rewrite H. reflexivity. Qed.

  Lemma enc_int_or_enum ts e en mn w :
    int_of_text pi w = None ->
    conv_to_str (CMulti [CInt ts; CEnum e]) (PEnum en mn w true) = Some (Ok w).
  Proof. intro H. cbn. rewrite H. reflexivity. Qed.

  Lemma enc_text mn mx t :
    conv_to_str (CStr mn mx) (PStr t) = Some (if len_ok mn mx t then Ok t else Raise).
  Proof. reflexivity. Qed.

  Lemma enc_int z : conv_to_str (CInt TSStr) (PInt z) = Some (Ok (print_int z)).
  Proof. reflexivity. Qed.

  Lemma enc_int_or_none z : conv_to_str (CIntOrNone TSStr) (PInt z) = Some (Ok (print_int z)).
  Proof. reflexivity. Qed.

  (* ---- values outside the domain *)
  (* "cannot be read as a number": None, a plain object, or text that neither grammar nor oracle accepts *)
  Definition not_a_number (v : pyval) : bool :=
    match v with
    | PNone | PObj => true
    | PStr t => match float_of_text pf t, int_of_text pi t with None, None => true | _, _ => false end
    | _ => false
    end.

  Definition not_an_enum (v : pyval) : bool :=
    match v with PEnum _ _ _ _ => false | _ => true end.

  Fixpoint rejects (c : conv) (v : pyval) : bool :=
    match c with
    | CEnum _ => not_an_enum v
    | CStr mn mx => match v with PStr t => negb (len_ok mn mx t) | _ => false end
    | CInt _ | CIntOrNone _ | CFloat _ => not_a_number v
    | CMulti cs => (fix all (l : list conv) : bool :=
                      match l with [] => true | c' :: r => rejects c' v && all r end) cs
    | COpaque => false
    end.

  Lemma rejects_multi_cons c r v :
    rejects (CMulti (c :: r)) v = rejects c v && rejects (CMulti r) v.
  Proof. reflexivity. Qed.

  Lemma to_str_multi_cons c r v :
    conv_to_str (CMulti (c :: r)) v =
      match conv_to_str c v with
      | Some (Ok t) => Some (Ok t)
      | Some Raise => conv_to_str (CMulti r) v
      | None => None
      end.
  Proof. reflexivity. Qed.

  Theorem rejects_raises c : forall v, rejects c v = true -> conv_to_str c v = Some Raise.
  Proof.
    induction c as [e|a b|t|t|t|cs IH|] using conv_ind'; intros v H.
    - destruct v; try discriminate; reflexivity.
    - destruct v; try discriminate. cbn in *. now rewrite (proj1 (negb_true_iff _) H).
    - destruct v; try discriminate; try reflexivity.
      cbn in *. destruct (float_of_text pf t0); [discriminate|].
      destruct (int_of_text pi t0); [discriminate|reflexivity].
    - destruct v; try discriminate; try reflexivity.
      cbn in *. destruct (float_of_text pf t0); [discriminate|].
      destruct (int_of_text pi t0); [discriminate|reflexivity].
    - destruct v; try discriminate; try reflexivity.
      cbn in *. destruct (float_of_text pf t0); [discriminate|reflexivity].
    - induction cs as [|c r IHr]; [reflexivity|].
      inversion IH as [|? ? Hc Hr]; subst.
      rewrite rejects_multi_cons in H. apply andb_true_iff in H as [H1 H2].
      rewrite to_str_multi_cons, (Hc v H1). exact (IHr Hr H2).
    - discriminate.
  Qed.

  (* ---- assignment *)
  Lemma set_attr_ok sc f v t :
    find_attr sc (f_attr f) = Some f -> f_put f = true ->
    conv_to_str (f_conv f) v = Some (Ok t) ->
    set_attr sc (f_attr f) v = Some (Ok [(sc_id sc, f_name f, t)]).
  Proof. intros Hf Hp Hc. unfold Put.set_attr. now rewrite Hf, Hp, Hc. Qed.

  Lemma set_attr_readonly sc f v :
    find_attr sc (f_attr f) = Some f -> f_put f = false ->
    set_attr sc (f_attr f) v = Some Raise.
  Proof. intros Hf Hp. unfold Put.set_attr. now rewrite Hf, Hp. Qed.

  Lemma set_attr_rejected sc f v :
    find_attr sc (f_attr f) = Some f -> rejects (f_conv f) v = true ->
    set_attr sc (f_attr f) v = Some Raise.
  Proof.
    intros Hf Hr. unfold Put.set_attr. rewrite Hf.
    destruct (f_put f); cbn [negb]; [|reflexivity].
    now rewrite (rejects_raises _ _ Hr).
  Qed.

  (* an assignment never produces more than one PUT, and it carries the function's own names *)
  Lemma set_attr_shape sc attr v l :
    set_attr sc attr v = Some (Ok l) ->
    exists f t, find_attr sc attr = Some f /\ l = [(sc_id sc, f_name f, t)].
  Proof.
    unfold Put.set_attr. destruct (find_attr sc attr) as [f|]; [|discriminate].
    destruct (negb (f_put f)); [discriminate|].
    destruct (conv_to_str (f_conv f) v) as [[t|]|]; try discriminate.
    intros [= <-]. eauto.
  Qed.
End E.

(* ---- reads *)
Lemma read_writeonly sc st f :
  find (fun g => teqb (f_attr g) (f_attr f)) (sc_funcs sc) = Some f -> f_get f = false ->
  read_attr sc st (f_attr f) = Some Raise.
Proof. intros Hf Hg. unfold read_attr. now rewrite Hf, Hg. Qed.

(* ---- relative volume *)
Lemma find_num_eq_in v l k : find (num_eq v) l = Some k -> In k l.
Proof. intro H. apply find_some in H. tauto. Qed.

Theorem vol_text_shape vs v :
  volspec_ok vs = true -> step_arg v = true ->
  vol_text vs v = Some (vs_word vs) \/
  exists k, (k = 1 \/ k = 2 \/ k = 5)%Z /\
            vol_text vs v = Some (vs_word vs ++ t_sp ++ print_int k ++ t_dB).
Proof.
  unfold volspec_ok. intros H Hv.
  apply andb_true_iff in H as [H Hint]. apply andb_true_iff in H as [H Hsteps].
  apply andb_true_iff in H as [H Hpost]. apply andb_true_iff in H as [_ Hpre].
  apply teqb_eq in Hpre. apply teqb_eq in Hpost.
  unfold vol_text. destruct (find (num_eq v) (vs_steps vs)) as [k|] eqn:F; [|now left].
  right. exists k. split.
  - apply find_num_eq_in in F. rewrite forallb_forall in Hsteps. specialize (Hsteps k F).
    apply orb_true_iff in Hsteps as [Hs|Hs]; [apply orb_true_iff in Hs as [Hs|Hs]|]; apply Z.eqb_eq in Hs; auto.
  - rewrite Hint, Hpre, Hpost. now rewrite <- app_assoc.
Qed.

(* an action method never produces more than one PUT, for its own subunit *)
Lemma call_method_shape id b v l :
  call_method id b v = Some (Ok l) -> exists f t, l = [(id, f, t)].
Proof.
  destruct b as [f e g|vs f|]; cbn; [| |discriminate].
  - destruct (guard_eval g v) as [[|]|]; try discriminate.
    destruct (mexpr_eval e v) as [[t|]|]; try discriminate. intros [= <-]. eauto.
  - destruct (vol_text vs v) as [t|]; [|discriminate]. intros [= <-]. eauto.
Qed.
