(* Facts about the subunit machine: totality, the read specification, non-interference,
   typing, notifications (C03, C09 sequential half, C10). *)
From Coq Require Import List NArith ZArith Bool Lia.
From Ynca Require Import Base.Text Model.Enum Model.Conv Model.Line Model.Subunit Proofs.EnumFacts.
Import ListNotations.

(* induction principle for the nested converter type *)
Section ConvInd.
  Variable P : conv -> Prop.
  Hypothesis HEnum : forall e, P (CEnum e).
  Hypothesis HStr : forall a b, P (CStr a b).
  Hypothesis HInt : forall t, P (CInt t).
  Hypothesis HIntN : forall t, P (CIntOrNone t).
  Hypothesis HFloat : forall t, P (CFloat t).
  Hypothesis HMulti : forall cs, Forall P cs -> P (CMulti cs).
  Hypothesis HOpaque : P COpaque.

  Fixpoint conv_ind' (c : conv) : P c :=
    match c with
    | CEnum e => HEnum e
    | CStr a b => HStr a b
    | CInt t => HInt t
    | CIntOrNone t => HIntN t
    | CFloat t => HFloat t
    | CMulti cs =>
        HMulti cs ((fix go (l : list conv) : Forall P l :=
                      match l with
                      | [] => Forall_nil P
                      | c' :: r => Forall_cons c' (conv_ind' c') (go r)
                      end) cs)
    | COpaque => HOpaque
    end.
End ConvInd.

Lemma find_wire_name s ms n : find_wire s ms = Some n -> In n (map fst ms).
Proof.
  intro H. apply find_wire_Some in H. change n with (fst (n, s)). now apply in_map.
Qed.

Lemma to_value_multi_cons pf pi c r s :
  to_value pf pi (CMulti (c :: r)) s =
    match to_value pf pi c s with Ok v => Ok v | Raise => to_value pf pi (CMulti r) s end.
Proof. reflexivity. Qed.

Lemma has_type_multi_cons c r v :
  value_has_type (CMulti (c :: r)) v = value_has_type c v || value_has_type (CMulti r) v.
Proof. reflexivity. Qed.

(* a decoded value always inhabits the type of its converter, for every oracle *)
Lemma to_value_typed pf pi c : forall s v,
  to_value pf pi c s = Ok v -> value_has_type c v = true.
Proof.
  induction c as [e|a b|t|t|t|cs IH|] using conv_ind'; intros s v H;
    [cbn in H|cbn in H|cbn in H|cbn in H|cbn in H| |cbn in H].
  - unfold enum_decode in H.
    destruct (find_wire s (en_members e)) as [n|] eqn:F.
    + injection H as <-. cbn. rewrite teqb_refl. cbn. apply mem_text_In. eapply find_wire_name; eauto.
    + destruct (en_missing e) as [u| |]; try discriminate.
      destruct (mem_text u (en_names e)) eqn:M; [|discriminate].
      injection H as <-. cbn. now rewrite teqb_refl, M.
  - injection H as <-. reflexivity.
  - destruct (int_of_text pi s); [injection H as <-; reflexivity|discriminate].
  - destruct (int_of_text pi s); injection H as <-; reflexivity.
  - destruct (float_of_text pf s); [injection H as <-; reflexivity|discriminate].
  - induction cs as [|c r IHr]; [discriminate|].
    inversion IH as [|? ? Hc Hr]; subst.
    rewrite to_value_multi_cons in H. rewrite has_type_multi_cons.
    destruct (to_value pf pi c s) as [x|] eqn:E.
    + injection H as <-. rewrite (Hc s x E). reflexivity.
    + rewrite (IHr Hr H). apply orb_true_r.
  - discriminate.
Qed.

Lemma assoc_upd k k' v l :
  assoc k (upd k' v l) = if teqb k k' then Some v else assoc k l.
Proof.
  induction l as [|[a b] r IH]; cbn.
  - destruct (teqb k k'); reflexivity.
  - destruct (teqb k' a) eqn:E1; cbn.
    + apply teqb_eq in E1. subst a. destruct (teqb k k'); reflexivity.
    + destruct (teqb k a) eqn:E2.
      * apply teqb_eq in E2. subst a.
        destruct (teqb k k') eqn:E3; [|reflexivity].
        apply teqb_eq in E3. subst. now rewrite teqb_refl in E1.
      * exact IH.
Qed.

Lemma find_func_unique sc fn :
  names_unique sc = true -> In fn (sc_funcs sc) -> find_func sc (f_name fn) = Some fn.
Proof.
  unfold names_unique, find_func. intro H. apply nodup_text_NoDup in H.
  induction (sc_funcs sc) as [|g r IH]; [intros []|].
  cbn in H. inversion H as [|? ? Hnotin Hnd]; subst. intros [->|Hin]; cbn.
  - now rewrite teqb_refl.
  - destruct (teqb (f_name g) (f_name fn)) eqn:E.
    + apply teqb_eq in E. exfalso. apply Hnotin. rewrite E. now apply in_map.
    + now apply IH.
Qed.

Lemma find_func_name sc f fn : find_func sc f = Some fn -> f_name fn = f /\ In fn (sc_funcs sc).
Proof.
  unfold find_func. intro H. apply find_some in H as [H1 H2]. apply teqb_eq in H2. now split.
Qed.

Fixpoint filter_map {A B} (f : A -> option B) (l : list A) : list B :=
  match l with
  | [] => []
  | a :: r => match f a with Some b => b :: filter_map f r | None => filter_map f r end
  end.

Section Facts.
  Variable pf : text -> option fnum.
  Variable pi : text -> option Z.
  Variable sc : subunit_class.

  Notation on_msg := (on_msg pf pi sc).
  Notation run := (run pf pi sc).
  Notation latest := (latest pf pi sc).

  (* nothing the device sends makes message handling raise *)
  Lemma on_msg_total st m : exists st' n, on_msg st m = Ok (st', n).
  Proof.
    unfold Subunit.on_msg, handler_update.
    destruct (fst m); [|eauto|eauto].
    destruct (snd m) as [[[s f] v]|]; [|eauto].
    destruct (negb (teqb (sc_id sc) s)); [eauto|].
    destruct (find_func sc f) as [fn|]; [|eauto].
    destruct (to_value pf pi (f_conv fn) v); eauto.
  Qed.

  Lemma run_total h : forall st, exists st' ns, run st h = Ok (st', ns).
  Proof.
    induction h as [|m r IH]; intro st; cbn; [eauto|].
    destruct (on_msg_total st m) as [st' [n E]]. rewrite E.
    destruct (IH st') as [st'' [ns E']]. rewrite E'. eauto.
  Qed.

  Lemma run_app h1 h2 st st1 n1 :
    run st h1 = Ok (st1, n1) ->
    run st (h1 ++ h2) =
      match run st1 h2 with
      | Ok (st2, n2) => Ok (st2, n1 ++ n2)
      | Raise => Raise
      end.
  Proof.
    revert st st1 n1; induction h1 as [|m r IH]; intros st st1 n1 H; cbn in *.
    - injection H as <- <-. destruct (run st h2) as [[a b]|]; reflexivity.
    - destruct (on_msg st m) as [[st' n]|]; [|discriminate].
      destruct (run st' r) as [[st'' ns]|] eqn:E; [|discriminate].
      injection H as <- <-. rewrite (IH st' st'' ns E).
      destruct (run st'' h2) as [[a b]|]; [|reflexivity].
      destruct n; reflexivity.
  Qed.

  (* one message: what a read returns afterwards *)
  Lemma read_on_msg st m st' n fn :
    names_unique sc = true -> In fn (sc_funcs sc) ->
    on_msg st m = Ok (st', n) ->
    read st' (f_name fn) =
      match latest fn [m] with
      | Some x => Some x
      | None => read st (f_name fn)
      end.
  Proof.
    intros Hu Hin H. unfold Subunit.on_msg, handler_update in H. unfold read. cbn [Subunit.latest].
    destruct (fst m) eqn:Es; [|injection H as <- <-; reflexivity|injection H as <- <-; reflexivity].
    destruct (snd m) as [[[s f] v]|] eqn:Em; [|injection H as <- <-; reflexivity].
    set (st1 := if negb (ss_initialized st) && teqb s t_SYS && teqb f t_VERSION
                then {| ss_vals := ss_vals st; ss_initialized := ss_initialized st; ss_event := true |}
                else st) in *.
    assert (V1 : ss_vals st1 = ss_vals st).
    { unfold st1. destruct (negb (ss_initialized st) && teqb s t_SYS && teqb f t_VERSION); reflexivity. }
    destruct (teqb (sc_id sc) s) eqn:Eid; cbn [negb andb] in *.
    - destruct (find_func sc f) as [fn'|] eqn:Ef.
      + destruct (teqb (f_name fn) f) eqn:Efn.
        * apply teqb_eq in Efn. subst f.
          rewrite (find_func_unique sc fn Hu Hin) in Ef. injection Ef as <-.
          destruct (to_value pf pi (f_conv fn) v) as [x|].
          -- injection H as <- <-. cbn. now rewrite assoc_upd, teqb_refl.
          -- injection H as <- <-. now rewrite V1.
        * destruct (to_value pf pi (f_conv fn') v) as [x|].
          -- injection H as <- <-. cbn. rewrite assoc_upd, Efn. now rewrite V1.
          -- injection H as <- <-. now rewrite V1.
      + injection H as <- <-. rewrite V1.
        destruct (teqb (f_name fn) f) eqn:Efn; [|reflexivity].
        apply teqb_eq in Efn. subst f. rewrite (find_func_unique sc fn Hu Hin) in Ef. discriminate.
    - injection H as <- <-. now rewrite V1.
  Qed.

  Lemma latest_app fn h1 h2 :
    latest fn (h1 ++ h2) = match latest fn h1 with Some x => Some x | None => latest fn h2 end.
  Proof.
    induction h1 as [|m r IH]; [reflexivity|]. cbn.
    destruct (fst m); try exact IH.
    destruct (snd m) as [[[s f] v]|]; try exact IH.
    destruct (teqb (sc_id sc) s && teqb (f_name fn) f); try exact IH.
    destruct (to_value pf pi (f_conv fn) v); [reflexivity|exact IH].
  Qed.

  (* C03: after ANY history, a read returns the decoding of the most recent decodable value
     reported for exactly this subunit and function, or None *)
  Theorem read_spec h : forall st ns fn,
    names_unique sc = true -> In fn (sc_funcs sc) ->
    run ss_init h = Ok (st, ns) ->
    read st (f_name fn) = latest fn (rev h).
  Proof.
    induction h as [|m r IH] using rev_ind; intros st ns fn Hu Hin H.
    - cbn in H. injection H as <- <-. reflexivity.
    - destruct (run_total r ss_init) as [st1 [n1 E1]].
      rewrite (run_app r [m] ss_init st1 n1 E1) in H. cbn in H.
      destruct (on_msg st1 m) as [[st2 n2]|] eqn:E2; [|discriminate].
      injection H as <- <-.
      rewrite rev_app_distr. cbn [rev app]. change (m :: rev r) with ([m] ++ rev r). rewrite (latest_app fn [m] (rev r)).
      rewrite (read_on_msg st1 m st2 n2 fn Hu Hin E2).
      now rewrite (IH st1 n1 fn Hu Hin E1).
  Qed.

  (* non-interference: other subunits, unmodelled functions and error replies change no cached value *)
  Lemma on_msg_foreign st m st' n :
    on_msg st m = Ok (st', n) ->
    (fst m <> StOK \/
     (exists s f v, snd m = Some (s, f, v) /\ (s <> sc_id sc \/ find_func sc f = None)) \/
     snd m = None) ->
    ss_vals st' = ss_vals st /\ n = None.
  Proof.
    unfold Subunit.on_msg. intros H Hc.
    destruct (fst m) eqn:Es.
    2,3: injection H as <- <-; now split.
    destruct (snd m) as [[[s f] v]|] eqn:Em; [|injection H as <- <-; now split].
    set (st1 := if negb (ss_initialized st) && teqb s t_SYS && teqb f t_VERSION
                then {| ss_vals := ss_vals st; ss_initialized := ss_initialized st; ss_event := true |}
                else st) in *.
    assert (V1 : ss_vals st1 = ss_vals st).
    { unfold st1. destruct (negb (ss_initialized st) && teqb s t_SYS && teqb f t_VERSION); reflexivity. }
    destruct Hc as [Hc|[[s' [f' [v' [E [Hs|Hf]]]]]|Hc]]; try congruence.
    - injection E as <- <- <-.
      destruct (teqb (sc_id sc) s) eqn:Eid; [apply teqb_eq in Eid; congruence|].
      cbn in H. injection H as <- <-. now split.
    - injection E as <- <- <-. rewrite Hf in H.
      destruct (negb (teqb (sc_id sc) s)); injection H as <- <-; now split.
  Qed.

  (* typing invariant: every cached value has the type of its function *)
  Definition typed (st : sub_state) : Prop :=
    forall k v, In (k, v) (ss_vals st) ->
    exists fn, find_func sc k = Some fn /\ value_has_type (f_conv fn) v = true.

  Lemma In_upd k v l k0 v0 : In (k0, v0) (upd k v l) -> (k0 = k /\ v0 = v) \/ In (k0, v0) l.
  Proof.
    induction l as [|[a b] r IH]; cbn.
    - intros [[= <- <-]|[]]. now left.
    - destruct (teqb k a) eqn:E.
      + intros [[= <- <-]|H]; [now left|right; now right].
      + intros [H|H]; [right; now left|]. destruct (IH H) as [H'|H']; [now left|right; now right].
  Qed.

  Lemma on_msg_typed st m st' n : typed st -> on_msg st m = Ok (st', n) -> typed st'.
  Proof.
    unfold Subunit.on_msg, handler_update. intros T H.
    destruct (fst m); [|injection H as <- <-; exact T|injection H as <- <-; exact T].
    destruct (snd m) as [[[s f] v]|]; [|injection H as <- <-; exact T].
    set (st1 := if negb (ss_initialized st) && teqb s t_SYS && teqb f t_VERSION
                then {| ss_vals := ss_vals st; ss_initialized := ss_initialized st; ss_event := true |}
                else st) in *.
    assert (T1 : typed st1).
    { unfold st1. destruct (negb (ss_initialized st) && teqb s t_SYS && teqb f t_VERSION); exact T. }
    destruct (negb (teqb (sc_id sc) s)); [injection H as <- <-; exact T1|].
    destruct (find_func sc f) as [fn|] eqn:Ef; [|injection H as <- <-; exact T1].
    destruct (to_value pf pi (f_conv fn) v) as [x|] eqn:Ev; [|injection H as <- <-; exact T1].
    injection H as <- <-. intros k0 v0 Hin. cbn in Hin.
    apply In_upd in Hin as [[-> ->]|Hin]; [|now apply T1].
    exists fn. split; [exact Ef|]. eapply to_value_typed; eauto.
  Qed.

  Theorem run_typed h : forall st st' ns, typed st -> run st h = Ok (st', ns) -> typed st'.
  Proof.
    induction h as [|m r IH]; intros st st' ns T H; cbn in H.
    - injection H as <- <-. exact T.
    - destruct (on_msg st m) as [[st1 n]|] eqn:E; [|discriminate].
      destruct (run st1 r) as [[st2 ns2]|] eqn:E2; [|discriminate].
      injection H as <- <-. eapply IH; [|exact E2]. eapply on_msg_typed; eauto.
  Qed.

  Lemma typed_init : typed ss_init.
  Proof. intros k v []. Qed.

  (* notifications (C09, sequential half): one per decodable value of a modelled function of this
     subunit, in arrival order, carrying the decoded value -- and only while initialised *)
  Definition notify_of (m : msg) : option (text * value) :=
    match fst m, snd m with
    | StOK, Some (s, f, v) =>
        if teqb (sc_id sc) s then
          match find_func sc f with
          | Some fn => match to_value pf pi (f_conv fn) v with Ok x => Some (f, x) | Raise => None end
          | None => None
          end
        else None
    | _, _ => None
    end.

  Lemma on_msg_notify st m st' n :
    on_msg st m = Ok (st', n) ->
    ss_initialized st' = ss_initialized st /\
    n = if ss_initialized st then notify_of m else None.
  Proof.
    unfold Subunit.on_msg, handler_update, notify_of. intro H.
    destruct (fst m).
    2,3: injection H as <- <-; split; [reflexivity|destruct (ss_initialized st); reflexivity].
    destruct (snd m) as [[[s f] v]|];
      [|injection H as <- <-; split; [reflexivity|destruct (ss_initialized st); reflexivity]].
    set (st1 := if negb (ss_initialized st) && teqb s t_SYS && teqb f t_VERSION
                then {| ss_vals := ss_vals st; ss_initialized := ss_initialized st; ss_event := true |}
                else st) in *.
    assert (I1 : ss_initialized st1 = ss_initialized st).
    { unfold st1. destruct (negb (ss_initialized st) && teqb s t_SYS && teqb f t_VERSION); reflexivity. }
    destruct (teqb (sc_id sc) s); cbn [negb] in H.
    - destruct (find_func sc f) as [fn|].
      + destruct (to_value pf pi (f_conv fn) v) as [x|]; injection H as <- <-; cbn; rewrite I1;
          split; try reflexivity; destruct (ss_initialized st); reflexivity.
      + injection H as <- <-. split; [exact I1|destruct (ss_initialized st); reflexivity].
    - injection H as <- <-. split; [exact I1|destruct (ss_initialized st); reflexivity].
  Qed.

  Theorem run_notifications h : forall st st' ns,
    run st h = Ok (st', ns) ->
    ns = if ss_initialized st then filter_map notify_of h else [].
  Proof.
    induction h as [|m r IH]; intros st st' ns H; cbn in H.
    - injection H as <- <-. destruct (ss_initialized st); reflexivity.
    - destruct (on_msg st m) as [[st1 n]|] eqn:E; [|discriminate].
      destruct (run st1 r) as [[st2 ns2]|] eqn:E2; [|discriminate].
      injection H as <- <-.
      destruct (on_msg_notify st m st1 n E) as [I ->].
      rewrite (IH st1 st2 ns2 E2), I. cbn.
      destruct (ss_initialized st); [|reflexivity].
      destruct (notify_of m); reflexivity.
  Qed.
End Facts.
