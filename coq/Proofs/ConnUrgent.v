(* C12: upper bound on the silence between transmissions.  Upper bounds need assumptions about
   promptness: in an *urgent* run time cannot pass while the sender has a non-blocking step
   (computation and the port write take no time, the scheduler is prompt) and cannot pass a
   deadline the sender waits on; nobody else takes the write lock or removes queue items (the
   connection is up: no close(), no connection_lost()). *)
From Coq Require Import List NArith ZArith Bool Lia ZifyBool.
From Ynca Require Import Base.Text Model.Framing Model.Line Model.Ring Model.Conn Proofs.ConnFacts.
Import ListNotations.
Local Open Scope Z_scope.

Section U.
  Variable spacing : Z.
  Variable keepalive : Z.
  Hypothesis Hsp : 0 <= spacing.
  Hypothesis Hka : 0 <= keepalive.
  Notation step := (step spacing keepalive).

  Definition tick_ok (s : cstate) (d : Z) : bool :=
    match spc_ s with
    | SWait dl => match q s with [] => now s + d <=? dl | _ => d =? 0 end
    | SSleep u => now s + d <=? u
    | SDone => true
    | _ => d =? 0
    end.

  Definition ustep (s : cstate) (a : action) : option cstate :=
    match a with
    | Tick d => if tick_ok s d then step s a else None
    | EDeq _ | ELock _ | EUnlock _ => None
    | _ => step s a
    end.

  Fixpoint urun (s : cstate) (l : list action) : option cstate :=
    match l with
    | [] => Some s
    | a :: r => match ustep s a with Some s' => urun s' r | None => None end
    end.

  (* every urgent run is a run of the unrestricted machine *)
  Lemma ustep_step s a s' : ustep s a = Some s' -> step s a = Some s'.
  Proof.
    destruct a; cbn; try (intro H; exact H); try discriminate.
    destruct (tick_ok s d); [intro H; exact H|discriminate].
  Qed.

  Lemma urun_run l : forall s s', urun s l = Some s' -> run spacing keepalive s l = Some s'.
  Proof.
    induction l as [|a r IH]; intros s s' H; cbn in *; [exact H|].
    destruct (ustep s a) as [s1|] eqn:E; [|discriminate].
    rewrite (ustep_step s a s1 E). now apply IH.
  Qed.

  (* the reference point: one spacing after the last write, or the start *)
  Definition base (s : cstate) : Z :=
    match last_time (g_wire s) with Some t => t + spacing | None => 0 end.

  Definition holds_lock (p : spc) : bool :=
    match p with SWrite _ | SUnlock => true | _ => false end.

  Definition inv12 (s : cstate) : Prop :=
    lock s = (if holds_lock (spc_ s) then Some O else None) /\
    match spc_ s with
    | SLoop => now s = base s \/ (now s = base s + keepalive /\ q s <> [])
    | SWait dl => dl = base s + keepalive /\ base s <= now s <= dl
    | SGot _ | SChk _ | SLog _ | SLock _ | SWrite _ => base s <= now s <= base s + keepalive
    | SPutKA => now s = base s + keepalive
    | SUnlock | SSleepStart => now s + spacing = base s
    | SSleep u => u = base s /\ now s <= u
    | SDone => True
    end.

  Ltac crush_ustep H :=
    unfold ustep, Conn.step, set_spc, add_log in H;
    repeat match type of H with
           | context [match ?x with _ => _ end] => destruct x eqn:?; try discriminate
           | context [if ?x then _ else _] => destruct x eqn:?; try discriminate
           end;
    try (injection H as <-); cbn in *.

  Lemma base_write s i :
    base {| now := now s; q := q s; spc_ := SUnlock; flag := flag s; lock := lock s;
            rxport := rxport s; rbuf := rbuf s; rpend := rpend s; rpc_ := rpc_ s;
            logcap := logcap s; logbuf := logbuf s; g_enq := g_enq s; g_deq := g_deq s;
            g_drained := g_drained s; g_wire := g_wire s ++ [(now s, i)]; g_log := g_log s;
            g_lines := g_lines s; g_packets := g_packets s; g_delivered := g_delivered s;
            g_withheld := g_withheld s; g_emitted := g_emitted s; g_fate := g_fate s;
            g_armed := g_armed s; g_lost := g_lost s |} = now s + spacing.
  Proof. unfold base. cbn [g_wire]. now rewrite last_time_app. Qed.

  Lemma inv12_step s a s' : inv12 s -> ustep s a = Some s' -> inv12 s'.
  Proof.
    unfold inv12. intros [L P] H.
    destruct a; crush_ustep H;
      repeat match goal with Ep : spc_ s = _ |- _ => rewrite Ep in P, L end; cbn [holds_lock] in L;
      unfold tick_ok in *;
      repeat match goal with Ep : spc_ s = _, Ht : context [spc_ s] |- _ => rewrite Ep in Ht end;
      try (rewrite base_write);
      unfold base in *; cbn [g_wire now q spc_ lock holds_lock] in *;
      try (split; [first [exact L | reflexivity | congruence | idtac]|]);
      try (destruct (spc_ s) eqn:?; try discriminate);
      repeat match goal with
             | Hq : q s = _ |- _ => rewrite Hq in *
             end;
      try (intuition (try discriminate; try congruence; lia)).
    - (* Tick while waiting in get() *)
      match goal with Ht : match q s with _ => _ end = true |- _ => destruct (q s); lia end.
    - (* somebody enqueues while the sender is at the top of its loop *)
      destruct P as [P|[P Q]]; [left; exact P|right; split; [exact P|]].
      intro C. apply app_eq_nil in C as [_ C]. discriminate.
    - (* the sender enqueues a keep-alive after the time-out *)
      right. split; [exact P|]. intro C. apply app_eq_nil in C as [_ C]. discriminate.
  Qed.

  Lemma inv12_init cap : inv12 (init cap).
  Proof. split; [reflexivity|]. left. reflexivity. Qed.

  Lemma urun_invariant (P : cstate -> Prop) :
    (forall s a s', P s -> ustep s a = Some s' -> P s') ->
    forall l s s', P s -> urun s l = Some s' -> P s'.
  Proof.
    intros Hstep l; induction l as [|a r IH]; intros s s' Hs H; cbn in H.
    - now injection H as <-.
    - destruct (ustep s a) as [s1|] eqn:E; [|discriminate].
      eapply IH; [|exact H]. eapply Hstep; eauto.
  Qed.

  (* While the sender is alive, never more than keepalive + spacing since the last write
     (keepalive since the start, before the first write). *)
  Theorem silence_bounded cap l s :
    urun (init cap) l = Some s -> spc_ s <> SDone ->
    now s <= base s + keepalive.
  Proof.
    intros H Hd.
    pose proof (urun_invariant inv12 inv12_step l (init cap) s (inv12_init cap) H) as [_ P].
    destruct (spc_ s); try lia; try contradiction; intuition lia.
  Qed.

  (* consecutive writes are at most keepalive + spacing apart, and the first one comes at most
     keepalive after the start *)
  Fixpoint gapped (w : list (Z * item)) : Prop :=
    match w with
    | a :: ((b :: _) as r) => fst b <= fst a + spacing + keepalive /\ gapped r
    | _ => True
    end.

  Lemma gapped_app w x :
    gapped w -> (forall t, last_time w = Some t -> fst x <= t + spacing + keepalive) -> gapped (w ++ [x]).
  Proof.
    induction w as [|a r IH]; intros Hs Hl; [exact I|].
    destruct r as [|b r'].
    - cbn. split; [|exact I]. apply Hl. reflexivity.
    - cbn [app]. change (gapped (a :: b :: (r' ++ [x]))).
      cbn in Hs. destruct Hs as [H1 H2]. split; [exact H1|].
      apply IH; [exact H2|]. intros t Ht. apply Hl.
      unfold last_time in *. cbn [rev] in *.
      destruct (rev r' ++ [b]) as [|c cs] eqn:E; [destruct (rev r'); discriminate|].
      cbn. cbn in Ht. exact Ht.
  Qed.

  Definition inv12g (s : cstate) : Prop :=
    inv12 s /\ gapped (g_wire s) /\
    (forall a, nth_error (g_wire s) 0 = Some a -> fst a <= keepalive).

  Lemma inv12g_step s a s' : inv12g s -> ustep s a = Some s' -> inv12g s'.
  Proof.
    intros [I [G F]] H. split; [eapply inv12_step; eauto|].
    destruct I as [_ P].
    destruct a; crush_ustep H; try discriminate; try (split; assumption).
    (* the write *)
    unfold base in P. split.
    - apply gapped_app; [exact G|]. intros t Ht. rewrite Ht in P. cbn. lia.
    - intros a Ha. destruct (g_wire s) as [|w0 ws] eqn:Ew.
      + cbn in Ha. injection Ha as <-. cbn. unfold last_time in P. cbn in P. lia.
      + cbn in Ha. apply F. exact Ha.
  Qed.

  Theorem gaps_bounded cap l s :
    urun (init cap) l = Some s ->
    gapped (g_wire s) /\ (forall a, nth_error (g_wire s) 0 = Some a -> fst a <= keepalive).
  Proof.
    intro H.
    assert (I0 : inv12g (init cap)).
    { split; [apply inv12_init|]. split; [exact I|]. intros a Ha. discriminate. }
    exact (proj2 (urun_invariant inv12g inv12g_step l (init cap) s I0 H)).
  Qed.
End U.
