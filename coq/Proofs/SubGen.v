(* Reflection obligations over the generated subunit tables shared by C03, C05, C09, C10. *)
From Coq Require Import List NArith ZArith Bool.
From Ynca Require Import Base.Text Model.Enum Model.Conv Model.Subunit Model.Recorded.
From Ynca Require Import Gen.Enums Gen.Functions.
Import ListNotations.

Lemma gen_names_unique : forallb names_unique all_subunits = true.
Proof. vm_compute. reflexivity. Qed.

Lemma gen_ids_unique : nodup_text (map sc_id all_subunits) = true.
Proof. vm_compute. reflexivity. Qed.

Lemma gen_convs_known : all_convs_known all_subunits = true.
Proof. vm_compute. reflexivity. Qed.

Lemma names_unique_of sc : In sc all_subunits -> names_unique sc = true.
Proof. intro H. exact (proj1 (forallb_forall _ _) gen_names_unique sc H). Qed.
