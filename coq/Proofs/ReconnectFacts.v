From Coq Require Import List Arith Bool Lia.
From Ynca Require Import Model.Reconnect Gen.Params.
Import ListNotations.

(* ---------------------------------------------------------------- close() clears the old callback *)
Section Clears.
Variable c : rcfg.
Hypothesis Hclr : c_clears c = true.

Definition inv_clr (s : rst) : Prop :=
  r_user_calls s = O
  /\ (r_close_called s = true -> r_old_cb s = false)
  /\ match r_old s with
     | OLive => True
     | OGot b => b = false
     | OWrap => False
     | ODone => True
     end.

Lemma inv_clr_init : inv_clr rinit.
Proof. unfold inv_clr, rinit; cbn. repeat split; auto; discriminate. Qed.

Lemma inv_clr_step : forall s a s', inv_clr s -> rstep c s a = Some s' -> inv_clr s'.
Proof.
  intros s a s' (Hu & Hcb & Ho) H. unfold rstep in H.
  destruct a.
  - (* RClose *) inversion H; subst; clear H. unfold inv_clr; cbn. rewrite Hclr. repeat split; auto.
  - (* RConnect *) destruct (r_close_called s) eqn:E; [|discriminate]. inversion H; subst; clear H.
    unfold inv_clr; cbn. repeat split; auto.
  - (* ROldRead *) destruct (r_old s) eqn:E; try discriminate. destruct (r_close_called s) eqn:E2; [|discriminate].
    inversion H; subst; clear H. unfold inv_clr; cbn. repeat split; auto.
  - (* ROldCall *) destruct (r_old s) eqn:E; try discriminate. inversion H; subst; clear H.
    unfold inv_clr; cbn. repeat split; auto.
  - (* ROldWrapper *) destruct (r_old s) eqn:E; try discriminate. contradiction.
Qed.

Lemma inv_clr_run : forall tr s0 s1, inv_clr s0 -> rrun c s0 tr = Some s1 -> inv_clr s1.
Proof.
  intros tr. induction tr as [|a tr IH]; intros s0 s1 I H; cbn in H.
  - inversion H; subst; exact I.
  - destruct (rstep c s0 a) eqn:E; [|discriminate]. eapply IH; [|exact H]. eapply inv_clr_step; eauto.
Qed.

Theorem clears_no_user_call : forall tr s, rrun c rinit tr = Some s -> r_user_calls s = O.
Proof.
  intros tr s H. destruct (inv_clr_run tr rinit s inv_clr_init H) as (Hu & _). exact Hu.
Qed.
End Clears.

(* ---------------------------------------------------------------- the flag alone: enough only without a reconnect *)
Section FlagOnly.
Variable c : rcfg.
Hypothesis Hchk : c_wrapper_checks c = true.

Definition inv_flag (s : rst) : Prop :=
  r_user_calls s = O /\ r_reconnected s = false /\ (r_close_called s = true -> r_closed s = true)
  /\ (r_old s <> OLive -> r_close_called s = true).

Lemma inv_flag_step : forall s a s', a <> RConnect -> inv_flag s -> rstep c s a = Some s' -> inv_flag s'.
Proof.
  intros s a s' Hn (Hu & Hr & Hc & Ho) H. unfold rstep in H.
  destruct a; try congruence.
  - inversion H; subst; clear H. unfold inv_flag; cbn. repeat split; auto.
  - destruct (r_old s) eqn:E; try discriminate. destruct (r_close_called s) eqn:E2; [|discriminate].
    inversion H; subst; clear H. unfold inv_flag; cbn. repeat split; auto.
  - destruct (r_old s) eqn:E; try discriminate. inversion H; subst; clear H. unfold inv_flag; cbn.
    repeat split; auto. intros _. apply Ho. discriminate.
  - destruct (r_old s) eqn:E; try discriminate. inversion H; subst; clear H. unfold inv_flag; cbn.
    assert (Hcc : r_close_called s = true) by (apply Ho; discriminate).
    rewrite Hchk, (Hc Hcc). cbn. repeat split; auto.
Qed.

Lemma inv_flag_run : forall tr s0 s1, ~ In RConnect tr -> inv_flag s0 -> rrun c s0 tr = Some s1 -> inv_flag s1.
Proof.
  intros tr. induction tr as [|a tr IH]; intros s0 s1 Hn I H; cbn in H.
  - inversion H; subst; exact I.
  - destruct (rstep c s0 a) eqn:E; [|discriminate]. eapply IH; [| |exact H].
    + intro X; apply Hn; right; exact X.
    + eapply inv_flag_step; eauto. intro X; apply Hn; left; auto.
Qed.

Theorem flag_enough_without_reconnect :
  forall tr s, ~ In RConnect tr -> rrun c rinit tr = Some s -> r_user_calls s = O.
Proof.
  intros tr s Hn H.
  assert (I0 : inv_flag rinit) by (unfold inv_flag, rinit; cbn; repeat split; auto; try discriminate; congruence).
  destruct (inv_flag_run tr rinit s Hn I0 H) as (Hu & _). exact Hu.
Qed.
End FlagOnly.

(* ---------------------------------------------------------------- the flag alone, with a reconnect: refuted *)
Definition cfg_flag_only : rcfg := {| c_clears := false; c_wrapper_checks := true; c_rearms := true |}.

Theorem flag_only_refuted :
  exists tr s, rrun cfg_flag_only rinit tr = Some s /\ r_user_calls s = 1.
Proof.
  exists [RClose; RConnect; ROldRead; ROldCall; ROldWrapper]. eexists. split; [vm_compute; reflexivity|reflexivity].
Qed.

(* ---------------------------------------------------------------- what the code does today (regenerated) *)
Definition gen_rcfg : rcfg :=
  {| c_clears := p_close_clears_cb; c_wrapper_checks := p_wrapper_checks_closed; c_rearms := p_connect_rearms |}.

Lemma gen_close_clears : c_clears gen_rcfg = true.
Proof. reflexivity. Qed.

Lemma gen_wrapper_checks : c_wrapper_checks gen_rcfg = true.
Proof. reflexivity. Qed.
