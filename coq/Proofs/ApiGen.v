(* Reflection over the generated tables for the dialogue properties. *)
From Coq Require Import List NArith ZArith Bool.
From Ynca Require Import Base.Text Model.Enum Model.Conv Model.Line Model.Subunit Model.Api.
From Ynca Require Import Gen.Enums Gen.Functions Gen.Params.
Import ListNotations.

Lemma gen_plans_respect_noinit : forallb plan_respects_noinit all_subunits = true.
Proof. vm_compute. reflexivity. Qed.

Lemma gen_waits_are_timed : p_init_wait_known && p_detect_wait_known = true.
Proof. vm_compute. reflexivity. Qed.

(* every time-out of the start-up dialogue, of close() and of the connection check is a known positive
   constant (the translator emits -1 for a wait it cannot read) *)
Lemma gen_wait_constants :
  (0 < p_init_base /\ 0 < p_init_per_cmd /\ 0 < p_detect_base /\ 0 < p_detect_per_cmd /\
   0 < p_join_sender /\ 0 < p_join_reader /\ 0 < p_check_timeout)%Z.
Proof. vm_compute. repeat split. Qed.

(* every known subunit id has exactly one class, SYS among them; the Subunit enumeration and the classes agree *)
Lemma gen_ids_have_classes :
  forallb (fun id => match find_class all_subunits id with Some _ => true | None => false end) subunit_ids = true /\
  mem_text t_SYS (map sc_id all_subunits) = true.
Proof. vm_compute. split; reflexivity. Qed.

(* the worst-case virtual duration of a failing initialize() with every known subunit present *)
Definition worst_case_bound : Z :=
  phases_bound p_detect_base p_detect_per_cmd p_init_base p_init_per_cmd p_join_reader p_join_sender
               subunit_ids all_subunits.

Lemma worst_case_value : (worst_case_bound <= 300000000)%Z.   (* five minutes *)
Proof. vm_compute. discriminate. Qed.
