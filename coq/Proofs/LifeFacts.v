(* Invariants of the life-cycle machine (C15, C16), for every action list. *)
From Coq Require Import List NArith ZArith Bool Lia.
From Ynca Require Import Model.Life.
Import ListNotations.
Local Open Scope Z_scope.

Section F.
  Variable join_sender : Z.
  Variable join_reader : Z.
  Notation lstep := (lstep join_sender join_reader).
  Notation lrun := (lrun join_sender join_reader).

  Lemma lrun_invariant (P : lstate -> Prop) :
    (forall s a s', P s -> lstep s a = Some s' -> P s') ->
    forall l s s', P s -> lrun s l = Some s' -> P s'.
  Proof.
    intros Hstep l; induction l as [|a r IH]; intros s s' Hs H; cbn in H.
    - now injection H as <-.
    - destruct (lstep s a) as [s1|] eqn:E; [|discriminate].
      eapply IH; [|exact H]. eapply Hstep; eauto.
  Qed.

  Ltac crush H :=
    unfold Life.lstep, with_closed, set_rpc, set_closer, set_self, upd in H;
    repeat match type of H with
           | context [match ?x with _ => _ end] => destruct x eqn:?; try discriminate
           | context [if ?x then _ else _] => destruct x eqn:?; try discriminate
           end;
    try (injection H as <-); cbn in *.

  Definition past_lost (r : lrpc) : bool :=
    match r with LRun | LExit => false | _ => true end.

  Definition called (r : lrpc) : bool :=
    match r with LInCb | LDone => true | _ => false end.

  Lemma kfind_kset tid p l tid' :
    kfind tid' (kset tid p l) = if Nat.eqb tid' tid then Some p else kfind tid' l.
  Proof.
    induction l as [|[t p0] r IH]; cbn.
    - destruct (Nat.eqb tid tid') eqn:E; rewrite Nat.eqb_sym, E; reflexivity.
    - destruct (Nat.eqb t tid) eqn:E1; cbn.
      + apply Nat.eqb_eq in E1. subst t.
        destruct (Nat.eqb tid tid') eqn:E2; rewrite (Nat.eqb_sym tid' tid), E2; reflexivity.
      + destruct (Nat.eqb t tid') eqn:E2.
        * apply Nat.eqb_eq in E2. subst t.
          destruct (Nat.eqb tid' tid) eqn:E3; [congruence|reflexivity].
        * exact IH.
  Qed.

  (* A: the disconnect callback is invoked at most once, and only on the lost path *)
  Definition invA (s : lstate) : Prop :=
    (g_disc_calls s <= 1)%nat /\ (g_disc_calls s = 1%nat -> called (l_rpc s) = true) /\
    (called (l_rpc s) = false -> g_disc_calls s = O).

  Lemma invA_step s a s' : invA s -> lstep s a = Some s' -> invA s'.
  Proof.
    unfold invA. intros [A [B C]] H.
    destruct a; crush H;
      repeat match goal with E : l_rpc s = _ |- _ => rewrite E in B, C end; cbn in *;
      try (repeat split; first [assumption | lia | (intros; discriminate) | (intros; reflexivity) | auto]).
    all: try (specialize (C eq_refl); lia).
    all: try (destruct present; cbn; repeat split; auto; intros; try discriminate; try lia).
    all: try (rewrite Heql; cbn; intros; first [reflexivity|discriminate]).
  Qed.

  (* B: once cleared by a close() the callback stays cleared; it is never set again *)
  Definition invB (s : lstate) : Prop :=
    (g_cleared s = true -> l_cb s = false) /\ g_calls_after_clear s = O.

  Lemma invB_step s a s' : invB s -> lstep s a = Some s' -> invB s'.
  Proof.
    unfold invB. intros [A B] H.
    destruct a; crush H; try discriminate;
      try (match goal with G : g_cleared s = true |- _ => rewrite (A G) in *; discriminate end);
      (split; [first [exact A | intros _; reflexivity]|exact B]).
  Qed.

  (* D: connected is True exactly until connection_lost starts; no delivery starts afterwards *)
  Definition invD (s : lstate) : Prop :=
    l_connected s = negb (past_lost (l_rpc s)) /\ g_delivers_after_lost s = O.

  Lemma invD_step s a s' : invD s -> lstep s a = Some s' -> invD s'.
  Proof.
    unfold invD. intros [A B] H.
    destruct a; crush H;
      repeat match goal with E : l_rpc s = _ |- _ => rewrite E in A end; cbn in *;
      try (split; assumption); try (split; [reflexivity|assumption]).
    all: try (rewrite A; split; [reflexivity|assumption]).
    all: try (destruct present; split; cbn; auto).
    all: try (match goal with E : l_rpc _ = _ |- _ => rewrite E end; cbn; split; assumption).
  Qed.

  (* G: the port never re-opens, the reader is never re-armed; whoever is past its port-close step
     (and hence any close() that has returned) sees port closed, alive False, callback cleared *)
  Definition closer_past (p : kpc) : bool := match p with KUnlock | KDone => true | _ => false end.
  Definition closer_stopped (p : kpc) : bool :=
    match p with KJoinStart | KJoin _ | KPortClose | KUnlock | KDone => true | _ => false end.
  Definition closer_cleared (p : kpc) : bool := match p with KClr => false | _ => true end.
  Definition self_past (q : kself) : bool := match q with QUnlock => true | _ => false end.
  Definition self_stopped (q : kself) : bool := match q with QPortClose | QUnlock => true | _ => false end.
  Definition self_cleared (q : kself) : bool := match q with QNone | QClr => false | _ => true end.

  Definition invG (s : lstate) : Prop :=
    (forall tid p, kfind tid (l_closers s) = Some p ->
       l_closed s = true /\
       (closer_stopped p = true -> l_alive s = false) /\
       (closer_past p = true -> l_open s = false)) /\
    (l_self s <> QNone -> l_closed s = true) /\
    (self_stopped (l_self s) = true -> l_alive s = false) /\
    (self_past (l_self s) = true -> l_open s = false) /\
    (g_closed_returned s = true -> l_open s = false /\ l_alive s = false /\ l_closed s = true).

  Lemma invG_step s a s' : invG s -> lstep s a = Some s' -> invG s'.
  Proof.
    unfold invG. intros [K [S1 [S2 [S3 R]]]] H.
    destruct a; crush H; try discriminate;
      try match goal with Hf : kfind ?t (l_closers s) = Some ?p |- _ => pose proof (K t p Hf) as KK; cbn in KK end;
      repeat match goal with E : l_self s = _ |- _ => rewrite E in S1, S2, S3 end; cbn in *;
      (split;
       [ intros tid0 p0 Hk;
         first [ rewrite kfind_kset in Hk;
                 destruct (Nat.eqb tid0 _) eqn:Et;
                 [ injection Hk as <-; cbn; intuition (try discriminate; try congruence)
                 | specialize (K tid0 p0 Hk); cbn in *; intuition (try discriminate; try congruence) ]
               | specialize (K tid0 p0 Hk); cbn in *; intuition (try discriminate; try congruence) ]
       | cbn; intuition (try discriminate; try congruence) ]).
  Qed.

  (* U: the user's disconnect callback is only invoked while no close() has started; _closed never
     reverts; user-level invocations are a subset of protocol-level ones *)
  Lemma closed_freezes_user_calls s a s' :
    lstep s a = Some s' -> l_closed s = true -> l_closed s' = true /\ g_user_calls s' = g_user_calls s.
  Proof.
    intros H C. destruct a; crush H; try discriminate; try (split; [assumption|reflexivity]); try (split; reflexivity).
    all: try (rewrite C in *; split; [reflexivity|reflexivity]).
  Qed.

  Definition invU (s : lstate) : Prop := (g_user_calls s <= g_disc_calls s)%nat.

  Lemma invU_step s a s' : invU s -> lstep s a = Some s' -> invU s'.
  Proof.
    unfold invU. intros A H. destruct a; crush H; try discriminate; try exact A; lia.
  Qed.

  Lemma inv_init cb : invA (linit cb) /\ invB (linit cb) /\ invD (linit cb) /\ invG (linit cb).
  Proof.
    unfold invA, invB, invD, invG, linit; cbn.
    repeat split; try lia; try reflexivity; intros; try discriminate; try congruence.
  Qed.

  Theorem life_invariants cb l s :
    lrun (linit cb) l = Some s -> invA s /\ invB s /\ invD s /\ invG s.
  Proof.
    intro H. destruct (inv_init cb) as [A [B [D G]]].
    split; [exact (lrun_invariant invA invA_step l _ s A H)|].
    split; [exact (lrun_invariant invB invB_step l _ s B H)|].
    split; [exact (lrun_invariant invD invD_step l _ s D H)|].
    exact (lrun_invariant invG invG_step l _ s G H).
  Qed.

  (* the lost path never blocks without a finite deadline: from every state on it the reader's next
     action is enabled, after waiting at most until the join deadline *)
  Theorem lost_path_progress s :
    match l_rpc s with
    | LExit => exists s', lstep s LSetConnFalse = Some s'
    | LDrain => exists s', lstep s LDrainEmpty = Some s'
    | LPutExit => exists s', lstep s LEnqExit = Some s'
    | LJoinStart => exists s', lstep s (LJoinStartA (l_now s + join_sender)) = Some s'
    | LJoin dl => exists s1 s2, lstep s (LTick (Z.max 0 (dl - l_now s))) = Some s1 /\ lstep s1 LJoinEnd = Some s2
    | LGetCb => exists s', lstep s (LGetCbA (l_cb s)) = Some s'
    | LCall => exists s', lstep s (LGetCb2A (l_cb s)) = Some s'
    | LCall2 => exists s', lstep s LCallCb = Some s'
    | _ => True
    end.
  Proof.
    destruct (l_rpc s) eqn:E; try exact I; unfold Life.lstep, with_closed, set_rpc, upd; rewrite ?E; try (eexists; reflexivity).
    - rewrite Z.eqb_refl. eexists; reflexivity.
    - destruct (Z.leb_spec 0 (Z.max 0 (dl - l_now s))) as [_|C]; [|lia].
      eexists. eexists. split; [reflexivity|]. cbn.
      destruct (Z.leb_spec dl (l_now s + Z.max 0 (dl - l_now s))) as [_|C]; [|lia].
      rewrite orb_true_r. reflexivity.
    - rewrite eqb_reflx. eexists; reflexivity.
    - rewrite eqb_reflx. eexists; reflexivity.
  Qed.
End F.
