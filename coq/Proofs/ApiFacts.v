(* Facts about the dialogue models (C06, C07, C14, C17). *)
From Coq Require Import List NArith ZArith Bool Lia.
From Ynca Require Import Base.Text Model.Enum Model.Conv Model.Line Model.Subunit Model.Api.
From Ynca Require Import Proofs.SubunitFacts.
Import ListNotations.

(* ---------------------------------------------------------------- dedup *)
Lemma dedup_In seen l x : In x (dedup seen l) <-> In x l /\ ~ In x seen.
Proof.
  revert seen; induction l as [|y r IH]; intro seen; cbn; [tauto|].
  destruct (mem_text y seen) eqn:M.
  - apply mem_text_In in M. rewrite IH. split.
    + intros [A B]. split; [now right|exact B].
    + intros [[A|A] B]; [subst; contradiction|split; assumption].
  - assert (Hn : ~ In y seen) by (intro C; apply mem_text_In in C; congruence).
    cbn. rewrite IH. cbn. split.
    + intros [A|[A B]]; [subst; split; [now left|exact Hn]|split; [now right|tauto]].
    + intros [[A|A] B]; [now left|].
      destruct (list_eq_dec N.eq_dec y x) as [->|Hne]; [now left|right].
      split; [exact A|]. intros [C|C]; [congruence|contradiction].
Qed.

Lemma dedup_NoDup seen l : NoDup (dedup seen l).
Proof.
  revert seen; induction l as [|y r IH]; intro seen; cbn; [constructor|].
  destruct (mem_text y seen); [apply IH|].
  constructor; [|apply IH]. intro C. apply dedup_In in C as [_ C]. apply C. now left.
Qed.

(* ---------------------------------------------------------------- C06: the plan *)
Theorem plan_NoDup sc : NoDup (init_plan sc).
Proof. apply dedup_NoDup. Qed.

Theorem plan_sound sc q :
  In q (init_plan sc) <->
  exists f, In f (sc_funcs sc) /\ f_noinit f = false /\ q = init_query f.
Proof.
  unfold init_plan. rewrite dedup_In, in_map_iff. split.
  - intros [[f [E Hf]] _]. apply filter_In in Hf as [Hin Hn].
    exists f. repeat split; [exact Hin|now apply negb_true_iff in Hn|now symmetry].
  - intros [f [Hin [Hn ->]]]. split; [|intros []].
    exists f. split; [reflexivity|]. apply filter_In. split; [exact Hin|now rewrite Hn].
Qed.

Theorem submissions_shape sc :
  init_submissions sc =
    map (fun q => fmt_cmd (sc_id sc) q [c_q]) (init_plan sc) ++ [fmt_cmd t_SYS t_VERSION [c_q]] /\
  length (init_submissions sc) = S (length (init_plan sc)).
Proof. split; [reflexivity|]. unfold init_submissions. rewrite app_length, map_length. cbn. lia. Qed.

(* ---------------------------------------------------------------- C06: the barrier (sequential) *)
Section B.
  Variable pf : text -> option fnum.
  Variable pi : text -> option Z.
  Variable sc : subunit_class.

  Lemma on_msg_event st m st' n :
    on_msg pf pi sc st m = Ok (st', n) ->
    ss_event st' = ss_event st || (negb (ss_initialized st) && is_version m) /\
    ss_initialized st' = ss_initialized st.
  Proof.
    intro H. split; [|exact (proj1 (on_msg_notify pf pi sc st m st' n H))].
    unfold on_msg, handler_update, is_version in *.
    destruct m as [stt [[[s f] v]|]]; cbn [fst snd] in *.
    2: destruct stt; injection H as <- <-; now rewrite andb_false_r, orb_false_r.
    destruct stt.
    2,3: injection H as <- <-; now rewrite andb_false_r, orb_false_r.
    replace (negb (ss_initialized st) && (teqb s t_SYS && teqb f t_VERSION))
      with (negb (ss_initialized st) && teqb s t_SYS && teqb f t_VERSION) by (now rewrite andb_assoc).
    match type of H with context [if ?c then ?a else st] => set (b := c) in *; set (st1 := if b then a else st) in * end.
    assert (E1 : ss_event st1 = ss_event st || b).
    { unfold st1. destruct b; cbn; [now rewrite orb_true_r|now rewrite orb_false_r]. }
    destruct (negb (teqb (sc_id sc) s)); [injection H as <- <-; exact E1|].
    destruct (find_func sc f) as [fn|]; [|injection H as <- <-; exact E1].
    destruct (to_value pf pi (f_conv fn) v); injection H as <- <-; exact E1.
  Qed.

  (* while the subunit is not initialised, the event is set exactly by a SYS:VERSION message *)
  Theorem event_set_by_version h : forall st st' ns,
    ss_initialized st = false ->
    run pf pi sc st h = Ok (st', ns) ->
    ss_event st' = ss_event st || existsb is_version h.
  Proof.
    induction h as [|m r IH]; intros st st' ns Hi H; cbn in H.
    - injection H as <- <-. now rewrite orb_false_r.
    - destruct (on_msg pf pi sc st m) as [[st1 n]|] eqn:E; [|discriminate].
      destruct (run pf pi sc st1 r) as [[st2 ns2]|] eqn:E2; [|discriminate].
      injection H as <- <-.
      destruct (on_msg_event st m st1 n E) as [A B].
      rewrite (IH st1 st2 ns2 (eq_trans B Hi) E2), A, Hi. cbn. now rewrite orb_assoc.
  Qed.

  (* the barrier: with the event clear at entry, when the event is found set a VERSION message has been
     processed, and every message received before it has been completely processed: the state then
     reflects all of them (C03 applies to that prefix) *)
  Theorem barrier h st st' ns :
    ss_initialized st = false -> ss_event st = false ->
    run pf pi sc st h = Ok (st', ns) -> ss_event st' = true ->
    exists h1 v h2 st1 n1,
      h = h1 ++ v :: h2 /\ is_version v = true /\ existsb is_version h1 = false /\
      run pf pi sc st h1 = Ok (st1, n1) /\ ss_event st1 = false.
  Proof.
    revert st st' ns; induction h as [|m r IH]; intros st st' ns Hi He H Hs; cbn in H.
    - injection H as <- <-. congruence.
    - destruct (on_msg pf pi sc st m) as [[st1 n]|] eqn:E; [|discriminate].
      destruct (run pf pi sc st1 r) as [[st2 ns2]|] eqn:E2; [|discriminate].
      injection H as <- <-.
      destruct (on_msg_event st m st1 n E) as [A B].
      destruct (is_version m) eqn:V.
      + exists [], m, r, st, []. cbn. repeat split; auto.
      + rewrite He, Hi in A. try rewrite V in A. cbn in A.
        destruct (IH st1 st2 ns2 (eq_trans B Hi) A E2 Hs) as [h1 [v [h2 [sta [na [Eh [Vv [Nv [Ra Ea]]]]]]]]].
        exists (m :: h1), v, h2, sta, (match n with Some x => x :: na | None => na end).
        cbn. rewrite Eh, V, Nv, E, Ra. repeat split; auto.
  Qed.
End B.

(* ---------------------------------------------------------------- C07: what is exposed *)
Lemma filter_map_t_In {A} (f : A -> option text) l x :
  In x (filter_map_t f l) <-> exists a, In a l /\ f a = Some x.
Proof.
  induction l as [|a r IH]; cbn; [split; [intros []|intros [a [[] _]]]|].
  destruct (f a) as [b|] eqn:E; cbn; rewrite IH; split.
  - intros [->|[a' [H1 H2]]]; [exists a; split; [now left|exact E]|exists a'; split; [now right|exact H2]].
  - intros [a' [[->|H1] H2]]; [left; congruence|right; exists a'; split; assumption].
  - intros [a' [H1 H2]]. exists a'. split; [now right|exact H2].
  - intros [a' [[->|H1] H2]]; [congruence|exists a'; split; assumption].
Qed.

Theorem exposed_spec scs h id :
  In id (exposed scs h) <->
  id = t_SYS \/
  ((exists sc, find_class scs id = Some sc) /\
   exists st f v, In (st, Some (id, f, v)) h /\ f = t_AVAIL).
Proof.
  unfold exposed. cbn. rewrite filter_In. unfold detected. rewrite dedup_In, filter_map_t_In.
  split.
  - intros [H|[[[m [Hm Ha]] _] Hk]]; [left; now symmetry|right]. split.
    + destruct (find_class scs id) as [sc|]; [eexists; reflexivity|discriminate].
    + unfold avail_of in Ha. destruct m as [st [[[s f] v]|]]; cbn in Ha; [|discriminate].
      destruct (teqb f t_AVAIL) eqn:E; [|discriminate]. injection Ha as ->. apply teqb_eq in E.
      exists st, f, v. split; [exact Hm|exact E].
  - intros [->|[[sc Hk] [st [f [v [Hm ->]]]]]]; [now left|right]. split.
    + split; [|intros []]. exists (st, Some (id, t_AVAIL, v)). split; [exact Hm|].
      unfold avail_of. cbn. reflexivity.
    + now rewrite Hk.
Qed.

Lemma find_class_id scs id sc : find_class scs id = Some sc -> sc_id sc = id /\ In sc scs.
Proof. unfold find_class. intro H. apply find_some in H as [A B]. apply teqb_eq in B. now split. Qed.

(* ---------------------------------------------------------------- C14: the bound is a sum of finite waits *)
Lemma sum_bounded (ds ts : list Z) :
  Forall2 (fun d t => (d <= t)%Z) ds ts -> (fold_right Z.add 0 ds <= fold_right Z.add 0 ts)%Z.
Proof. induction 1; cbn; lia. Qed.

(* ---------------------------------------------------------------- C17: connection_check *)
Definition is_probe_reply (m : msg) : bool :=
  match fst m, snd m with
  | StOK, Some (s, f, _) => teqb s t_SYS && teqb f t_MODELNAME
  | _, _ => false
  end.

Definition zone_reply (m : msg) : bool :=          (* value or error answer to an AVAIL query *)
  match fst m, snd m with
  | StOK, Some (_, f, _) => teqb f t_AVAIL
  | StOK, None => false
  | _, _ => true
  end.

Definition zones_with_value (h : list msg) : list text := filter_map_t avail_of h.

Lemma cc_step_probe s m :
  is_probe_reply m = true -> (0 < cc_needed s)%Z -> cc_step s m = s.
Proof.
  unfold is_probe_reply, cc_step. destruct m as [st [[[sub f] v]|]]; cbn; try discriminate.
  2: (destruct st; discriminate).
  destruct st; try discriminate. intros H Hn. apply andb_true_iff in H as [A B].
  apply teqb_eq in A. apply teqb_eq in B. subst.
  change (teqb t_MODELNAME t_AVAIL) with false. cbn.
  destruct (Z.leb_spec (cc_needed s) 0); [lia|]. destruct s; reflexivity.
Qed.

(* late keep-alive replies before the zone answers are ignored, however many there are *)
Lemma cc_run_probes pre : forall s rest,
  forallb is_probe_reply pre = true -> (0 < cc_needed s)%Z -> cc_model s = None ->
  cc_run s (pre ++ rest) = cc_run s rest.
Proof.
  induction pre as [|m r IH]; intros s rest H Hn Hm; [reflexivity|].
  cbn in H. apply andb_true_iff in H as [H1 H2]. cbn [app cc_run].
  rewrite (cc_step_probe s m H1 Hn), Hm. now apply IH.
Qed.

(* messages as the line parser produces them: an error status carries no fields *)
Definition msg_wf (m : msg) : Prop := fst m <> StOK -> snd m = None.

Lemma parse_line_wf l : msg_wf (parse_line l).
Proof.
  unfold msg_wf, parse_line, line_status. cbn [fst snd].
  destruct (teqb l t_at_UNDEFINED) eqn:E1.
  - intros _. apply teqb_eq in E1. subst. reflexivity.
  - destruct (teqb l t_at_RESTRICTED) eqn:E2; [|intro C; now contradiction C].
    intros _. apply teqb_eq in E2. subst. reflexivity.
Qed.

Lemma cc_step_zone s m :
  msg_wf m -> zone_reply m = true -> is_probe_reply m = false ->
  cc_step s m = {| cc_zones := cc_zones s ++ (match avail_of m with Some z => [z] | None => [] end);
                   cc_needed := (cc_needed s - 1)%Z; cc_model := cc_model s |}.
Proof.
  unfold msg_wf, zone_reply, is_probe_reply, cc_step, avail_of.
  destruct m as [st [[[sub f] v]|]]; cbn; intros W H P.
  - destruct st; [|specialize (W ltac:(discriminate)); discriminate|specialize (W ltac:(discriminate)); discriminate].
    apply teqb_eq in H. subst f. cbn.
    change (teqb t_AVAIL t_MODELNAME) with false. now rewrite andb_false_r.
  - destruct st; try discriminate; cbn; now rewrite app_nil_r.
Qed.

(* C17: whatever number of late keep-alive replies precedes them, after the four zone answers (value or
   error) the next SYS:MODELNAME message is accepted, with exactly the zones that answered with a value *)
Theorem connection_check_result pre z1 z2 z3 z4 s f v post :
  forallb is_probe_reply pre = true ->
  Forall (fun z => msg_wf z /\ zone_reply z = true /\ is_probe_reply z = false) [z1; z2; z3; z4] ->
  teqb s t_SYS = true -> teqb f t_MODELNAME = true ->
  let r := cc_run cc_init (pre ++ [z1; z2; z3; z4] ++ (StOK, Some (s, f, v)) :: post) in
  cc_model r = Some v /\ cc_zones r = zones_with_value [z1; z2; z3; z4].
Proof.
  intros Hpre Hz Hs Hf r. unfold r.
  rewrite cc_run_probes; [|exact Hpre|cbn; lia|reflexivity].
  inversion Hz as [|? ? [W1 [Z1 P1]] Hz2]; subst.
  inversion Hz2 as [|? ? [W2 [Z2 P2]] Hz3]; subst.
  inversion Hz3 as [|? ? [W3 [Z3 P3]] Hz4]; subst.
  inversion Hz4 as [|? ? [W4 [Z4 P4]] _]; subst.
  cbn [app cc_run].
  rewrite (cc_step_zone cc_init z1 W1 Z1 P1). cbn [cc_model cc_zones cc_needed cc_init].
  rewrite (cc_step_zone _ z2 W2 Z2 P2). cbn [cc_model cc_zones cc_needed].
  rewrite (cc_step_zone _ z3 W3 Z3 P3). cbn [cc_model cc_zones cc_needed].
  rewrite (cc_step_zone _ z4 W4 Z4 P4). cbn [cc_model cc_zones cc_needed].
  unfold cc_step. cbn [fst snd cc_zones cc_needed cc_model].
  apply teqb_eq in Hs. apply teqb_eq in Hf. subst s f.
  change (teqb t_MODELNAME t_AVAIL) with false. cbn.
  split; [reflexivity|].
  unfold zones_with_value. cbn.
  destruct (avail_of z1), (avail_of z2), (avail_of z3), (avail_of z4); reflexivity.
Qed.

(* and without a SYS:MODELNAME message nothing is accepted: the wait runs into its time-out *)
Lemma cc_step_no_model s m :
  msg_wf m -> is_probe_reply m = false -> cc_model s = None -> cc_model (cc_step s m) = None.
Proof.
  unfold msg_wf, cc_step, is_probe_reply. destruct m as [st [[[sub f] v]|]]; cbn; intros W P Hm.
  - destruct st; [|specialize (W ltac:(discriminate)); discriminate|specialize (W ltac:(discriminate)); discriminate].
    rewrite P. cbn. destruct (teqb f t_AVAIL); exact Hm.
  - destruct st; exact Hm.
Qed.

Theorem connection_check_no_model h :
  Forall (fun m => msg_wf m /\ is_probe_reply m = false) h -> cc_model (cc_run cc_init h) = None.
Proof.
  assert (G : forall h s, cc_model s = None ->
              Forall (fun m => msg_wf m /\ is_probe_reply m = false) h -> cc_model (cc_run s h) = None).
  { induction h0 as [|m r IH]; intros s Hm H; [exact Hm|].
    inversion H as [|? ? [W P] Hr]; subst. cbn [cc_run].
    pose proof (cc_step_no_model s m W P Hm) as Hs. rewrite Hs. now apply IH. }
  intro H. now apply G.
Qed.
