(* More about the test server: what a PUT can change (the "unrelated stored values" clause of C19), and
   that no command ever adds or removes a key. *)
From Coq Require Import List NArith ZArith Bool.
From Ynca Require Import Base.Text Model.Enum Model.Line Model.ServerNames Model.Server.
From Ynca Require Import Proofs.ServerFacts.
Import ListNotations.

(* put_data touches at most the one key it is given *)
Lemma put_data_frame st s f v r ch st' :
  put_data st s f v = (r, ch, st') ->
  forall s0 f0, (s0 <> s \/ f0 <> f) -> get_data st' s0 f0 = get_data st s0 f0.
Proof.
  unfold put_data. destruct (assoc s st) as [fs|] eqn:E1; [|intros [= <- <- <-]; reflexivity].
  destruct (assoc f fs) as [old|] eqn:E2; [|intros [= <- <- <-]; reflexivity].
  intros [= <- <- <-] s0 f0 Hne. destruct (negb (is_err v)); [|reflexivity].
  unfold get_data.
  destruct (list_eq_dec N.eq_dec s0 s) as [->|Hs].
  - rewrite assoc_set_same, E1. destruct Hne as [C|Hf]; [contradiction|].
    now rewrite (assoc_set_other f f0 v fs Hf).
  - now rewrite (assoc_set_other s s0 _ st Hs).
Qed.

(* ... and only writes a key that exists: the set of keys never changes *)
Definition keys (st : store) : list (text * list text) := map (fun p => (fst p, map fst (snd p))) st.

Lemma set_assoc_keys {A} k (v : A) l : assoc k l <> None -> map fst (set_assoc k v l) = map fst l.
Proof.
  induction l as [|[k' v'] r IH]; cbn; [congruence|].
  destruct (teqb k k') eqn:E; [reflexivity|]. intro H. cbn. now rewrite IH.
Qed.

Lemma put_data_keys st s f v r ch st' : put_data st s f v = (r, ch, st') -> keys st' = keys st.
Proof.
  unfold put_data. destruct (assoc s st) as [fs|] eqn:E1; [|intros [= <- <- <-]; reflexivity].
  destruct (assoc f fs) as [old|] eqn:E2; [|intros [= <- <- <-]; reflexivity].
  intros [= <- <- <-]. destruct (negb (is_err v)); [|reflexivity].
  assert (Hf : map fst (set_assoc f v fs) = map fst fs) by (apply set_assoc_keys; congruence).
  unfold keys. clear E2. revert E1.
  induction st as [|[k' fs'] rest IH]; cbn; [discriminate|].
  destruct (teqb s k') eqn:E.
  - intros [= ->]. cbn. now rewrite Hf.
  - intro E1. cbn. f_equal. now apply IH.
Qed.

Section M.
  Variable multi : list (text * list text).
  Variable related : list (text * list text).
  Variable inp_map : list (text * list text).
  Variable zones : list text.
  Variable py_float : text -> option fl.
  Variable py_int : text -> option Z.
  Variable py_str_float : Z * positive -> text.
  Variable c : cfg.

  Lemma zone_fold_keys f1 v zs : forall st out st' out',
    fold_left (zone_step f1 v) zs (st, out) = (st', out') -> keys st' = keys st.
  Proof.
    induction zs as [|z r IH]; intros st out st' out'; cbn [fold_left].
    - now intros [= <- <-].
    - unfold zone_step at 2. destruct (put_data st z f1 v) as [[r0 ch] sty] eqn:P.
      intro H. rewrite (IH _ _ _ _ H). eapply put_data_keys; eauto.
  Qed.

  Lemma zone_fold_frame f1 v zs : forall st out st' out',
    fold_left (zone_step f1 v) zs (st, out) = (st', out') ->
    forall s0 f0, f0 <> f1 -> get_data st' s0 f0 = get_data st s0 f0.
  Proof.
    induction zs as [|z r IH]; intros st out st' out'; cbn [fold_left].
    - now intros [= <- <-].
    - unfold zone_step at 2. destruct (put_data st z f1 v) as [[r0 ch] sty] eqn:P.
      intros H s0 f0 Hne. rewrite (IH _ _ _ _ H s0 f0 Hne). eapply put_data_frame; eauto.
  Qed.

  Lemma report_at_keys st s1 f1 v : keys (fst (report_at c related zones st s1 f1 v)) = keys st.
  Proof.
    unfold report_at. cbn zeta. destruct (teqb f1 s_PWR); [|reflexivity].
    destruct (teqb s1 s_SYS).
    - destruct (fold_left (zone_step f1 v) zones (st, [])) as [st2 out2] eqn:F.
      destruct (put_data st2 (last zones []) s_PWRB v) as [[r ch] st3] eqn:P. cbn [fst].
      rewrite (put_data_keys _ _ _ _ _ _ _ P). eapply zone_fold_keys; eauto.
    - destruct (mem_text s1 zones); [|reflexivity].
      match goal with |- context [put_data st s_SYS f1 ?sv] => destruct (put_data st s_SYS f1 sv) as [[r ch] st2] eqn:P end.
      cbn [fst]. eapply put_data_keys; eauto.
  Qed.

  (* a report on a function other than PWR changes nothing; a PWR report only writes PWR / PWRB keys *)
  Lemma report_at_frame st s1 f1 v s0 f0 :
    (teqb f1 s_PWR = false \/ (f0 <> s_PWR /\ f0 <> s_PWRB)) ->
    get_data (fst (report_at c related zones st s1 f1 v)) s0 f0 = get_data st s0 f0.
  Proof.
    intro H. unfold report_at. cbn zeta. destruct (teqb f1 s_PWR) eqn:E; [|reflexivity].
    destruct H as [H|[H1 H2]]; [discriminate|]. apply teqb_eq in E. subst f1.
    destruct (teqb s1 s_SYS).
    - destruct (fold_left (zone_step s_PWR v) zones (st, [])) as [st2 out2] eqn:F.
      destruct (put_data st2 (last zones []) s_PWRB v) as [[r ch] st3] eqn:P. cbn [fst].
      rewrite (put_data_frame _ _ _ _ _ _ _ P s0 f0) by (right; exact H2).
      eapply zone_fold_frame; eauto.
    - destruct (mem_text s1 zones); [|reflexivity].
      match goal with |- context [put_data st s_SYS s_PWR ?sv] => destruct (put_data st s_SYS s_PWR sv) as [[r ch] st2] eqn:P end.
      cbn [fst]. eapply put_data_frame; [exact P|right; exact H1].
  Qed.

  Lemma report_target_fn st s f v s1 f1 :
    report_target c inp_map zones st s f v = Ok (Some (s1, f1)) -> f1 = f \/ f1 = s_PLAYBACKINFO.
  Proof.
    unfold report_target. destruct (teqb f s_PLAYBACK).
    - destruct (negb _); [discriminate|]. destruct (mem_text s zones).
      + destruct (assoc _ inp_map) as [[|sub r]|]; try discriminate.
        * intros [= <- <-]. now right.
        * destruct (g_pb_guard c); discriminate.
      + intros [= <- <-]. now right.
    - intros [= <- <-]. now left.
  Qed.

  (* C19, "stored values of unrelated functions": whatever the line, a PUT never adds or removes a key, and
     it leaves every value alone except the one it names -- and, when the function is PWR, PWR / PWRB keys *)
  Theorem handle_put_keys st s f v st' out :
    handle_put c related inp_map zones py_float py_int py_str_float st s f v = Ok (st', out) -> keys st' = keys st.
  Proof.
    unfold handle_put.
    destruct (teqb s s_SYS && teqb f s_REMOTECODE); [now intros [= <- <-]|].
    destruct (teqb f s_MEM); [now intros [= <- <-]|].
    destruct (put_value c py_float py_int py_str_float st s f v) as [[v1|]|]; [| |discriminate].
    2:{ now intros [= <- <-]. }
    destruct (put_data st s f v1) as [[r ch] st1] eqn:P.
    pose proof (put_data_keys _ _ _ _ _ _ _ P) as K1.
    destruct r; [now intros [= <- <-]|]. destruct ch; [|now intros [= <- <-]].
    unfold put_report. destruct (report_target c inp_map zones st1 s f v1) as [[[s1 f1]|]|]; [| |discriminate].
    - intros [= E]. rewrite <- K1. pose proof (report_at_keys st1 s1 f1 v1) as K2. rewrite E in K2. exact K2.
    - now intros [= <- <-].
  Qed.

  Theorem handle_put_frame st s f v st' out :
    handle_put c related inp_map zones py_float py_int py_str_float st s f v = Ok (st', out) ->
    forall s0 f0, (s0 <> s \/ f0 <> f) ->
    (teqb f s_PWR = false \/ (f0 <> s_PWR /\ f0 <> s_PWRB)) ->
    get_data st' s0 f0 = get_data st s0 f0.
  Proof.
    unfold handle_put.
    destruct (teqb s s_SYS && teqb f s_REMOTECODE); [now intros [= <- <-]|].
    destruct (teqb f s_MEM); [now intros [= <- <-]|].
    destruct (put_value c py_float py_int py_str_float st s f v) as [[v1|]|]; [| |discriminate].
    2:{ now intros [= <- <-]. }
    destruct (put_data st s f v1) as [[r ch] st1] eqn:P.
    pose proof (put_data_frame _ _ _ _ _ _ _ P) as F1.
    destruct r; [intros [= <- <-] s0 f0 H _; now apply F1|].
    destruct ch; [|intros [= <- <-] s0 f0 H _; now apply F1].
    unfold put_report. destruct (report_target c inp_map zones st1 s f v1) as [[[s1 f1]|]|] eqn:R; [| |discriminate].
    - intros [= E] s0 f0 H Hp. rewrite <- (F1 s0 f0 H).
      pose proof (report_at_frame st1 s1 f1 v1 s0 f0) as F2. rewrite E in F2. cbn [fst] in F2. apply F2.
      destruct (report_target_fn _ _ _ _ _ _ R) as [->| ->]; [exact Hp|left; reflexivity].
    - intros [= <- <-] s0 f0 H _. now apply F1.
  Qed.

  (* a GET changes nothing at all; an unparsable line changes nothing *)
  Theorem srv_keys st line st' out :
    srv c multi related inp_map zones py_float py_int py_str_float st line = Ok (st', out) -> keys st' = keys st.
  Proof.
    unfold srv. destruct (line_to_command line) as [[[s f] v]|]; [|now intros [= <- <-]].
    destruct (teqb v s_q).
    - destruct (handle_get c multi st s f); [now intros [= <- <-]|discriminate].
    - apply handle_put_keys.
  Qed.

  Theorem srv_run_keys lines : forall st st' outs,
    srv_run c multi related inp_map zones py_float py_int py_str_float st lines = Ok (st', outs) -> keys st' = keys st.
  Proof.
    induction lines as [|l r IH]; intros st st' outs; cbn [srv_run]; [now intros [= <- <-]|].
    destruct (srv_bytes c multi related inp_map zones py_float py_int py_str_float st l) as [[st1 out]|] eqn:E; [|discriminate].
    destruct (srv_run c multi related inp_map zones py_float py_int py_str_float st1 r) as [[st2 outs2]|] eqn:E2; [|discriminate].
    intros [= <- <-]. rewrite (IH _ _ _ E2).
    unfold srv_bytes in E. destruct (negb (g_lenient c) && _); [discriminate|]. eapply srv_keys; eauto.
  Qed.
End M.
