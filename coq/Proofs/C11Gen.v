(* C11: the encoder of every stepped shape produces step_fmt; reflection over the generated tables. *)
From Coq Require Import List NArith ZArith Bool Lia.
From Ynca Require Import Base.Text Base.Decimal Model.Enum Model.Conv Model.Step Model.Put Model.StepSpec.
From Ynca Require Import Proofs.StepFacts.
From Ynca Require Import Gen.Enums Gen.Functions.
Import ListNotations.

Lemma tostr_step_num ts v n d dec sn sd :
  numeric_arg v = true -> num_of v = Some (n, d) -> tostr_step ts = Some (dec, sn, sd) ->
  tostr_apply ts v = Some (Ok (step_fmt n d sn sd dec)).
Proof.
  intros Hv Hn Hs. destruct ts; try discriminate. cbn in Hs. injection Hs as -> -> ->.
  destruct v; try discriminate; cbn in *; injection Hn as <- <-; reflexivity.
Qed.

(* For every stepped shape and every numeric argument the encoder yields exactly stepped_wire. *)
Lemma stepped_encode pf pi c v n d t :
  stepped_shape_ok c = true -> numeric_arg v = true -> num_of v = Some (n, d) ->
  stepped_wire c n d = Some t ->
  conv_to_str pf pi c v = Some (Ok t).
Proof.
  intros Hs Hv Hn Hw.
  destruct c as [e|mn mx|ts|ts|ts|cs|]; try discriminate.
  - (* CInt *)
    destruct ts as [|dec sn sd|lit n0 d0|]; try discriminate.
    cbn in Hw. injection Hw as <-.
    destruct v; try discriminate; cbn in *; injection Hn as <- <-; reflexivity.
  - (* CFloat *)
    destruct ts as [|dec sn sd|lit n0 d0|]; try discriminate.
    cbn in Hw. injection Hw as <-.
    destruct v; try discriminate; cbn in *; try (injection Hn as <- <-; reflexivity).
    rewrite Hv. injection Hn as <- <-. reflexivity.
  - (* CMulti *)
    destruct cs as [|c1 [|c2 [|c3 r]]]; try discriminate.
    + destruct c1 as [| | | |ts1| |]; try discriminate; destruct ts1; discriminate.
    + destruct c1 as [| | | |ts1| |]; try discriminate.
      destruct ts1 as [|dec sn sd|lit n0 d0|]; try discriminate.
      * (* [CFloat TSStep; CEnum] *)
        destruct c2; try discriminate.
        cbn in Hw. injection Hw as <-.
        destruct v; try discriminate; cbn in *; try (injection Hn as <- <-; reflexivity).
        rewrite Hv. injection Hn as <- <-. reflexivity.
      * (* [CFloat TSOnly; CFloat TSStep] *)
        destruct c2 as [| | | |ts2| |]; try discriminate.
        destruct ts2 as [|dec sn sd| |]; try discriminate.
        cbn in Hw.
        destruct v; try discriminate; cbn in *.
        -- rewrite Hv. cbn. injection Hn as <- <-.
           destruct (rat_eqb (z, 1%positive) n0 d0); injection Hw as <-; reflexivity.
        -- injection Hn as <- <-.
           destruct (rat_eqb ((if b then 1%Z else 0%Z), 1%positive) n0 d0); injection Hw as <-; reflexivity.
        -- injection Hn as <- <-.
           destruct (rat_eqb (n1, d1) n0 d0); injection Hw as <-; reflexivity.
    + destruct c1 as [| | | |ts1| |]; try discriminate; destruct ts1; try discriminate;
        destruct c2; try discriminate; destruct ts; discriminate.
Qed.

Lemma gen_steps_ok : all_steps_ok all_subunits = true.
Proof. vm_compute. reflexivity. Qed.

Lemma gen_func_step_ok sc f :
  In sc all_subunits -> In f (sc_funcs sc) -> func_step_ok f = true.
Proof.
  intros Hsc Hf.
  pose proof (proj1 (forallb_forall _ _) gen_steps_ok sc Hsc) as H.
  exact (proj1 (forallb_forall _ _) H f Hf).
Qed.

Lemma func_step_ok_wf f dec sn sd :
  func_step_ok f = true -> conv_step (f_conv f) = Some (dec, sn, sd) ->
  step_wf sn sd dec = true /\ stepped_shape_ok (f_conv f) = true.
Proof.
  unfold func_step_ok. intros H E. rewrite E in H.
  apply andb_true_iff in H as [H _]. apply andb_true_iff in H as [H _].
  apply andb_true_iff in H as [H1 H2]. now split.
Qed.

(* a stepped attribute assignment sends exactly one PUT carrying stepped_wire *)
Lemma stepped_assign pf pi sc f v n d t :
  In sc all_subunits -> In f (sc_funcs sc) ->
  find_attr sc (f_attr f) = Some f -> f_put f = true ->
  numeric_arg v = true -> num_of v = Some (n, d) ->
  stepped_wire (f_conv f) n d = Some t ->
  set_attr pf pi sc (f_attr f) v = Some (Ok [(sc_id sc, f_name f, t)]).
Proof.
  intros Hsc Hf Hfind Hput Hv Hn Hw.
  unfold set_attr. rewrite Hfind, Hput. cbn [negb].
  assert (S : stepped_shape_ok (f_conv f) = true).
  { unfold stepped_wire in Hw. destruct (conv_step (f_conv f)) as [[[dec sn] sd]|] eqn:E; [|discriminate].
    exact (proj2 (func_step_ok_wf f dec sn sd (gen_func_step_ok sc f Hsc Hf) E)). }
  rewrite (stepped_encode pf pi (f_conv f) v n d t S Hv Hn Hw). reflexivity.
Qed.

(* attribute names are unique within a class, so find_attr finds the function itself *)
Definition attrs_unique (sc : subunit_class) : bool := nodup_text (map f_attr (sc_funcs sc)).

Lemma gen_attrs_unique : forallb attrs_unique all_subunits = true.
Proof. vm_compute. reflexivity. Qed.

Lemma find_attr_self sc f :
  attrs_unique sc = true -> In f (sc_funcs sc) -> find_attr sc (f_attr f) = Some f.
Proof.
  unfold attrs_unique, find_attr. intro H. apply nodup_text_NoDup in H.
  induction (sc_funcs sc) as [|g r IH]; [intros []|].
  cbn in H. inversion H as [|? ? Hnotin Hnd]; subst. intros [->|Hin]; cbn.
  - now rewrite teqb_refl.
  - destruct (teqb (f_attr g) (f_attr f)) eqn:E.
    + apply teqb_eq in E. exfalso. apply Hnotin. rewrite E. now apply in_map.
    + now apply IH.
Qed.
