(* Progress measure of the life-cycle machine: the reader thread, once it has left its loop, terminates after at
   most nine further steps of its own plus the drain of the queue, whatever the other threads do (C15:
   "both library threads terminate"; the waits on the way have finite deadlines: LifeFacts.lost_path_progress). *)
From Coq Require Import List NArith ZArith Bool Lia.
From Ynca Require Import Model.Life Proofs.LifeFacts.
Import ListNotations.
Local Open Scope nat_scope.

Definition rank (r : lrpc) : nat :=
  match r with
  | LRun => 10 | LExit => 9 | LDrain => 8 | LPutExit => 7 | LJoinStart => 6 | LJoin _ => 5
  | LGetCb => 4 | LCall => 3 | LCall2 => 2 | LInCb => 1 | LDone => 0
  end.

(* the reader's own steps that make progress (the drain self-loop and time steps are not among them) *)
Definition reader_progress (a : laction) : bool :=
  match a with
  | LLoopExit | LSetConnFalse | LDrainEmpty | LEnqExit | LJoinStartA _ | LJoinEnd
  | LGetCbA _ | LGetCb2A _ | LCallCb => true
  | _ => false
  end.

Section R.
  Variable join_sender : Z.
  Variable join_reader : Z.
  Notation lstep := (lstep join_sender join_reader).
  Notation lrun := (lrun join_sender join_reader).

  Ltac crush H :=
    unfold Life.lstep, with_closed, set_rpc, set_closer, set_self, upd in H;
    repeat match type of H with
           | context [match ?x with _ => _ end] => destruct x eqn:?; try discriminate
           | context [if ?x then _ else _] => destruct x eqn:?; try discriminate
           end;
    try (injection H as <-); cbn in *.

  (* nobody ever moves the reader backwards *)
  Theorem rank_monotone s a s' : lstep s a = Some s' -> rank (l_rpc s') <= rank (l_rpc s).
  Proof.
    intro H. destruct a; crush H;
      repeat match goal with E : l_rpc s = _ |- _ => rewrite E end; cbn; lia.
  Qed.

  (* each progress step of the reader moves it strictly forward *)
  Theorem rank_strict s a s' : reader_progress a = true -> lstep s a = Some s' -> rank (l_rpc s') < rank (l_rpc s).
  Proof.
    intros P H. destruct a; try discriminate P; crush H;
      repeat match goal with E : l_rpc s = _ |- _ => rewrite E end; cbn; lia.
  Qed.

  (* the last step: leaving the disconnect callback ends the thread *)
  Theorem finish_ends s s' : l_rpc s = LInCb -> lstep s LFinish = Some s' -> l_rpc s' = LDone.
  Proof. intros E H. crush H; congruence. Qed.

  (* hence: in EVERY run, with any interleaving of sender, closers and time, the reader takes at most
     rank-many progress steps: at most ten from the read loop, nine once the loop is left *)
  Theorem reader_steps_bounded acts : forall s s',
    lrun s acts = Some s' ->
    length (filter reader_progress acts) + rank (l_rpc s') <= rank (l_rpc s).
  Proof.
    induction acts as [|a r IH]; intros s s' H; cbn in H.
    - injection H as <-. cbn. lia.
    - destruct (lstep s a) as [s1|] eqn:E; [|discriminate].
      specialize (IH s1 s' H). cbn [filter].
      destruct (reader_progress a) eqn:P.
      + pose proof (rank_strict s a s1 P E). cbn [length]. lia.
      + pose proof (rank_monotone s a s1 E). lia.
  Qed.

  Corollary reader_steps_at_most_ten cb acts s' :
    lrun (linit cb) acts = Some s' -> length (filter reader_progress acts) <= 10.
  Proof. intro H. pose proof (reader_steps_bounded acts _ _ H) as B. cbn in B. lia. Qed.

  (* once the thread has ended it stays ended, and it never returns to its loop once it has left it *)
  Corollary done_is_final acts s s' : l_rpc s = LDone -> lrun s acts = Some s' -> l_rpc s' = LDone.
  Proof.
    intros E H. pose proof (reader_steps_bounded acts _ _ H) as B. rewrite E in B. cbn in B.
    destruct (l_rpc s'); cbn in B; try lia. reflexivity.
  Qed.

  Corollary never_back_in_the_loop acts s s' : l_rpc s <> LRun -> lrun s acts = Some s' -> l_rpc s' <> LRun.
  Proof.
    intros E H C. pose proof (reader_steps_bounded acts _ _ H) as B. rewrite C in B. cbn in B.
    destruct (l_rpc s); cbn in B; try lia. contradiction.
  Qed.

  (* ---- close() on another thread: its own eight steps, one lock acquisition, one join with a deadline *)
  Definition krank (p : kpc) : nat :=
    match p with
    | KClr => 8 | KLock => 7 | KStop => 6 | KJoinStart => 5 | KJoin _ => 4 | KPortClose => 3 | KUnlock => 2 | KDone => 1
    end.

  (* the steps of thread tid's close() other than (re)starting one *)
  Definition closer_step (tid : nat) (a : laction) : bool :=
    match a with
    | KClrA t | KLockA t | KStopA t | KJoinStartA t _ | KJoinEndA t | KPortCloseA t | KUnlockA t => Nat.eqb t tid
    | _ => false
    end.
  Definition closer_start (tid : nat) (a : laction) : bool :=
    match a with KStart t => Nat.eqb t tid | _ => false end.

  Definition kr (tid : nat) (s : lstate) : nat :=
    match kfind tid (l_closers s) with Some p => krank p | None => 9 end.

  (* no other thread, and no step of the reader or sender, touches the progress of thread tid's close() *)
  Theorem closer_untouched tid s a s' :
    closer_step tid a = false -> closer_start tid a = false -> lstep s a = Some s' -> kr tid s' = kr tid s.
  Proof.
    intros N1 N2 H. unfold kr.
    destruct a; cbn in N1, N2; crush H; rewrite ?kfind_kset; try reflexivity;
      match goal with |- context [Nat.eqb tid ?t] => rewrite (Nat.eqb_sym tid t), ?N1, ?N2 end; reflexivity.
  Qed.

  (* each of its own steps moves it strictly forward: a close() in progress needs at most seven more steps *)
  Theorem closer_strict tid s a s' :
    closer_step tid a = true -> lstep s a = Some s' -> kr tid s' < kr tid s.
  Proof.
    intros P H. unfold kr.
    destruct a; cbn in P; try discriminate P; apply Nat.eqb_eq in P; subst;
      crush H; rewrite ?kfind_kset, ?Nat.eqb_refl; cbn;
      repeat match goal with E : kfind _ _ = _ |- _ => rewrite E end; cbn; lia.
  Qed.
End R.
