(* Facts about the stepped-number formatter (C11).  Pure Z arithmetic, no magnitude bound. *)
From Coq Require Import List NArith ZArith Bool Lia ZifyBool ZifyN.
From Ynca Require Import Base.Text Base.Decimal Model.Step.
Import ListNotations.
Open Scope Z_scope.

Lemma rhe_nearest num den j :
  0 < den ->
  Z.abs (num - round_half_even num den * den) <= Z.abs (num - j * den).
Proof.
  intro Hd. unfold round_half_even.
  pose proof (Z.div_mod num den ltac:(lia)) as E.
  pose proof (Z.mod_pos_bound num den Hd) as [R0 R1].
  set (q := num / den) in *. set (r := num mod den) in *.
  assert (Hj : j <= q \/ j >= q + 1) by lia.
  assert (P1 : j <= q -> (q - j) * den >= 0) by nia.
  assert (P2 : j >= q + 1 -> (j - q) * den >= den) by nia.
  assert (X : num - j * den = (q - j) * den + r) by lia.
  destruct (Z.compare_spec (2 * r) den) as [C|C|C].
  - destruct (Z.even q).
    + replace (num - q * den) with r by lia. destruct Hj as [Hj|Hj]; [specialize (P1 Hj)|specialize (P2 Hj)]; lia.
    + replace (num - (q + 1) * den) with (r - den) by lia.
      destruct Hj as [Hj|Hj]; [specialize (P1 Hj)|specialize (P2 Hj)]; lia.
  - replace (num - q * den) with r by lia.
    destruct Hj as [Hj|Hj]; [specialize (P1 Hj)|specialize (P2 Hj)]; lia.
  - replace (num - (q + 1) * den) with (r - den) by lia.
    destruct Hj as [Hj|Hj]; [specialize (P1 Hj)|specialize (P2 Hj)]; lia.
Qed.

(* at most half a step away *)
Lemma rhe_half num den :
  0 < den -> 2 * Z.abs (num - round_half_even num den * den) <= den.
Proof.
  intro Hd. unfold round_half_even.
  pose proof (Z.div_mod num den ltac:(lia)) as E.
  pose proof (Z.mod_pos_bound num den Hd) as [R0 R1].
  set (q := num / den) in *. set (r := num mod den) in *.
  destruct (Z.compare_spec (2 * r) den) as [C|C|C]; [destruct (Z.even q)| |]; lia.
Qed.

(* the rounded quotient has the sign of the numerator (or is zero) *)
Lemma rhe_sign num den :
  0 < den ->
  (num < 0 -> round_half_even num den <= 0) /\ (0 <= num -> 0 <= round_half_even num den).
Proof.
  intro Hd. unfold round_half_even.
  pose proof (Z.div_mod num den ltac:(lia)) as E.
  pose proof (Z.mod_pos_bound num den Hd) as [R0 R1].
  set (q := num / den) in *. set (r := num mod den) in *.
  assert (Q1 : num < 0 -> q <= -1) by nia.
  assert (Q2 : 0 <= num -> 0 <= q) by nia.
  split; intro H; [specialize (Q1 H)|specialize (Q2 H)];
    destruct (Z.compare_spec (2 * r) den); try destruct (Z.even q); lia.
Qed.

Section Fmt.
  Variables (vn : Z) (vd sn sd : positive) (decimals : nat).
  Hypothesis Hwf : step_wf sn sd decimals = true.

  Let k := step_count vn vd sn sd.
  Let P := 10 ^ Z.of_nat decimals.

  Lemma k_sign : (vn < 0 -> k <= 0) /\ (0 <= vn -> 0 <= k).
  Proof.
    unfold k, step_count.
    destruct (rhe_sign (vn * Zpos sd) (Zpos vd * Zpos sn) ltac:(lia)) as [A B].
    split; intro H; [apply A|apply B]; nia.
  Qed.

  Lemma P_pos : 0 < P.
  Proof. unfold P. apply Z.pow_pos_nonneg; lia. Qed.

  Lemma scaled_exact :
    (Z.abs k * Zpos sn * P) / Zpos sd * Zpos sd = Z.abs k * Zpos sn * P.
  Proof.
    unfold step_wf in Hwf. apply Z.eqb_eq in Hwf. fold P in Hwf.
    assert (D : (Z.abs k * Zpos sn * P) mod Zpos sd = 0).
    { rewrite <- Z.mul_assoc. rewrite Z.mul_mod by lia. rewrite Hwf.
      rewrite Z.mul_0_r. apply Z.mod_0_l. lia. }
    pose proof (Z.div_mod (Z.abs k * Zpos sn * P) (Zpos sd) ltac:(lia)) as E.
    lia.
  Qed.

  (* the mantissa that the output denotes *)
  Definition mant : Z :=
    Z.sgn k * ((Z.abs k * Zpos sn * P) / Zpos sd).

  Lemma mant_on_grid : mant * Zpos sd = k * Zpos sn * P.
  Proof.
    unfold mant. rewrite <- Z.mul_assoc, scaled_exact.
    replace (Z.sgn k * (Z.abs k * Zpos sn * P)) with ((Z.abs k * Z.sgn k) * Zpos sn * P) by ring.
    rewrite Z.abs_sgn. reflexivity.
  Qed.

  (* Output parses back to exactly k * step, with exactly `decimals` decimals. *)
  Theorem fmt_parses :
    dec_parse (step_fmt vn vd sn sd decimals) = Some (mant, decimals).
  Proof.
    unfold step_fmt. fold k. fold P.
    set (sc := (Z.abs k * Zpos sn * P) / Zpos sd).
    pose proof P_pos as HP.
    assert (Hsc : 0 <= sc).
    { unfold sc. apply Z.div_pos; [|lia]. pose proof (Z.abs_nonneg k). nia. }
    assert (Hp : (10 ^ N.of_nat decimals)%N <> 0%N) by (apply N.pow_nonzero; lia).
    rewrite dec_parse_print by (apply N.mod_lt; exact Hp).
    f_equal. f_equal.
    rewrite N.mul_comm, <- N.div_mod by exact Hp.
    rewrite Z2N.id by exact Hsc.
    unfold mant. fold sc.
    pose proof scaled_exact as SE. fold sc in SE.
    destruct k_sign as [KS1 KS2].
    assert (Hpos : k <> 0 -> 0 < sc).
    { intro Hnz. assert (0 < Z.abs k * Zpos sn * P) by (pose proof (Z.abs_pos k); nia). nia. }
    assert (Hzero : k = 0 -> sc = 0) by (intro Hz; unfold sc; rewrite Hz; reflexivity).
    destruct (Z.ltb_spec vn 0) as [Hv|Hv]; cbn [andb].
    - specialize (KS1 Hv). destruct (Z.eq_dec k 0) as [Hz|Hnz].
      + rewrite (Hzero Hz). rewrite Hz. reflexivity.
      + specialize (Hpos Hnz). destruct (N.ltb_spec 0 (Z.to_N sc)) as [_|C]; [|lia].
        rewrite Z.sgn_neg by lia. lia.
    - specialize (KS2 Hv). destruct (Z.eq_dec k 0) as [Hz|Hnz].
      + rewrite (Hzero Hz). rewrite Hz. reflexivity.
      + rewrite Z.sgn_pos by lia. lia.
  Qed.

  (* k is a nearest integer to value/step: for every integer j,
     |vn*sd - k*(vd*sn)| <= |vn*sd - j*(vd*sn)|, i.e. |v - k*step| <= |v - j*step|
     after multiplying both sides by the positive number vd*sd. *)
  Theorem fmt_nearest (j : Z) :
    Z.abs (vn * Zpos sd - k * (Zpos vd * Zpos sn))
      <= Z.abs (vn * Zpos sd - j * (Zpos vd * Zpos sn)).
  Proof. apply rhe_nearest. lia. Qed.

  (* zero is never written with a minus sign; the sign is that of the grid value *)
  Theorem fmt_sign :
    step_fmt vn vd sn sd decimals =
      dec_print (mant <? 0) (Z.to_N (Z.abs mant) / 10 ^ N.of_nat decimals)%N
                (Z.to_N (Z.abs mant) mod 10 ^ N.of_nat decimals)%N decimals.
  Proof.
    unfold step_fmt. fold k. fold P. unfold mant.
    set (sc := (Z.abs k * Zpos sn * P) / Zpos sd).
    pose proof P_pos as HP.
    assert (Hsc : 0 <= sc).
    { unfold sc. apply Z.div_pos; [|lia]. pose proof (Z.abs_nonneg k). nia. }
    pose proof scaled_exact as SE. fold sc in SE.
    assert (A : Z.abs (Z.sgn k * sc) = sc \/ k = 0).
    { destruct (Z.eq_dec k 0); [now right|left]. clear SE. destruct k as [|p|p]; [contradiction| |]; cbn [Z.sgn]; lia. }
    destruct k_sign as [KS1 KS2].
    destruct (Z.eq_dec k 0) as [K0|Knz].
    - subst sc. rewrite K0. cbn. rewrite andb_false_r. reflexivity.
    - destruct A as [A|A]; [|contradiction]. rewrite A. f_equal.
      assert (0 < sc).
      { assert (0 < Z.abs k * Zpos sn * P) by (pose proof (Z.abs_pos k); nia). nia. }
      destruct (Z.ltb_spec vn 0) as [Hv|Hv]; cbn [andb].
      + specialize (KS1 Hv). rewrite Z.sgn_neg by lia.
        destruct (N.ltb_spec 0 (Z.to_N sc)); destruct (Z.ltb_spec (-1 * sc) 0); lia.
      + specialize (KS2 Hv). rewrite Z.sgn_pos by lia. destruct (Z.ltb_spec (1 * sc) 0); lia.
  Qed.
End Fmt.
