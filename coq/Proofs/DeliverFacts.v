(* C09 (concurrent half): delivery over a snapshot with a membership test, under arbitrary mutation.
   All invariants are pointwise in the callback id. *)
From Coq Require Import List Arith Bool Lia.
From Ynca Require Import Model.Deliver.
Import ListNotations.

Lemma mem_In x l : mem x l = true <-> In x l.
Proof.
  induction l as [|y r IH]; cbn; [split; [discriminate|intros []]|].
  rewrite orb_true_iff, Nat.eqb_eq, IH. split; intros [H|H]; auto.
Qed.

Lemma mem_remove1 c x l : mem c (remove1 x l) = mem c l && negb (Nat.eqb c x).
Proof.
  unfold remove1. induction l as [|y r IH]; cbn; [reflexivity|].
  destruct (Nat.eqb_spec y x) as [->|Hne]; cbn.
  - rewrite IH. destruct (Nat.eqb_spec c x); cbn; [now rewrite andb_false_r|reflexivity].
  - rewrite IH. destruct (Nat.eqb_spec c y) as [->|]; cbn; [|reflexivity].
    destruct (Nat.eqb_spec y x); [contradiction|reflexivity].
Qed.

Lemma mem_app c a b : mem c (a ++ b) = mem c a || mem c b.
Proof. induction a as [|y r IH]; cbn; [reflexivity|]. now rewrite IH, orb_assoc. Qed.

Notation cnt := (count_occ Nat.eq_dec).

Definition pointwise (s : dstate) (c : nat) : Prop :=
  (cnt (g_called s) c <= 1) /\
  (mem c (d_remaining s) = true -> cnt (g_called s) c = 0 /\ d_pending s <> Some c) /\
  (d_pending s = Some c -> cnt (g_called s) c = 0) /\
  (mem c (d_remaining s) = true \/ d_pending s = Some c \/ cnt (g_called s) c >= 1 -> mem c (g_snap s) = true) /\
  (mem c (g_snap s) = true ->
     mem c (d_remaining s) = true \/ d_pending s = Some c \/ cnt (g_called s) c >= 1 \/ mem c (g_removed s) = true) /\
  (mem c (g_snap s) = true -> mem c (d_live s) = true \/ mem c (g_removed s) = true).

Definition dinv (s : dstate) : Prop := forall c, pointwise s c.

Lemma dinv_init cbs : dinv (dinit cbs).
Proof.
  intro c. unfold pointwise, dinit; cbn. repeat split; try lia; try discriminate; intros; try discriminate.
  destruct H as [H|[H|H]]; try discriminate; lia.
Qed.

Ltac fin := intuition (try discriminate; try congruence; try lia; auto).

Lemma dinv_step s a s' : dinv s -> dstep s a = Some s' -> dinv s'.
Proof.
  intros I H c. specialize (I c). unfold pointwise in *.
  destruct I as [A [B [C [D [E F]]]]].
  destruct a; cbn in H.
  - (* DStart *)
    destruct (d_remaining s) eqn:R; [|discriminate]. destruct (d_pending s) eqn:P; [discriminate|].
    injection H as <-. cbn. fin.
  - (* DTest *)
    destruct (d_pending s) eqn:P; [discriminate|].
    destruct (mem cb (d_remaining s)) eqn:M; [|discriminate]. cbn in H.
    destruct (Bool.eqb b (mem cb (d_live s))) eqn:Bq; [|discriminate].
    injection H as <-. apply eqb_prop in Bq. cbn. rewrite mem_remove1.
    destruct (Nat.eqb_spec c cb) as [->|Hne]; cbn; rewrite ?andb_false_r, ?andb_true_r.
    + destruct b; subst; fin.
    + assert (Some cb <> Some c) by congruence. destruct b; fin.
  - (* DCall *)
    destruct (d_pending s) as [c0|] eqn:P; [|discriminate].
    destruct (Nat.eqb_spec c0 cb) as [->|]; [|discriminate]. injection H as <-. cbn.
    rewrite count_occ_app. cbn.
    destruct (Nat.eq_dec cb c) as [->|Hne].
    + specialize (C eq_refl). fin.
    + assert (Some cb <> Some c) by congruence. rewrite ?Nat.add_0_r in *. fin.
  - (* DAdd *)
    injection H as <-. cbn.
    assert (X : mem c (d_live s) = true -> mem c (if mem cb (d_live s) then d_live s else cb :: d_live s) = true).
    { intro X. destruct (mem cb (d_live s)); [exact X|]. cbn. now rewrite X, orb_true_r. }
    fin.
  - (* DDiscard *)
    injection H as <-. cbn. rewrite mem_remove1.
    assert (X : mem c (g_removed s) = true -> mem c (if mem cb (d_live s) then cb :: g_removed s else g_removed s) = true).
    { intro X. destruct (mem cb (d_live s)); [cbn; now rewrite X, orb_true_r|exact X]. }
    assert (Y : mem c (d_live s) = true -> mem c (d_live s) && negb (Nat.eqb c cb) = true \/
                  mem c (if mem cb (d_live s) then cb :: g_removed s else g_removed s) = true).
    { intro Y. destruct (Nat.eqb_spec c cb) as [->|Hne]; cbn.
      - right. rewrite Y. cbn. now rewrite Nat.eqb_refl.
      - left. now rewrite Y. }
    fin.
  - (* DClear *)
    injection H as <-. cbn. rewrite mem_app.
    assert (X : mem c (g_removed s) = true -> mem c (d_live s) || mem c (g_removed s) = true) by (intro X; now rewrite X, orb_true_r).
    assert (Y : mem c (d_live s) = true -> mem c (d_live s) || mem c (g_removed s) = true) by (intro Y; now rewrite Y).
    fin.
Qed.

Lemma drun_invariant l : forall s s', dinv s -> drun s l = Some s' -> dinv s'.
Proof.
  induction l as [|a r IH]; intros s s' I H; cbn in H.
  - now injection H as <-.
  - destruct (dstep s a) as [s1|] eqn:E; [|discriminate].
    eapply IH; [|exact H]. eapply dinv_step; eauto.
Qed.

(* The statement: when a delivery is complete, every callback that was registered at the snapshot
   and has not been unregistered since was invoked exactly once; nothing outside the snapshot was
   invoked; nobody is invoked twice. *)
Theorem delivery_exactly_once cbs l s :
  drun (dinit cbs) l = Some s -> d_complete s = true ->
  forall c,
    (cnt (g_called s) c <= 1) /\
    (cnt (g_called s) c >= 1 -> mem c (g_snap s) = true) /\
    (mem c (g_snap s) = true -> mem c (g_removed s) = false -> cnt (g_called s) c = 1).
Proof.
  intros H Hc c.
  pose proof (drun_invariant l _ s (dinv_init cbs) H c) as [A [B [C [D [E F]]]]].
  unfold d_complete in Hc. destruct (d_remaining s) eqn:R; [|discriminate].
  destruct (d_pending s) eqn:P; [discriminate|].
  split; [exact A|]. split.
  - intro X. apply D. right; now right.
  - intros Hs Hr. destruct (E Hs) as [X|[X|[X|X]]]; try discriminate; [lia|congruence].
Qed.

(* registration and unregistration are possible in every state (they never raise, never block) *)
Theorem mutation_always_enabled s cb :
  (exists s', dstep s (DAdd cb) = Some s') /\ (exists s', dstep s (DDiscard cb) = Some s') /\
  (exists s', dstep s DClear = Some s').
Proof. repeat split; eexists; reflexivity. Qed.

(* the loop always completes: every test removes its element from the remaining snapshot, and a
   test is enabled for every remaining element *)
Theorem delivery_progress s c :
  d_pending s = None -> mem c (d_remaining s) = true ->
  exists s', dstep s (DTest c (mem c (d_live s))) = Some s' /\ mem c (d_remaining s') = false.
Proof.
  intros P M. unfold dstep. rewrite P, M, eqb_reflx. cbn. eexists. split; [reflexivity|].
  cbn. rewrite mem_remove1, Nat.eqb_refl. apply andb_false_r.
Qed.
