(* Facts about the test-server model (C18, C19). *)
From Coq Require Import List NArith ZArith Bool Lia.
From Ynca Require Import Base.Text Model.Enum Model.Line Model.ServerNames Model.Server.
From Ynca Require Import Proofs.LineFacts.
Import ListNotations.

(* ---------------------------------------------------------------- association lists *)
Lemma assoc_set_same {A} k (v : A) l : assoc k (set_assoc k v l) = Some v.
Proof.
  induction l as [|[k' v'] r IH]; cbn; [now rewrite teqb_refl|].
  destruct (teqb k k') eqn:E; cbn; [now rewrite E|now rewrite E, IH].
Qed.

Lemma assoc_set_other {A} k k0 (v : A) l : k0 <> k -> assoc k0 (set_assoc k v l) = assoc k0 l.
Proof.
  intro Hne. induction l as [|[k' v'] r IH]; cbn.
  - destruct (teqb k0 k) eqn:E; [apply teqb_eq in E; contradiction|reflexivity].
  - destruct (teqb k k') eqn:E; cbn.
    + apply teqb_eq in E. subst k'.
      destruct (teqb k0 k) eqn:E2; [apply teqb_eq in E2; contradiction|reflexivity].
    + destruct (teqb k0 k'); [reflexivity|exact IH].
Qed.

Lemma assoc_app_new {A} k k0 (v : A) l :
  assoc k l = None -> assoc k0 (l ++ [(k, v)]) = if teqb k0 k then (match assoc k0 l with Some x => Some x | None => Some v end) else assoc k0 l.
Proof.
  intro Hn. induction l as [|[k' v'] r IH]; cbn.
  - destruct (teqb k0 k); reflexivity.
  - cbn in Hn. destruct (teqb k k') eqn:E; [discriminate|].
    destruct (teqb k0 k') eqn:E2.
    + destruct (teqb k0 k); reflexivity.
    + apply IH. exact Hn.
Qed.

(* ---------------------------------------------------------------- the store *)
Theorem get_add_same st s f v : get_data (add_data st s f v) s f = v.
Proof.
  unfold get_data, add_data. destruct (assoc s st) as [fs|] eqn:E.
  - now rewrite assoc_set_same, assoc_set_same.
  - rewrite (assoc_app_new s s [(f, v)] st E), teqb_refl, E. cbn. now rewrite teqb_refl.
Qed.

Theorem get_add_other st s f v s0 f0 :
  (s0 <> s \/ f0 <> f) -> get_data (add_data st s f v) s0 f0 = get_data st s0 f0.
Proof.
  intro Hne. unfold get_data, add_data. destruct (assoc s st) as [fs|] eqn:E.
  - destruct (list_eq_dec N.eq_dec s0 s) as [->|Hs].
    + rewrite assoc_set_same, E. destruct Hne as [C|Hf]; [contradiction|].
      now rewrite (assoc_set_other f f0 v fs Hf).
    + now rewrite (assoc_set_other s s0 _ st Hs).
  - rewrite (assoc_app_new s s0 [(f, v)] st E).
    destruct (teqb s0 s) eqn:Es; [|reflexivity].
    apply teqb_eq in Es. subst s0. rewrite E. cbn.
    destruct Hne as [C|Hf]; [contradiction|].
    destruct (teqb f0 f) eqn:Ef; [apply teqb_eq in Ef; contradiction|reflexivity].
Qed.

(* ---------------------------------------------------------------- put_data *)
Theorem put_data_ok st s f v old :
  get_data st s f = old -> (exists fs, assoc s st = Some fs /\ assoc f fs = Some old) -> is_err v = false ->
  exists st', put_data st s f v = (None, negb (teqb old v), st') /\
              get_data st' s f = v /\
              forall s0 f0, (s0 <> s \/ f0 <> f) -> get_data st' s0 f0 = get_data st s0 f0.
Proof.
  intros _ [fs [E1 E2]] Hv. unfold put_data. rewrite E1, E2, Hv. cbn.
  eexists. split; [reflexivity|]. split.
  - unfold get_data. now rewrite assoc_set_same, assoc_set_same.
  - intros s0 f0 Hne. unfold get_data.
    destruct (list_eq_dec N.eq_dec s0 s) as [->|Hs].
    + rewrite assoc_set_same, E1. destruct Hne as [C|Hf]; [contradiction|].
      now rewrite (assoc_set_other f f0 v fs Hf).
    + now rewrite (assoc_set_other s s0 _ st Hs).
Qed.

(* ---------------------------------------------------------------- keys that survive formatting *)
Lemma upto_eq_spec l a b : upto_eq l = Some (a, b) -> l = a ++ c_eq :: b /\ ~ In c_eq a.
Proof.
  revert a b; induction l as [|c r IH]; intros a b H; cbn in H; [discriminate|].
  destruct (N.eqb_spec c c_eq) as [->|Hne].
  - injection H as <- <-. split; [reflexivity|intros []].
  - destruct (upto_eq r) as [[a' b']|] eqn:E; [|discriminate]. injection H as <- <-.
    destruct (IH a' b' eq_refl) as [-> Hn]. split; [reflexivity|].
    intros [C|C]; [congruence|contradiction].
Qed.

Lemma find_eq_spec l f v : find_eq l = Some (f, v) ->
  exists c a, f = c :: a /\ l = c :: a ++ c_eq :: v /\ ~ In c_eq a.
Proof.
  destruct l as [|c r]; cbn; [discriminate|].
  destruct (upto_eq r) as [[a b]|] eqn:E; [|discriminate]. intros [= <- <-].
  destruct (upto_eq_spec r a b E) as [-> Hn]. exists c, a. repeat split. exact Hn.
Qed.

Lemma upto_eq_total l v : upto_eq (l ++ c_eq :: v) <> None.
Proof.
  induction l as [|x l IH]; cbn; [discriminate|].
  destruct (x =? c_eq)%N; [discriminate|].
  destruct (upto_eq (l ++ c_eq :: v)) as [[a b]|]; [discriminate|contradiction].
Qed.

Lemma find_eq_total x l v : find_eq (x :: l ++ c_eq :: v) <> None.
Proof.
  unfold find_eq. pose proof (upto_eq_total l v) as T.
  destruct (upto_eq (l ++ c_eq :: v)) as [[a b]|]; [discriminate|contradiction].
Qed.

Lemma find_eq_exists_after_colon rest f v :
  find_eq (rest ++ c_colon :: f ++ c_eq :: v) = None -> f <> [] -> False.
Proof.
  intros H Hf. destruct f as [|c0 f']; [congruence|].
  destruct rest as [|c r].
  - change ([] ++ c_colon :: (c0 :: f') ++ c_eq :: v) with (c_colon :: (c0 :: f') ++ c_eq :: v) in H.
    exact (find_eq_total _ _ _ H).
  - replace ((c :: r) ++ c_colon :: (c0 :: f') ++ c_eq :: v) with (c :: (r ++ c_colon :: c0 :: f') ++ c_eq :: v) in H
      by (cbn; now rewrite <- app_assoc).
    exact (find_eq_total _ _ _ H).
Qed.

(* the shape of a parsed command: S non-empty without ':', F = c :: a with no '=' in a *)
Lemma scan_sub_shape l : forall acc s f v,
  scan_sub acc l = Some (s, f, v) ->
  exists pre rest, l = pre ++ c_colon :: rest /\ s = rev acc ++ pre /\ ~ In c_colon pre /\ find_eq rest = Some (f, v).
Proof.
  induction l as [|c r IH]; intros acc s f v H; cbn in H; [discriminate|].
  destruct (N.eqb_spec c c_colon) as [->|Hne].
  - destruct (find_eq r) as [[f' v']|] eqn:E.
    + injection H as <- <- <-. exists [], r. rewrite app_nil_r. repeat split; auto.
    + destruct (IH (c_colon :: acc) s f v H) as [pre [rest [El [Es [Hn Ef]]]]].
      exfalso. destruct (find_eq_spec rest f v Ef) as [c0 [a [-> [Er _]]]].
      rewrite El, Er in E.
      apply (find_eq_exists_after_colon pre (c0 :: a) v); [|discriminate].
      cbn [app] in E |- *. exact E.
  - destruct (IH (c :: acc) s f v H) as [pre [rest [El [Es [Hn Ef]]]]].
    exists (c :: pre), rest. cbn [rev] in Es. rewrite <- app_assoc in Es. cbn in Es.
    repeat split; [now rewrite El|exact Es| |exact Ef].
    intros [C|C]; [congruence|contradiction].
Qed.

Definition key_ok (s f : text) : Prop :=
  exists c pre c0 a, s = c :: pre /\ ~ In c_colon pre /\ f = c0 :: a /\ ~ In c_eq a.

Theorem parse_sfv_key_ok t s f v : parse_sfv t = Some (s, f, v) -> key_ok s f.
Proof.
  unfold parse_sfv. destruct t as [|a0 [|c r]]; try discriminate.
  destruct (a0 =? c_at)%N; [|discriminate]. intro H.
  destruct (scan_sub_shape r [c] s f v H) as [pre [rest [El [Es [Hn Ef]]]]].
  destruct (find_eq_spec rest f v Ef) as [c0 [a [Hf [_ Ha]]]].
  cbn in Es. exists c, pre, c0, a. repeat split; assumption.
Qed.

Lemma scan_sub_stable pre : forall acc c0 a v,
  ~ In c_colon pre -> ~ In c_eq a ->
  scan_sub acc (pre ++ c_colon :: c0 :: a ++ c_eq :: v) = Some (rev acc ++ pre, c0 :: a, v).
Proof.
  induction pre as [|c r IH]; intros acc c0 a v Hc He.
  - cbn [app scan_sub]. rewrite N.eqb_refl. cbn [find_eq].
    rewrite (LineFacts.upto_eq_app a v He). now rewrite app_nil_r.
  - cbn [app scan_sub]. destruct (N.eqb_spec c c_colon) as [E|E]; [exfalso; apply Hc; now left|].
    rewrite IH; [|intro X; apply Hc; now right|exact He].
    cbn [rev]. now rewrite <- app_assoc.
Qed.

(* a key that came out of the parser survives re-formatting with ANY value *)
Theorem key_ok_stable s f v : key_ok s f -> parse_sfv (fmt_cmd s f v) = Some (s, f, v).
Proof.
  intros [c [pre [c0 [a [-> [Hc [-> He]]]]]]].
  unfold fmt_cmd, parse_sfv. cbn [app]. rewrite N.eqb_refl.
  rewrite scan_sub_stable by assumption. reflexivity.
Qed.

(* ---------------------------------------------------------------- ingestion *)
Section I.
Variable json : bool.
Variable py_json : text -> option text.
Notation clean := (Server.clean json py_json).
Notation ingest_line := (Server.ingest_line json py_json).
Notation ingest := (Server.ingest json py_json).

Definition value_line (raw : text) : option (text * text * text) :=
  let line := clean raw in
  if contains s_RESTRICTED line || contains s_UNDEFINED line then None
  else match line_to_command line with
       | Some (s, f, v) => if teqb v s_q then None else Some (s, f, v)
       | None => None
       end.

(* a line that carries a value stores it under its key, whatever came before *)
Theorem ingest_value_line st cmd raw s f v :
  value_line raw = Some (s, f, v) ->
  fst (ingest_line (st, cmd) raw) = add_data st s f v.
Proof.
  unfold value_line, Server.ingest_line.
  set (line := clean raw). cbn zeta.
  destruct (contains s_RESTRICTED line) eqn:R; [discriminate|].
  destruct (contains s_UNDEFINED line) eqn:U; [discriminate|]. cbn [orb].
  destruct (line_to_command line) as [[[s' f'] v']|] eqn:L; [|discriminate].
  destruct (teqb v' s_q) eqn:Q; [discriminate|]. intros [= <- <- <-].
  destruct cmd as [[[cs cf] cv]|]; reflexivity.
Qed.

(* an error line never overwrites a value: it can only turn "nothing known" into the error marker,
   and only for the command it follows *)
Theorem ingest_error_line st cs cf cv raw :
  let line := clean raw in
  contains s_RESTRICTED line || contains s_UNDEFINED line = true ->
  let st' := fst (ingest_line (st, Some (cs, cf, cv)) raw) in
  forall s f,
    get_data st' s f =
      if teqb (get_data st cs cf) s_UNDEFINED && (teqb s cs && teqb f cf)
      then (if contains s_RESTRICTED line then s_RESTRICTED else s_UNDEFINED)
      else get_data st s f.
Proof.
  intros line H st' s f. unfold st', Server.ingest_line. fold line. rewrite H. cbn [fst].
  destruct (teqb (get_data st cs cf) s_UNDEFINED) eqn:E; cbn [andb fst]; [|reflexivity].
  destruct (teqb s cs) eqn:Es; destruct (teqb f cf) eqn:Ef; cbn [andb].
  - apply teqb_eq in Es. apply teqb_eq in Ef. subst. apply get_add_same.
  - apply get_add_other. right. now apply teqb_neq.
  - apply get_add_other. left. now apply teqb_neq.
  - apply get_add_other. left. now apply teqb_neq.
Qed.

(* every key the ingestion stores came out of the command parser *)
Definition store_ok (st : store) : Prop :=
  forall s fs k v, In (s, fs) st -> In (k, v) fs -> key_ok s k.

Lemma In_set_assoc {A} k (v : A) l k0 v0 :
  In (k0, v0) (set_assoc k v l) -> (k0 = k /\ v0 = v) \/ In (k0, v0) l \/ (exists v1, In (k0, v1) l /\ k0 = k /\ v0 = v).
Proof.
  induction l as [|[k' v'] r IH]; cbn.
  - intros [[= <- <-]|[]]. now left.
  - destruct (teqb k k') eqn:E.
    + apply teqb_eq in E. subst k'. intros [[= <- <-]|H]; [now left|right; left; now right].
    + intros [H|H]; [right; left; now left|].
      destruct (IH H) as [X|[X|[v1 [X1 X2]]]]; [now left|right; left; now right|right; right; exists v1; split; [now right|exact X2]].
Qed.

Lemma assoc_In_key {A} k (l : list (text * A)) v : assoc k l = Some v -> In (k, v) l.
Proof. apply assoc_In. Qed.

Lemma add_data_ok st s f v : store_ok st -> key_ok s f -> store_ok (add_data st s f v).
Proof.
  intros Hok Hk s0 fs0 k0 v0 Hin Hin2. unfold add_data in Hin.
  destruct (assoc s st) as [fs|] eqn:E.
  - apply In_set_assoc in Hin as [[-> ->]|[Hin|[v1 [Hin [-> ->]]]]].
    + apply In_set_assoc in Hin2 as [[-> _]|[Hin2|[v1 [Hin2 [-> _]]]]]; [exact Hk| |exact Hk].
      eapply Hok; [apply assoc_In; exact E|exact Hin2].
    + eapply Hok; eauto.
    + apply In_set_assoc in Hin2 as [[-> _]|[Hin2|[v2 [Hin2 [-> _]]]]]; [exact Hk| |exact Hk].
      eapply Hok; [apply assoc_In; exact E|exact Hin2].
  - apply in_app_or in Hin as [Hin|[[= <- <-]|[]]]; [eapply Hok; eauto|].
    destruct Hin2 as [[= <- <-]|[]]. exact Hk.
Qed.

Lemma line_to_command_key_ok t s f v : line_to_command t = Some (s, f, v) -> key_ok s f.
Proof.
  induction t as [|c r IH]; cbn [line_to_command]; [discriminate|].
  destruct (c =? c_at)%N.
  - destruct (parse_sfv (c :: r)) as [[[s' f'] v']|] eqn:E.
    + intros [= <- <- <-]. eapply parse_sfv_key_ok; eauto.
    + exact IH.
  - exact IH.
Qed.

Lemma ingest_line_ok acc raw :
  store_ok (fst acc) -> (forall s f v, snd acc = Some (s, f, v) -> key_ok s f) ->
  store_ok (fst (ingest_line acc raw)) /\ (forall s f v, snd (ingest_line acc raw) = Some (s, f, v) -> key_ok s f).
Proof.
  destruct acc as [st cmd]. cbn [fst snd]. intros Hok Hc. unfold Server.ingest_line.
  set (line := clean raw).
  assert (P : forall st0, store_ok st0 ->
             store_ok (fst (match line_to_command line with
                            | Some (s', f', v') => (if teqb v' s_q then st0 else add_data st0 s' f' v', Some (s', f', v'))
                            | None => (st0, None) end)) /\
             (forall s f v, snd (match line_to_command line with
                            | Some (s', f', v') => (if teqb v' s_q then st0 else add_data st0 s' f' v', Some (s', f', v'))
                            | None => (st0, @None (text * text * text)) end) = Some (s, f, v) -> key_ok s f)).
  { intros st0 H0. destruct (line_to_command line) as [[[s' f'] v']|] eqn:L; cbn [fst snd].
    - pose proof (line_to_command_key_ok line s' f' v' L) as K. split.
      + destruct (teqb v' s_q); [exact H0|now apply add_data_ok].
      + intros s f v [= <- <- <-]. exact K.
    - split; [exact H0|intros; discriminate]. }
  destruct cmd as [[[cs cf] cv]|].
  - destruct (contains s_RESTRICTED line || contains s_UNDEFINED line).
    + cbn [fst snd]. split; [|exact Hc].
      destruct (teqb (get_data st cs cf) s_UNDEFINED); [|exact Hok].
      apply add_data_ok; [exact Hok|eapply Hc; reflexivity].
    + now apply P.
  - now apply P.
Qed.

Theorem ingest_store_ok lines : store_ok (ingest lines).
Proof.
  unfold Server.ingest.
  assert (G : forall ls acc, store_ok (fst acc) -> (forall s f v, snd acc = Some (s, f, v) -> key_ok s f) ->
              store_ok (fst (fold_left ingest_line ls acc))).
  { induction ls as [|l r IH]; intros acc A B; [exact A|].
    cbn [fold_left]. destruct (ingest_line_ok acc l A B) as [A' B']. now apply IH. }
  apply G; [intros s fs k v []|intros; discriminate].
Qed.

End I.

(* ---------------------------------------------------------------- the handler *)
Lemma cfg_eqb_good c : cfg_eqb c good_cfg = true -> c = good_cfg.
Proof.
  destruct c as [a1 a2 rel a3 a4 a5 a6 a7 a8 a9 a10]. unfold cfg_eqb, good_cfg.
  cbn [g_inp_get g_scene_get g_rel g_vol_try g_pb_guard g_err_exact g_rel_exact g_lenient g_inp_none g_scene_sent g_vol_ovf].
  intro H. repeat (apply andb_true_iff in H as [H ?]).
  repeat match goal with X : Bool.eqb _ _ = true |- _ => apply eqb_prop in X; subst end.
  match goal with X : list_bool_eqb rel good_rel = true |- _ => rename X into R end.
  unfold list_bool_eqb in R. apply andb_true_iff in R as [L R]. apply Nat.eqb_eq in L.
  do 17 (destruct rel as [|? rel]; try discriminate L).
  cbn in R. repeat (apply andb_true_iff in R as [? R]).
  repeat match goal with X : Bool.eqb _ _ = true |- _ => apply eqb_prop in X; subst end.
  reflexivity.
Qed.

Section H.
  Variable multi : list (text * list text).
  Variable related : list (text * list text).
  Variable inp_map : list (text * list text).
  Variable zones : list text.
  Variable py_float : text -> option fl.
  Variable py_int : text -> option Z.
  Variable py_str_float : Z * positive -> text.

  Notation handle_get1 := (handle_get1 good_cfg).
  Notation get_members := (get_members good_cfg).
  Notation handle_get := (handle_get good_cfg multi).
  Notation put_report := (put_report good_cfg related inp_map zones).
  Notation put_value := (put_value good_cfg py_float py_int py_str_float).
  Notation handle_put := (handle_put good_cfg related inp_map zones py_float py_int py_str_float).
  Notation srv := (srv good_cfg multi related inp_map zones py_float py_int py_str_float).
  Notation srv_bytes := (srv_bytes good_cfg multi related inp_map zones py_float py_int py_str_float).
  Notation srv_run := (srv_run good_cfg multi related inp_map zones py_float py_int py_str_float).

  Lemma relative_good f v :
    relative good_cfg f v = (teqb f s_VOL || teqb f s_ZONEBVOL) && (starts_with s_Up v || starts_with s_Down v).
  Proof.
    unfold relative. cbn [g_rel good_cfg].
    destruct (teqb f s_VOL), (teqb f s_ZONEBVOL), (starts_with s_Up v), (starts_with s_Down v); reflexivity.
  Qed.

  (* C19: with every guard in place no line makes the handler raise *)
  Theorem handle_get1_total fuel : forall st s f b, exists r, handle_get1 fuel st s f b = Ok r.
  Proof.
    induction fuel as [|n IH]; intros st s f b; cbn [Server.handle_get1 g_inp_get g_scene_get g_inp_none g_scene_sent good_cfg]; [eauto|].
    destruct (teqb s s_SYS && teqb f s_INPNAME). { destruct (assoc s_SYS st); eauto. }
    destruct (teqb f s_SCENENAME). { destruct (assoc s st); eauto. }
    destruct (teqb f s_DIRMODE).
    { destruct (send_stored good_cfg st s f b) as [out [x|]]; [|eauto].
      destruct (teqb x s_On); [|eauto]. destruct (IH st s s_STRAIGHT b) as [r E]. rewrite E. eauto. }
    destruct (teqb f s_STRAIGHT && _); eauto.
  Qed.

  Theorem get_members_total st s ms : exists r, get_members st s ms = Ok r.
  Proof.
    induction ms as [|m r IH]; cbn [Server.get_members]; [eauto|].
    destruct (handle_get1_total 3 st s m true) as [o E]. rewrite E.
    destruct IH as [o' E']. rewrite E'. eauto.
  Qed.

  Theorem handle_get_total st s f : exists r, handle_get st s f = Ok r.
  Proof.
    unfold Server.handle_get. destruct (assoc f multi) as [ms|]; [|apply handle_get1_total].
    destruct (get_members_total st s ms) as [[|x o] E]; rewrite E; eauto.
  Qed.

  Theorem put_report_total st s f v :
    (forall x, assoc x inp_map <> Some []) -> exists r, put_report st s f v = Ok r.
  Proof.
    intro Hi. unfold Server.put_report.
    assert (T : exists t, report_target good_cfg inp_map zones st s f v = Ok t).
    { unfold report_target. cbn [g_pb_guard good_cfg].
      destruct (teqb f s_PLAYBACK); [|eauto]. destruct (negb _); [eauto|].
      destruct (mem_text s zones); [|eauto].
      destruct (assoc (get_data st s s_INP) inp_map) as [[|sub r]|] eqn:A; eauto.
      exfalso. exact (Hi _ A). }
    destruct T as [[[s1 f1]|] E]; rewrite E; eauto.
  Qed.

  Theorem put_value_total st s f v : exists r, put_value st s f v = Ok r.
  Proof.
    unfold Server.put_value. cbn [g_vol_try g_vol_ovf good_cfg]. destruct (relative good_cfg f v); [|eauto].
    match goal with |- context [match ?a with Some _ => _ | None => _ end] => destruct a as [[an ad]|] end; [|eauto].
    destruct (py_float _) as [x|]; [|eauto].
    destruct (int_overflows an && _); [eauto|]. destruct x; eauto.
  Qed.

  Theorem handle_put_total st s f v :
    (forall x, assoc x inp_map <> Some []) -> exists r, handle_put st s f v = Ok r.
  Proof.
    intro Hi. unfold Server.handle_put.
    destruct (teqb s s_SYS && teqb f s_REMOTECODE); [eauto|].
    destruct (teqb f s_MEM); [eauto|].
    destruct (put_value_total st s f v) as [[v1|] E]; rewrite E; [|eauto].
    destruct (put_data st s f v1) as [[r ch] st1].
    destruct r; [eauto|]. destruct ch; [now apply put_report_total|eauto].
  Qed.

  Theorem srv_total st line :
    (forall x, assoc x inp_map <> Some []) -> exists r, srv st line = Ok r.
  Proof.
    intro Hi. unfold Server.srv. destruct (line_to_command line) as [[[s f] v]|]; [|eauto].
    destruct (teqb v s_q); [|now apply handle_put_total].
    destruct (handle_get_total st s f) as [o E]. rewrite E. eauto.
  Qed.

  Theorem srv_bytes_total st b :
    (forall x, assoc x inp_map <> Some []) -> exists r, srv_bytes st b = Ok r.
  Proof. intro Hi. unfold Server.srv_bytes. cbn [g_lenient good_cfg negb andb]. now apply srv_total. Qed.

  Theorem srv_run_total lines :
    (forall x, assoc x inp_map <> Some []) -> forall st, exists r, srv_run st lines = Ok r.
  Proof.
    intro Hi. induction lines as [|l r IH]; intro st; cbn [Server.srv_run]; [eauto|].
    destruct (srv_bytes_total st l Hi) as [[st' out] E]. rewrite E.
    destruct (IH st') as [[st'' outs] E']. rewrite E'. eauto.
  Qed.

  (* C19: relative steps are an arithmetic matter only for VOL / ZONEBVOL; for every other function a
     value starting with Up or Down goes the same way as any other value (no oracle involved),
     identically for Up and for Down *)
  Theorem put_non_volume st s f v :
    teqb f s_VOL = false -> teqb f s_ZONEBVOL = false ->
    put_value st s f v = Ok (Some v).
  Proof. intros V Z. unfold Server.put_value. rewrite relative_good, V, Z. reflexivity. Qed.

  (* a relative step on a level that is not a number, or with a malformed amount, is answered with an
     error line and changes nothing *)
  Theorem put_volume_relative_bad st s f v :
    (teqb f s_VOL || teqb f s_ZONEBVOL) = true -> (starts_with s_Up v || starts_with s_Down v) = true ->
    teqb s s_SYS && teqb f s_REMOTECODE = false -> teqb f s_MEM = false ->
    py_float (get_data st s f) = None -> handle_put st s f v = Ok (st, [s_UNDEFINED]).
  Proof.
    intros F P R M N. unfold Server.handle_put, Server.put_value. rewrite R, M, relative_good, F, P, N.
    cbn [andb g_vol_try good_cfg].
    match goal with |- context [match ?a with Some _ => _ | None => _ end] => destruct a as [[an ad]|] end; reflexivity.
  Qed.

  (* a well-formed relative step on a finite level stores current +/- amount (default one half) *)
  Theorem put_volume_relative_ok st s f v cn cd :
    (teqb f s_VOL || teqb f s_ZONEBVOL) = true -> (starts_with s_Up v || starts_with s_Down v) = true ->
    py_float (get_data st s f) = Some (Fin cn cd) ->
    forall an ad,
      (match split_space v [] with
       | [_] => Some (1%Z, 2%positive)
       | _ :: p :: _ => match py_int p with Some z => Some (z, 1%positive) | None => None end
       | [] => None
       end) = Some (an, ad) ->
      int_overflows an = false ->
      let sgn := if starts_with s_Up v then 1%Z else (-1)%Z in
      put_value st s f v = Ok (Some (py_str_float ((cn * Zpos ad + sgn * an * Zpos cd)%Z, (cd * ad)%positive))).
  Proof.
    intros F P N an ad A O. unfold Server.put_value. rewrite relative_good, F, P. cbn [andb].
    rewrite A, N, O. reflexivity.
  Qed.

  (* C18: every GET is answered with at least one line (a value, or the error line when there is none) *)
  Lemma send_stored_answers st s f : fst (send_stored good_cfg st s f false) <> [].
  Proof. unfold send_stored. destruct (err_value _ _); cbn; discriminate. Qed.

  Lemma handle_get1_answers n st s f out : handle_get1 (S n) st s f false = Ok out -> out <> [].
  Proof.
    cbn [Server.handle_get1 g_inp_get g_scene_get g_inp_none g_scene_sent good_cfg].
    destruct (teqb s s_SYS && teqb f s_INPNAME).
    { destruct (assoc s_SYS st); intros [= <-]; [|discriminate].
      match goal with |- (match ?o with [] => _ | _ => _ end) <> [] => destruct o; discriminate end. }
    destruct (teqb f s_SCENENAME).
    { destruct (assoc s st); intros [= <-]; [|discriminate].
      match goal with |- (match ?o with [] => _ | _ => _ end) <> [] => destruct o; discriminate end. }
    destruct (teqb f s_DIRMODE).
    { pose proof (send_stored_answers st s f) as A.
      destruct (send_stored good_cfg st s f false) as [o [x|]]; cbn [fst] in A.
      - destruct (teqb x s_On); [|intros [= <-]; exact A].
        destruct (handle_get1 n st s s_STRAIGHT false); [|discriminate].
        intros [= <-]. destruct o; [contradiction|discriminate].
      - intros [= <-]. exact A. }
    destruct (teqb f s_STRAIGHT && _); intros [= <-]; [discriminate|apply send_stored_answers].
  Qed.

  Theorem get_always_answered st s f out : handle_get st s f = Ok out -> out <> [].
  Proof.
    unfold Server.handle_get. destruct (assoc f multi) as [ms|].
    - destruct (get_members st s ms) as [[|x o]|]; [| |discriminate]; intros [= <-]; discriminate.
    - apply handle_get1_answers.
  Qed.

  (* ---------------------------------------------------------------- C18: ordinary GET / PUT *)
  Definition ordinary_get (s f : text) : bool :=
    (match assoc f multi with None => true | Some _ => false end) &&
    negb (teqb s s_SYS && teqb f s_INPNAME) && negb (teqb f s_SCENENAME) &&
    negb (teqb f s_DIRMODE) && negb (teqb f s_STRAIGHT).

  Theorem get_ordinary st s f :
    ordinary_get s f = true ->
    handle_get st s f =
      Ok (if is_err (get_data st s f) then [get_data st s f] else [fmt_cmd s f (get_data st s f)]).
  Proof.
    unfold ordinary_get, Server.handle_get. intro H.
    destruct (assoc f multi); [discriminate|]. cbn [andb] in H.
    apply andb_true_iff in H as [H H5]. apply andb_true_iff in H as [H H4].
    apply andb_true_iff in H as [H2 H3].
    apply negb_true_iff in H2, H3, H4, H5.
    cbn [Server.handle_get1]. rewrite H2, H3, H4, H5. cbn [andb].
    unfold send_stored, err_value, fmt. cbn [g_err_exact good_cfg].
    destruct (is_err (get_data st s f)); reflexivity.
  Qed.

  Definition ordinary_put (s f v : text) : bool :=
    (match assoc f related with None => true | Some _ => false end) &&
    negb (teqb f s_PWR) && negb (teqb f s_PLAYBACK) && negb (teqb f s_MEM) &&
    negb (teqb s s_SYS && teqb f s_REMOTECODE) &&
    negb ((teqb f s_VOL || teqb f s_ZONEBVOL) && (starts_with s_Up v || starts_with s_Down v)).

  Lemma ordinary_put_report st s f v :
    ordinary_put s f v = true -> put_report st s f v = Ok (st, [fmt_cmd s f v]).
  Proof.
    unfold ordinary_put, Server.put_report, report_target, report_at. intro H.
    repeat (apply andb_true_iff in H as [H ?]).
    repeat match goal with X : negb _ = true |- _ => apply negb_true_iff in X end.
    destruct (assoc f related) eqn:Er; [discriminate|].
    match goal with X : teqb f s_PLAYBACK = false |- _ => rewrite X end.
    match goal with X : teqb f s_PWR = false |- _ => rewrite X end. rewrite Er. reflexivity.
  Qed.

  Lemma ordinary_put_value st s f v : ordinary_put s f v = true -> put_value st s f v = Ok (Some v).
  Proof.
    unfold ordinary_put. intro H. repeat (apply andb_true_iff in H as [H ?]).
    repeat match goal with X : negb _ = true |- _ => apply negb_true_iff in X end.
    unfold Server.put_value. rewrite relative_good.
    match goal with X : (teqb f s_VOL || teqb f s_ZONEBVOL) && _ = false |- _ => rewrite X end. reflexivity.
  Qed.

  (* a PUT of a new value to an ordinary stored function: stored, reported back exactly once, returned by
     later GETs; nothing else changes *)
  Theorem put_ordinary_new st s f v old fs :
    ordinary_put s f v = true -> assoc s st = Some fs -> assoc f fs = Some old ->
    old <> v -> is_err v = false ->
    exists st', handle_put st s f v = Ok (st', [fmt_cmd s f v]) /\
                get_data st' s f = v /\
                forall s0 f0, (s0 <> s \/ f0 <> f) -> get_data st' s0 f0 = get_data st s0 f0.
  Proof.
    intros Ho E1 E2 Hne Hv.
    destruct (put_data_ok st s f v old) as [st' [P [G1 G2]]]; [unfold get_data; now rewrite E1, E2|eauto|exact Hv|].
    exists st'. split; [|split; assumption].
    pose proof (ordinary_put_value st s f v Ho) as PV.
    pose proof Ho as Ho'. unfold ordinary_put in Ho.
    repeat (apply andb_true_iff in Ho as [Ho ?]).
    repeat match goal with X : negb _ = true |- _ => apply negb_true_iff in X end.
    unfold Server.handle_put.
    match goal with X : teqb s s_SYS && teqb f s_REMOTECODE = false |- _ => rewrite X end.
    match goal with X : teqb f s_MEM = false |- _ => rewrite X end.
    rewrite PV, P. assert (Q : negb (teqb old v) = true) by (apply negb_true_iff; now apply teqb_neq).
    rewrite Q. now apply ordinary_put_report.
  Qed.

  Lemma set_assoc_same_value {A} k (v : A) l : assoc k l = Some v -> set_assoc k v l = l.
  Proof.
    induction l as [|[k' v'] r IH]; cbn; [discriminate|].
    destruct (teqb k k') eqn:E; [intros [= ->]; reflexivity|intro H; now rewrite IH].
  Qed.

  (* a PUT of the current value produces no report and changes nothing *)
  Theorem put_ordinary_same st s f v fs :
    ordinary_put s f v = true -> assoc s st = Some fs -> assoc f fs = Some v -> is_err v = false ->
    handle_put st s f v = Ok (st, []).
  Proof.
    intros Ho E1 E2 Hv. pose proof (ordinary_put_value st s f v Ho) as PV. unfold ordinary_put in Ho.
    repeat (apply andb_true_iff in Ho as [Ho ?]).
    repeat match goal with X : negb _ = true |- _ => apply negb_true_iff in X end.
    unfold Server.handle_put.
    match goal with X : teqb s s_SYS && teqb f s_REMOTECODE = false |- _ => rewrite X end.
    match goal with X : teqb f s_MEM = false |- _ => rewrite X end.
    rewrite PV. unfold put_data. rewrite E1, E2, Hv. cbn [negb]. rewrite teqb_refl. cbn [negb].
    rewrite (set_assoc_same_value f v fs E2), (set_assoc_same_value s fs st E1). reflexivity.
  Qed.
End H.

(* ---------------------------------------------------------------- ingestion keeps the last value *)
Section I2.
Variable json : bool.
Variable py_json : text -> option text.
Notation clean := (Server.clean json py_json).
Notation ingest_line := (Server.ingest_line json py_json).
Notation ingest := (Server.ingest json py_json).
Notation value_line := (value_line json py_json).

(* a line that does not name (s, f) with a value leaves a known value of (s, f) alone *)
Lemma ingest_line_preserves st cmd raw s f :
  get_data st s f <> s_UNDEFINED ->
  (forall v', line_to_command (clean raw) = Some (s, f, v') -> v' = s_q) ->
  get_data (fst (ingest_line (st, cmd) raw)) s f = get_data st s f.
Proof.
  intros Hv Hn. unfold Server.ingest_line.
  assert (P : forall c, fst (match line_to_command (clean raw) with
                         | Some (s', f', v') => (if teqb v' s_q then st else add_data st s' f' v', Some (s', f', v'))
                         | None => (st, c) end) = fst (match line_to_command (clean raw) with
                         | Some (s', f', v') => (if teqb v' s_q then st else add_data st s' f' v', Some (s', f', v'))
                         | None => (st, None) end)).
  { intro c. destruct (line_to_command (clean raw)) as [[[? ?] ?]|]; reflexivity. }
  assert (C : get_data (fst (match line_to_command (clean raw) with
                         | Some (s', f', v') => (if teqb v' s_q then st else add_data st s' f' v', Some (s', f', v'))
                         | None => (st, None) end)) s f = get_data st s f).
  { destruct (line_to_command (clean raw)) as [[[s' f'] v']|] eqn:L; [|reflexivity]. cbn [fst].
    destruct (teqb v' s_q) eqn:Q; [reflexivity|].
    apply get_add_other.
    destruct (list_eq_dec N.eq_dec s s') as [->|Hs]; [|now left].
    destruct (list_eq_dec N.eq_dec f f') as [->|Hf]; [|now right].
    specialize (Hn v' eq_refl). subst v'. now rewrite teqb_refl in Q. }
  destruct cmd as [[[cs cf] cv]|]; [|exact C].
  destruct (contains s_RESTRICTED (clean raw) || contains s_UNDEFINED (clean raw)); [|exact C].
  cbn [fst]. destruct (teqb (get_data st cs cf) s_UNDEFINED) eqn:E; [|reflexivity].
  apply get_add_other. apply teqb_eq in E.
  destruct (list_eq_dec N.eq_dec s cs) as [->|Hs]; [|now left].
  destruct (list_eq_dec N.eq_dec f cf) as [->|Hf]; [|now right]. contradiction.
Qed.

Lemma ingest_fold_preserves post : forall st cmd s f,
  get_data st s f <> s_UNDEFINED ->
  Forall (fun raw => forall v', line_to_command (clean raw) = Some (s, f, v') -> v' = s_q) post ->
  get_data (fst (fold_left ingest_line post (st, cmd))) s f = get_data st s f.
Proof.
  induction post as [|raw post IH]; intros st cmd s f Hv Hp; [reflexivity|].
  inversion Hp as [|? ? H1 H2]; subst. cbn [fold_left].
  destruct (ingest_line (st, cmd) raw) as [st1 cmd1] eqn:E1.
  pose proof (ingest_line_preserves st cmd raw s f Hv H1) as P. rewrite E1 in P. cbn [fst] in P.
  rewrite IH; [exact P|now rewrite P|exact H2].
Qed.

(* C18: loaded from any recording, the store holds, for (s, f), the value of the LAST line carrying a
   value for it -- whatever precedes it, and whatever other lines (queries, error lines, values of other
   keys) follow it *)
Theorem ingest_last_value pre l post s f v :
  value_line l = Some (s, f, v) -> v <> s_UNDEFINED ->
  Forall (fun raw => forall v', line_to_command (clean raw) = Some (s, f, v') -> v' = s_q) post ->
  get_data (ingest (pre ++ l :: post)) s f = v.
Proof.
  intros Hl Hv Hp. unfold Server.ingest. rewrite fold_left_app. cbn [fold_left].
  destruct (fold_left ingest_line pre ([], None)) as [st0 cmd0].
  destruct (ingest_line (st0, cmd0) l) as [st1 cmd1] eqn:E1.
  pose proof (ingest_value_line json py_json st0 cmd0 l s f v Hl) as P. rewrite E1 in P. cbn [fst] in P.
  assert (G : get_data st1 s f = v) by (rewrite P; apply get_add_same).
  rewrite ingest_fold_preserves; [exact G|now rewrite G|exact Hp].
Qed.

(* ... and answers with the error marker for a key no line of the recording names *)
Lemma ingest_fold_unnamed ls : forall st cmd s f,
  get_data st s f = s_UNDEFINED ->
  (forall cs cf cv, cmd = Some (cs, cf, cv) -> cs <> s \/ cf <> f) ->
  Forall (fun raw => forall v', line_to_command (clean raw) <> Some (s, f, v')) ls ->
  get_data (fst (fold_left ingest_line ls (st, cmd))) s f = s_UNDEFINED.
Proof.
  induction ls as [|raw ls IH]; intros st cmd s f Hu Hc Hp; [exact Hu|].
  inversion Hp as [|? ? H1 H2]; subst. cbn [fold_left].
  destruct (ingest_line (st, cmd) raw) as [st1 cmd1] eqn:E1.
  assert (K : get_data st1 s f = s_UNDEFINED /\ forall cs cf cv, cmd1 = Some (cs, cf, cv) -> cs <> s \/ cf <> f).
  { revert E1. unfold Server.ingest_line.
    assert (C : forall c, (forall cs cf cv, c = Some (cs, cf, cv) -> cs <> s \/ cf <> f) ->
                forall st1 cmd1, match line_to_command (clean raw) with
                | Some (s', f', v') => (if teqb v' s_q then st else add_data st s' f' v', Some (s', f', v'))
                | None => (st, c) end = (st1, cmd1) ->
                get_data st1 s f = s_UNDEFINED /\ forall cs cf cv, cmd1 = Some (cs, cf, cv) -> cs <> s \/ cf <> f).
    { intros c Hcc st2 cmd2. destruct (line_to_command (clean raw)) as [[[s' f'] v']|] eqn:L.
      - assert (N : s' <> s \/ f' <> f).
        { destruct (list_eq_dec N.eq_dec s' s) as [->|Hs]; [|now left].
          destruct (list_eq_dec N.eq_dec f' f) as [->|Hf]; [|now right]. exfalso. exact (H1 v' eq_refl). }
        intros [= <- <-]. split.
        + destruct (teqb v' s_q); [exact Hu|]. rewrite get_add_other; [exact Hu|].
          destruct N as [N|N]; [left|right]; congruence.
        + intros cs cf cv [= <- <- <-]. exact N.
      - intros [= <- <-]. split; [exact Hu|exact Hcc]. }
    destruct cmd as [[[cs cf] cv]|].
    - destruct (contains s_RESTRICTED (clean raw) || contains s_UNDEFINED (clean raw)).
      + intros [= <- <-]. split; [|exact Hc].
        destruct (teqb (get_data st cs cf) s_UNDEFINED); [|exact Hu].
        rewrite get_add_other; [exact Hu|].
        destruct (Hc cs cf cv eq_refl) as [N|N]; [left|right]; congruence.
      + apply (C None). intros; discriminate.
    - apply (C None). intros; discriminate. }
  destruct K as [K1 K2]. now apply IH.
Qed.

Theorem ingest_unnamed ls s f :
  Forall (fun raw => forall v', line_to_command (clean raw) <> Some (s, f, v')) ls ->
  get_data (ingest ls) s f = s_UNDEFINED.
Proof.
  intro H. unfold Server.ingest. apply ingest_fold_unnamed; [reflexivity|intros; discriminate|exact H].
Qed.
End I2.


(* ---------------------------------------------------------------- every reply is a well-formed line *)
Definition sub_ok (s : text) : bool :=
  match s with c :: pre => negb (existsb (N.eqb c_colon) pre) | [] => false end.
Definition fn_ok (f : text) : bool :=
  match f with c :: a => negb (existsb (N.eqb c_eq) a) | [] => false end.

Lemma existsb_eqb_false c l : existsb (N.eqb c) l = false <-> ~ In c l.
Proof.
  induction l as [|x r IH]; cbn; [tauto|].
  rewrite orb_false_iff, IH. destruct (N.eqb_spec c x) as [->|E]; split.
  - intros [C _]; discriminate.
  - intro H. exfalso. apply H. now left.
  - intros [_ H] [X|X]; [congruence|contradiction].
  - intro H. split; [reflexivity|]. intro X. apply H. now right.
Qed.

Lemma key_ok_iff s f : key_ok s f <-> sub_ok s = true /\ fn_ok f = true.
Proof.
  unfold key_ok, sub_ok, fn_ok. split.
  - intros [c [pre [c0 [a [-> [Hc [-> He]]]]]]].
    split; apply negb_true_iff; now apply existsb_eqb_false.
  - destruct s as [|c pre]; [intros [C _]; discriminate|].
    destruct f as [|c0 a]; [intros [_ C]; discriminate|].
    intros [H1 H2]. apply negb_true_iff in H1, H2. apply existsb_eqb_false in H1, H2.
    exists c, pre, c0, a. repeat split; assumption.
Qed.

Definition wf (t : text) : Prop := wf_reply t = true.

Lemma wf_fmt s f v : sub_ok s = true -> fn_ok f = true -> wf (fmt_cmd s f v).
Proof.
  intros Hs Hf. unfold wf, wf_reply.
  rewrite (key_ok_stable s f v); [apply orb_true_r|]. apply key_ok_iff. now split.
Qed.

Lemma wf_err v : is_err v = true -> wf v.
Proof. intro H. unfold wf, wf_reply. now rewrite H. Qed.

Lemma Forall_flat_map {A B} (P : B -> Prop) (g : A -> list B) l :
  (forall x, In x l -> Forall P (g x)) -> Forall P (flat_map g l).
Proof.
  induction l as [|x r IH]; intro H; cbn; [constructor|].
  apply Forall_app. split; [apply H; now left|apply IH; intros y Hy; apply H; now right].
Qed.

Lemma store_key_ok st s k : store_ok st -> In k (match assoc s st with Some fs => map fst fs | None => [] end) -> key_ok s k.
Proof.
  intros Hok Hin. destruct (assoc s st) as [fs|] eqn:E; [|destruct Hin].
  apply in_map_iff in Hin as [[k' v] [<- Hin]]. eapply Hok; [apply assoc_In; exact E|exact Hin].
Qed.

Lemma put_data_spec st s f v r ch st' :
  store_ok st -> put_data st s f v = (r, ch, st') ->
  store_ok st' /\ (r = None -> key_ok s f) /\ (ch = true -> r = None) /\
  (forall e, r = Some e -> is_err e = true).
Proof.
  intro Hok. unfold put_data.
  destruct (assoc s st) as [fs|] eqn:E1.
  - destruct (assoc f fs) as [old|] eqn:E2.
    + intros [= <- <- <-]. assert (K : key_ok s f) by (eapply Hok; apply assoc_In; eassumption).
      split; [|split; [auto|split; [auto|intros; discriminate]]].
      destruct (negb (is_err v)); [|exact Hok].
      replace (set_assoc s (set_assoc f v fs) st) with (add_data st s f v) by (unfold add_data; now rewrite E1).
      now apply add_data_ok.
    + intros [= <- <- <-]. split; [exact Hok|split; [discriminate|split; [discriminate|]]].
      intros e [= <-]. reflexivity.
  - intros [= <- <- <-]. split; [exact Hok|split; [discriminate|split; [discriminate|]]].
    intros e [= <-]. reflexivity.
Qed.

Section W.
  Variable multi : list (text * list text).
  Variable related : list (text * list text).
  Variable inp_map : list (text * list text).
  Variable zones : list text.
  Variable py_float : text -> option fl.
  Variable py_int : text -> option Z.
  Variable py_str_float : Z * positive -> text.

  Definition tables_ok : bool :=
    forallb (fun p => forallb fn_ok (snd p)) multi &&
    forallb (fun p => forallb fn_ok (snd p)) related &&
    forallb (fun p => forallb sub_ok (snd p)) inp_map &&
    forallb sub_ok zones && negb (match zones with [] => true | _ => false end).

  Hypothesis T : tables_ok = true.

  Lemma t_multi f ms m : assoc f multi = Some ms -> In m ms -> fn_ok m = true.
  Proof.
    intros E Hin. unfold tables_ok in T. repeat (apply andb_true_iff in T as [T ?]).
    rewrite forallb_forall in T. specialize (T _ (assoc_In _ _ _ E)). cbn in T.
    rewrite forallb_forall in T. now apply T.
  Qed.
  Lemma t_related f ms m : assoc f related = Some ms -> In m ms -> fn_ok m = true.
  Proof.
    intros E Hin. unfold tables_ok in T. repeat (apply andb_true_iff in T as [T ?]).
    match goal with X : forallb _ related = true |- _ => rewrite forallb_forall in X; specialize (X _ (assoc_In _ _ _ E)); cbn in X;
      rewrite forallb_forall in X; now apply X end.
  Qed.
  Lemma t_inp x ms m : assoc x inp_map = Some ms -> In m ms -> sub_ok m = true.
  Proof.
    intros E Hin. unfold tables_ok in T. repeat (apply andb_true_iff in T as [T ?]).
    match goal with X : forallb _ inp_map = true |- _ => rewrite forallb_forall in X; specialize (X _ (assoc_In _ _ _ E)); cbn in X;
      rewrite forallb_forall in X; now apply X end.
  Qed.
  Lemma t_zone z : In z zones -> sub_ok z = true.
  Proof.
    intro Hin. unfold tables_ok in T. repeat (apply andb_true_iff in T as [T ?]).
    match goal with X : forallb sub_ok zones = true |- _ => rewrite forallb_forall in X; now apply X end.
  Qed.
  Lemma t_last : In (last zones []) zones.
  Proof.
    unfold tables_ok in T. repeat (apply andb_true_iff in T as [T ?]).
    destruct zones as [|z r] eqn:E; [discriminate|].
    rewrite <- E. assert (N : zones <> []) by (rewrite E; discriminate).
    destruct (exists_last N) as [l' [a ->]]. rewrite last_last. apply in_or_app. right. now left.
  Qed.

  Notation G := good_cfg.

  Lemma send_stored_wf st s f b : sub_ok s = true -> fn_ok f = true -> Forall wf (fst (send_stored G st s f b)).
  Proof.
    intros Hs Hf. unfold send_stored, err_value. cbn [g_err_exact good_cfg].
    destruct (is_err (get_data st s f)) eqn:E; cbn [fst].
    - destruct b; [constructor|]. constructor; [now apply wf_err|constructor].
    - constructor; [now apply wf_fmt|constructor].
  Qed.

  Lemma handle_get1_wf fuel : forall st s f b out, store_ok st -> sub_ok s = true -> fn_ok f = true ->
    handle_get1 G fuel st s f b = Ok out -> Forall wf out.
  Proof.
    induction fuel as [|n IH]; intros st s f b out Hok Hs Hf; cbn [handle_get1 g_inp_get g_scene_get g_inp_none g_scene_sent good_cfg].
    { intros [= <-]. constructor. }
    assert (WU : Forall wf [s_UNDEFINED]) by (constructor; [now apply wf_err|constructor]).
    destruct (teqb s s_SYS && teqb f s_INPNAME) eqn:E1.
    - apply andb_true_iff in E1 as [E1 _]. apply teqb_eq in E1. subst s.
      destruct (assoc s_SYS st) as [fs|] eqn:A; intros [= <-]; [|exact WU].
      match goal with |- Forall wf (match ?o with [] => _ | _ => _ end) => assert (W : Forall wf o); [|destruct o; [exact WU|exact W]] end.
      apply Forall_flat_map. intros k Hk.
      match goal with |- Forall wf (if ?cnd then _ else _) => destruct cnd end; [|constructor].
      apply send_stored_wf; [exact Hs|].
      assert (K : key_ok s_SYS k) by (apply (store_key_ok st s_SYS k Hok); now rewrite A).
      now apply key_ok_iff in K.
    - destruct (teqb f s_SCENENAME).
      + destruct (assoc s st) as [fs|] eqn:A; intros [= <-]; [|exact WU].
        match goal with |- Forall wf (match ?o with [] => _ | _ => _ end) => assert (W : Forall wf o); [|destruct o; [exact WU|exact W]] end.
        apply Forall_flat_map. intros k Hk. apply send_stored_wf; [exact Hs|].
        apply filter_In in Hk as [Hk _].
        assert (K : key_ok s k) by (apply (store_key_ok st s k Hok); now rewrite A).
        now apply key_ok_iff in K.
      + destruct (teqb f s_DIRMODE).
        * pose proof (send_stored_wf st s f b Hs Hf) as W.
          destruct (send_stored G st s f b) as [o [x|]]; cbn [fst] in W; [|intros [= <-]; exact W].
          destruct (teqb x s_On); [|intros [= <-]; exact W].
          destruct (handle_get1 G n st s s_STRAIGHT b) as [more|] eqn:E; [|discriminate].
          intros [= <-]. apply Forall_app. split; [exact W|].
          eapply IH; [exact Hok|exact Hs| |exact E]. reflexivity.
        * destruct (teqb f s_STRAIGHT && _); intros [= <-].
          -- constructor; [now apply wf_fmt|constructor].
          -- now apply send_stored_wf.
  Qed.

  Lemma get_members_wf st s : store_ok st -> sub_ok s = true -> forall ms out,
    (forall m, In m ms -> fn_ok m = true) -> get_members G st s ms = Ok out -> Forall wf out.
  Proof.
    intros Hok Hs. induction ms as [|m r IH]; intros out Hm; cbn [get_members].
    - intros [= <-]. constructor.
    - destruct (handle_get1 G 3 st s m true) as [o|] eqn:E; [|discriminate].
      destruct (get_members G st s r) as [o'|] eqn:E'; [|discriminate].
      intros [= <-]. apply Forall_app. split.
      + eapply handle_get1_wf; [exact Hok|exact Hs| |exact E]. apply Hm. now left.
      + apply IH; [intros; apply Hm; now right|reflexivity].
  Qed.

  Theorem handle_get_wf st s f out : store_ok st -> sub_ok s = true -> fn_ok f = true ->
    handle_get G multi st s f = Ok out -> Forall wf out.
  Proof.
    intros Hok Hs Hf. unfold handle_get. destruct (assoc f multi) as [ms|] eqn:E.
    - destruct (get_members G st s ms) as [o|] eqn:Eg; [|discriminate].
      pose proof (get_members_wf st s Hok Hs ms o (fun m Hm => t_multi f ms m E Hm) Eg) as W.
      destruct o; intros [= <-]; [constructor; [now apply wf_err|constructor]|exact W].
    - now apply handle_get1_wf.
  Qed.

  Lemma get_members_in st s ms : forall out, get_members G st s ms = Ok out ->
    forall t, In t out -> exists m o, In m ms /\ handle_get1 G 3 st s m true = Ok o /\ In t o.
  Proof.
    induction ms as [|m r IH]; intros out; cbn [get_members].
    - intros [= <-] t [].
    - destruct (handle_get1 G 3 st s m true) as [o|] eqn:E; [|discriminate].
      destruct (get_members G st s r) as [o'|] eqn:E'; [|discriminate].
      intros [= <-] t Hin. apply in_app_or in Hin as [Hin|Hin].
      + exists m, o. split; [now left|split; [exact E|exact Hin]].
      + destruct (IH o' eq_refl t Hin) as [m' [o2 [A [B C]]]]. exists m', o2. split; [now right|split; assumption].
  Qed.

  (* C18: group queries answer only with stored members: every reply line of a group query is the stored,
     non-error value of a member of the group (STRAIGHT reported On while a direct mode is on), or the
     single error line when no member is stored *)
  Theorem group_answers_stored st s f ms out :
    assoc f multi = Some ms ->
    (forall m, In m ms -> teqb m s_SCENENAME = false /\ teqb m s_INPNAME = false) ->
    handle_get G multi st s f = Ok out ->
    forall t, In t out ->
      t = s_UNDEFINED \/
      exists m, In m ms /\
        ((t = fmt_cmd s m (get_data st s m) /\ is_err (get_data st s m) = false) \/
         (t = fmt_cmd s s_STRAIGHT s_On /\ (m = s_STRAIGHT \/ m = s_DIRMODE))).
  Proof.
    intros E Hm Hg t Hin. unfold handle_get in Hg. rewrite E in Hg.
    destruct (get_members G st s ms) as [o|] eqn:Eg; [|discriminate].
    assert (X : out = o \/ (o = [] /\ out = [s_UNDEFINED])).
    { destruct o; injection Hg as <-; [right; now split|now left]. }
    destruct X as [->|[-> ->]]; [|destruct Hin as [<-|[]]; now left].
    right. destruct (get_members_in st s ms o Eg t Hin) as [m [o1 [Hmm [E1 Hin1]]]].
    exists m. split; [exact Hmm|]. destruct (Hm m Hmm) as [N1 N2].
    assert (S1 : In t (fst (send_stored G st s m true)) ->
                 t = fmt_cmd s m (get_data st s m) /\ is_err (get_data st s m) = false).
    { unfold send_stored, err_value. cbn [g_err_exact good_cfg]. destruct (is_err (get_data st s m)); cbn [fst].
      - intros [].
      - intros [<-|[]]. split; reflexivity. }
    cbn [handle_get1] in E1. rewrite N1, N2, andb_false_r in E1.
    destruct (teqb m s_DIRMODE) eqn:D.
    - apply teqb_eq in D. subst m.
      unfold send_stored at 1, err_value in E1. cbn [g_err_exact good_cfg] in E1.
      destruct (is_err (get_data st s s_DIRMODE)) eqn:Ed.
      + injection E1 as <-. destruct Hin1.
      + destruct (teqb (get_data st s s_DIRMODE) s_On) eqn:On.
        * cbn [handle_get1] in E1.
          replace (teqb s_STRAIGHT s_INPNAME) with false in E1 by reflexivity.
          replace (teqb s_STRAIGHT s_SCENENAME) with false in E1 by reflexivity.
          replace (teqb s_STRAIGHT s_DIRMODE) with false in E1 by reflexivity.
          replace (teqb s_STRAIGHT s_STRAIGHT) with true in E1 by reflexivity.
          rewrite andb_false_r in E1. cbn [andb orb app] in E1. injection E1 as <-.
          destruct Hin1 as [<-|[<-|[]]]; [left; split; reflexivity|right; split; [reflexivity|now right]].
        * injection E1 as <-. destruct Hin1 as [<-|[]]. left. split; reflexivity.
    - destruct (teqb m s_STRAIGHT && _) eqn:St; injection E1 as <-.
      + destruct Hin1 as [<-|[]]. apply andb_true_iff in St as [St _]. apply teqb_eq in St. subst m.
        right. split; [reflexivity|now left].
      + left. now apply S1.
  Qed.

  Lemma zone_fold_wf f1 v : fn_ok f1 = true -> forall zs st out st' out',
    (forall z, In z zs -> sub_ok z = true) -> store_ok st -> Forall wf out ->
    fold_left (zone_step f1 v) zs (st, out) = (st', out') -> store_ok st' /\ Forall wf out'.
  Proof.
    intro Hf. induction zs as [|z r IH]; intros st out st' out' Hz Hok Hw; cbn [fold_left].
    - intros [= <- <-]. now split.
    - unfold zone_step at 2. destruct (put_data st z f1 v) as [[r0 ch] sty] eqn:P.
      destruct (put_data_spec _ _ _ _ _ _ _ Hok P) as [Hok' _].
      apply IH; [intros; apply Hz; now right|exact Hok'|].
      destruct ch; [|exact Hw]. apply Forall_app. split; [exact Hw|].
      constructor; [|constructor]. apply wf_fmt; [apply Hz; now left|exact Hf].
  Qed.

  Lemma report_at_wf st s1 f1 v : store_ok st -> sub_ok s1 = true -> fn_ok f1 = true ->
    store_ok (fst (report_at G related zones st s1 f1 v)) /\ Forall wf (snd (report_at G related zones st s1 f1 v)).
  Proof.
    intros Hok Hs Hf. unfold report_at.
    cbn zeta.
    match goal with |- context [if teqb f1 s_PWR then _ else (st, ?o)] => set (out1 := o) end.
    assert (W1 : Forall wf out1).
    { unfold out1. destruct (assoc f1 related) as [fs|] eqn:E.
      - apply Forall_flat_map. intros rf Hrf. destruct (skip_related G (get_data st s1 rf)); [constructor|].
        constructor; [|constructor]. apply wf_fmt; [exact Hs|eapply t_related; eauto].
      - constructor; [now apply wf_fmt|constructor]. }
    clearbody out1.
    destruct (teqb f1 s_PWR); [|split; [exact Hok|exact W1]].
    destruct (teqb s1 s_SYS).
    - destruct (fold_left (zone_step f1 v) zones (st, [])) as [st2 out2] eqn:F.
      destruct (zone_fold_wf f1 v Hf zones st [] st2 out2 t_zone Hok (Forall_nil _) F) as [Hok2 W2].
      destruct (put_data st2 (last zones []) s_PWRB v) as [[r ch] st3] eqn:P.
      destruct (put_data_spec _ _ _ _ _ _ _ Hok2 P) as [Hok3 _]. cbn [fst snd]. split; [exact Hok3|].
      apply Forall_app. split; [exact W1|]. apply Forall_app. split; [exact W2|].
      destruct ch; [|constructor]. constructor; [|constructor]. apply wf_fmt; [apply t_zone, t_last|reflexivity].
    - destruct (mem_text s1 zones); [|split; [exact Hok|exact W1]].
      match goal with |- context [put_data st s_SYS f1 ?sv] => destruct (put_data st s_SYS f1 sv) as [[r ch] st2] eqn:P end.
      destruct (put_data_spec _ _ _ _ _ _ _ Hok P) as [Hok2 _]. cbn [fst snd]. split; [exact Hok2|].
      apply Forall_app. split; [exact W1|]. destruct ch; [|constructor].
      constructor; [|constructor]. apply wf_fmt; [reflexivity|exact Hf].
  Qed.

  Lemma put_report_wf st s f v st' out : store_ok st -> sub_ok s = true -> fn_ok f = true ->
    put_report G related inp_map zones st s f v = Ok (st', out) -> store_ok st' /\ Forall wf out.
  Proof.
    intros Hok Hs Hf. unfold put_report.
    destruct (report_target G inp_map zones st s f v) as [[[s1 f1]|]|] eqn:R; [| |discriminate].
    - intros [= E]. assert (K : sub_ok s1 = true /\ fn_ok f1 = true).
      { revert R. unfold report_target. destruct (teqb f s_PLAYBACK).
        - destruct (negb _); [discriminate|]. destruct (mem_text s zones).
          + destruct (assoc (get_data st s s_INP) inp_map) as [[|sub r]|] eqn:A; try discriminate.
            intros [= <- <-]. split; [eapply t_inp; [exact A|now left]|reflexivity].
          + intros [= <- <-]. split; [exact Hs|reflexivity].
        - intros [= <- <-]. now split. }
      destruct K as [K1 K2]. pose proof (report_at_wf st s1 f1 v Hok K1 K2) as [A B].
      rewrite E in A, B. now split.
    - intros [= <- <-]. split; [exact Hok|constructor].
  Qed.

  Theorem handle_put_wf st s f v st' out : store_ok st ->
    handle_put G related inp_map zones py_float py_int py_str_float st s f v = Ok (st', out) ->
    store_ok st' /\ Forall wf out.
  Proof.
    intros Hok. unfold handle_put.
    destruct (teqb s s_SYS && teqb f s_REMOTECODE).
    { intros [= <- <-]. split; [exact Hok|]. destruct (Nat.eqb _ _); [constructor|]. constructor; [now apply wf_err|constructor]. }
    destruct (teqb f s_MEM). { intros [= <- <-]. split; [exact Hok|constructor]. }
    destruct (put_value G py_float py_int py_str_float st s f v) as [[v1|]|]; [| |discriminate].
    2:{ intros [= <- <-]. split; [exact Hok|]. constructor; [now apply wf_err|constructor]. }
    destruct (put_data st s f v1) as [[r ch] st1] eqn:P.
    destruct (put_data_spec _ _ _ _ _ _ _ Hok P) as [Hok1 [K [C Er]]].
    destruct r as [e|].
    - intros [= <- <-]. split; [exact Hok1|]. constructor; [apply wf_err; now apply Er|constructor].
    - destruct ch; [|intros [= <- <-]; split; [exact Hok1|constructor]].
      specialize (K eq_refl). apply key_ok_iff in K as [K1 K2]. now apply put_report_wf.
  Qed.

  (* C18 / C19: every line the server writes, for every received line and every store whose keys came out
     of the parser (every ingested store, and every store reached from one), is a well-formed YNCA line *)
  Theorem srv_wf st line st' out : store_ok st ->
    srv G multi related inp_map zones py_float py_int py_str_float st line = Ok (st', out) ->
    store_ok st' /\ Forall wf out.
  Proof.
    intros Hok. unfold srv.
    destruct (line_to_command line) as [[[s f] v]|] eqn:L.
    - pose proof (line_to_command_key_ok _ _ _ _ L) as K. apply key_ok_iff in K as [K1 K2].
      destruct (teqb v s_q).
      + destruct (handle_get G multi st s f) as [o|] eqn:E; [|discriminate].
        intros [= <- <-]. split; [exact Hok|]. eapply handle_get_wf; eauto.
      + now apply handle_put_wf.
    - intros [= <- <-]. split; [exact Hok|constructor].
  Qed.

  Theorem srv_run_wf lines : forall st st' outs, store_ok st ->
    srv_run G multi related inp_map zones py_float py_int py_str_float st lines = Ok (st', outs) ->
    store_ok st' /\ Forall (Forall wf) outs.
  Proof.
    induction lines as [|l r IH]; intros st st' outs Hok; cbn [srv_run].
    - intros [= <- <-]. split; [exact Hok|constructor].
    - destruct (srv_bytes _ _ _ _ _ _ _ _ st l) as [[st1 out]|] eqn:E; [|discriminate].
      assert (X : store_ok st1 /\ Forall wf out).
      { unfold srv_bytes in E. cbn [g_lenient good_cfg negb andb] in E. eapply srv_wf; eauto. }
      destruct X as [Hok1 W].
      destruct (srv_run _ _ _ _ _ _ _ _ st1 r) as [[st2 outs2]|] eqn:E2; [|discriminate].
      intros [= <- <-]. destruct (IH _ _ _ Hok1 E2) as [Hok2 W2]. split; [exact Hok2|now constructor].
  Qed.
End W.

(* ---------------------------------------------------------------- end to end: load, then ask *)
Lemma strip_ascii_id a m z : is_space_ascii a = false -> is_space_ascii z = false ->
  strip_ascii (a :: m ++ [z]) = a :: m ++ [z].
Proof.
  intros Ha Hz. unfold strip_ascii. cbn [lstrip_ascii]. rewrite Ha.
  assert (R : rev (a :: m ++ [z]) = z :: rev (a :: m)).
  { change (a :: m ++ [z]) with ((a :: m) ++ [z]). now rewrite rev_app_distr. }
  rewrite R. cbn [lstrip_ascii]. rewrite Hz. rewrite <- R. apply rev_involutive.
Qed.

Lemma query_line_parses s f : key_ok s f ->
  line_to_command (fmt_cmd s f s_q) = Some (s, f, s_q).
Proof.
  intro K. unfold fmt_cmd at 1. cbn [line_to_command]. rewrite N.eqb_refl.
  fold (fmt_cmd s f s_q). now rewrite key_ok_stable.
Qed.

Section Replay.
  Variable multi : list (text * list text).
  Variable related : list (text * list text).
  Variable inp_map : list (text * list text).
  Variable zones : list text.
  Variable py_float : text -> option fl.
  Variable py_int : text -> option Z.
  Variable py_str_float : Z * positive -> text.
  Variable json : bool.
  Variable py_json : text -> option text.
  Notation srv := (srv good_cfg multi related inp_map zones py_float py_int py_str_float).
  Notation clean := (Server.clean json py_json).
  Notation ingest := (Server.ingest json py_json).
  Notation value_line := (value_line json py_json).

  (* C18, the headline: loaded from ANY recording, the server answers a GET of an ordinary function with
     the last value the recording holds for it ... *)
  Theorem replay_last_value pre l post s f v :
    value_line l = Some (s, f, v) -> is_err v = false -> ordinary_get multi s f = true ->
    Forall (fun raw => forall v', line_to_command (clean raw) = Some (s, f, v') -> v' = s_q) post ->
    srv (ingest (pre ++ l :: post)) (fmt_cmd s f s_q) = Ok (ingest (pre ++ l :: post), [fmt_cmd s f v]).
  Proof.
    intros Hl He Ho Hp.
    assert (K : key_ok s f).
    { unfold value_line in Hl. destruct (_ || _); [discriminate|].
      destruct (line_to_command _) as [[[s' f'] v']|] eqn:L; [|discriminate].
      destruct (teqb v' s_q); [discriminate|]. injection Hl as <- <- <-. eapply line_to_command_key_ok; eauto. }
    assert (Hv : v <> s_UNDEFINED) by (intros ->; discriminate).
    unfold Server.srv. rewrite (query_line_parses s f K). rewrite teqb_refl.
    rewrite (get_ordinary multi _ s f Ho), (ingest_last_value json py_json pre l post s f v Hl Hv Hp), He. reflexivity.
  Qed.

  (* ... and with an error line when the recording never names it *)
  Theorem replay_unknown ls s f :
    key_ok s f -> ordinary_get multi s f = true ->
    Forall (fun raw => forall v', line_to_command (clean raw) <> Some (s, f, v')) ls ->
    srv (ingest ls) (fmt_cmd s f s_q) = Ok (ingest ls, [s_UNDEFINED]).
  Proof.
    intros K Ho Hp. unfold Server.srv. rewrite (query_line_parses s f K), teqb_refl.
    rewrite (get_ordinary multi _ s f Ho), (ingest_unnamed json py_json ls s f Hp). reflexivity.
  Qed.
End Replay.

Definition inp_ok (m : list (text * list text)) : bool :=
  forallb (fun p => match snd p with [] => false | _ => true end) m.
Lemma inp_ok_spec m : inp_ok m = true -> forall x, assoc x m <> Some [].
Proof.
  intros H x E. unfold inp_ok in H. rewrite forallb_forall in H.
  specialize (H _ (assoc_In _ _ _ E)). discriminate H.
Qed.
