From Coq Require Import List Arith Bool Lia.
From Ynca Require Import Model.Startup Gen.Params.
Import ListNotations.

Lemma subs_good_returned : forall oks n,
  o_out (subs good_scfg oks n) = Returned <-> forallb (fun b => b) oks = true.
Proof.
  induction oks as [|b oks IH]; intros n; cbn.
  - split; auto.
  - destruct b; cbn.
    + apply IH.
    + split; discriminate.
Qed.

Lemma subs_good_exposed : forall oks n,
  o_out (subs good_scfg oks n) = Returned -> o_exposed (subs good_scfg oks n) = n + length oks.
Proof.
  induction oks as [|b oks IH]; intros n H; cbn in *.
  - lia.
  - destruct b; cbn in *.
    + rewrite (IH (S n) H). lia.
    + discriminate.
Qed.

Lemma subs_good_raised : forall oks n,
  o_out (subs good_scfg oks n) = Raised -> o_released (subs good_scfg oks n) = true /\ o_exposed (subs good_scfg oks n) = O.
Proof.
  induction oks as [|b oks IH]; intros n H; cbn in *.
  - discriminate.
  - destruct b; cbn in *.
    + apply IH; exact H.
    + split; reflexivity.
Qed.

(* initialize() returns normally exactly when every phase got its synchronisation reply in time *)
Theorem startup_returns_iff_all_phases_ok : forall d oks,
  o_out (startup good_scfg d oks) = Returned <-> d = true /\ forallb (fun b => b) oks = true.
Proof.
  intros d oks. unfold startup. destruct d; cbn.
  - rewrite subs_good_returned. tauto.
  - split; [discriminate|intros [H _]; discriminate].
Qed.

(* a failed initialize() has released everything *)
Theorem startup_failure_releases : forall d oks,
  o_out (startup good_scfg d oks) = Raised ->
  o_released (startup good_scfg d oks) = true /\ o_exposed (startup good_scfg d oks) = O.
Proof.
  intros d oks. unfold startup. destruct d; cbn.
  - apply subs_good_raised.
  - intros _. split; reflexivity.
Qed.

(* a successful one exposes one object per phase (SYS and every detected subunit) and has closed nothing *)
Theorem startup_success_exposes_all : forall d oks,
  o_out (startup good_scfg d oks) = Returned ->
  o_exposed (startup good_scfg d oks) = length oks /\ o_released (startup good_scfg d oks) = false.
Proof.
  intros d oks H. pose proof H as H0. apply startup_returns_iff_all_phases_ok in H0. destruct H0 as [-> Hall].
  unfold startup in *; cbn in *. split.
  - rewrite (subs_good_exposed oks O H). reflexivity.
  - clear H. revert Hall. generalize O. induction oks as [|b oks IH]; intros n Hall; cbn in *; [reflexivity|].
    destruct b; cbn in *; [apply IH; exact Hall|discriminate].
Qed.

(* were a failing subunit skipped instead (s_propagates = false), initialize() would return normally with a phase
   that never got its reply: the witness is the replay *)
Definition cfg_swallow : scfg := {| s_detect_raises := true; s_subinit_raises := true; s_propagates := false; s_finally_closes := true |}.

Theorem swallow_refuted : exists d oks, forallb (fun b => b) oks = false /\ o_out (startup cfg_swallow d oks) = Returned.
Proof. exists true, [true; true; false]. split; reflexivity. Qed.

(* ---------------------------------------------------------------- what the code does today (regenerated) *)
Definition gen_scfg : scfg :=
  {| s_detect_raises := p_detect_raises; s_subinit_raises := p_subinit_raises; s_propagates := p_init_failure_propagates;
     s_finally_closes := p_finally_closes |}.

Lemma gen_scfg_good : gen_scfg = good_scfg.
Proof. reflexivity. Qed.
