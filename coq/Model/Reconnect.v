(* One YncaConnection object, two sessions: close() of the first session, connect() again on the same object,
   and the FIRST session's reader thread winding down at any point in between or afterwards.

   What is shared by the two sessions is the object's `_closed` flag; what belongs to the old session is its
   protocol object with its `_disconnect_callback`.  The old reader thread, when it ends, runs
   connection_lost(): reads the protocol's callback; if there is one, calls it: that is connect()'s wrapper,
   which reads `_closed` and calls the user's callback unless it is set.

   The three facts about the code that matter are parameters, read off the AST of ynca/connection.py on
   every run (Gen/Params.v): does close() clear the protocol's callback, does the wrapper test `_closed`,
   does connect() reset `_closed`. *)
From Coq Require Import List Arith Bool Lia.
Import ListNotations.

Record rcfg := { c_clears : bool; c_wrapper_checks : bool; c_rearms : bool }.

Inductive opc :=
| OLive                (* the old reader is still in its loop (or inside a callback) *)
| OGot (b : bool)      (* connection_lost has read `_disconnect_callback`: is there one? *)
| OWrap                (* inside connect()'s wrapper, about to read `_closed` *)
| ODone.

Record rst := {
  r_closed : bool;          (* YncaConnection._closed *)
  r_old_cb : bool;          (* the old protocol's _disconnect_callback is not None *)
  r_old : opc;
  r_close_called : bool;    (* close() has been called on the first session *)
  r_reconnected : bool;
  r_user_calls : nat        (* invocations of the user's disconnect callback *)
}.

Definition rinit : rst :=
  {| r_closed := false; r_old_cb := true; r_old := OLive; r_close_called := false; r_reconnected := false; r_user_calls := O |}.

Inductive ract :=
| RClose         (* close(): _closed := True; protocol._disconnect_callback := None (if the code does that) *)
| RConnect       (* connect() on the same object: _closed := False (if the code does that) *)
| ROldRead       (* the old reader ends -- the link is healthy, so only because close() stopped it -- and
                    connection_lost reads the callback *)
| ROldCall       (* `if self._disconnect_callback:` -> call it / nothing to call *)
| ROldWrapper.   (* the wrapper reads _closed and calls the user's callback unless set *)

Section R.
Variable c : rcfg.

Definition rstep (s : rst) (a : ract) : option rst :=
  match a with
  | RClose =>
      Some {| r_closed := true; r_old_cb := if c_clears c then false else r_old_cb s; r_old := r_old s;
              r_close_called := true; r_reconnected := r_reconnected s; r_user_calls := r_user_calls s |}
  | RConnect =>
      if r_close_called s
      then Some {| r_closed := if c_rearms c then false else r_closed s; r_old_cb := r_old_cb s; r_old := r_old s;
                   r_close_called := true; r_reconnected := true; r_user_calls := r_user_calls s |}
      else None
  | ROldRead =>
      match r_old s, r_close_called s with
      | OLive, true => Some {| r_closed := r_closed s; r_old_cb := r_old_cb s; r_old := OGot (r_old_cb s);
                               r_close_called := true; r_reconnected := r_reconnected s; r_user_calls := r_user_calls s |}
      | _, _ => None
      end
  | ROldCall =>
      match r_old s with
      | OGot b => Some {| r_closed := r_closed s; r_old_cb := r_old_cb s; r_old := if b then OWrap else ODone;
                          r_close_called := r_close_called s; r_reconnected := r_reconnected s; r_user_calls := r_user_calls s |}
      | _ => None
      end
  | ROldWrapper =>
      match r_old s with
      | OWrap => Some {| r_closed := r_closed s; r_old_cb := r_old_cb s; r_old := ODone;
                         r_close_called := r_close_called s; r_reconnected := r_reconnected s;
                         r_user_calls := if c_wrapper_checks c && r_closed s then r_user_calls s else S (r_user_calls s) |}
      | _ => None
      end
  end.

Fixpoint rrun (s : rst) (tr : list ract) : option rst :=
  match tr with
  | [] => Some s
  | a :: rest => match rstep s a with Some s' => rrun s' rest | None => None end
  end.

(* for the correspondence: where a trace is refused, if anywhere *)
Fixpoint rrun_diag (s : rst) (tr : list ract) (n : nat) : rst * option nat :=
  match tr with
  | [] => (s, None)
  | a :: rest => match rstep s a with Some s' => rrun_diag s' rest (S n) | None => (s, Some n) end
  end.
End R.
