(* Flat numeric encodings of model results, printed by the generated cases files and decoded
   by vlib/coqio.py.  SEP = 1114112 (one past the last code point) never occurs in text. *)
From Coq Require Import List NArith ZArith Bool.
From Ynca Require Import Base.Text Model.Enum Model.Conv.
Import ListNotations.
Open Scope N_scope.

Definition SEP : N := 1114112.
Definition END : N := 1114113.

Definition show_Z (z : Z) : list N :=
  match z with Z0 => [0; 0] | Zpos p => [0; Npos p] | Zneg p => [1; Npos p] end.

Definition show_fnum (x : fnum) : list N :=
  match x with
  | FDec m k => 3 :: show_Z m ++ [N.of_nat k]
  | FRat n d => 4 :: show_Z n ++ [Npos d]
  | FNan => [5]
  | FInf neg => [6; if neg then 1 else 0]
  end.

Definition show_value (v : value) : list N :=
  match v with
  | VMember en mn => 1 :: en ++ SEP :: mn
  | VStr t => 2 :: t
  | VFloat x => show_fnum x
  | VInt z => 7 :: show_Z z
  | VNone => [8]
  end.

Definition show_res {A} (f : A -> list N) (r : res A) : list N :=
  match r with Ok a => f a ++ [END] | Raise => [0; END] end.

Definition show_res_value := show_res show_value.
Definition show_res_text := show_res (fun t : text => 2 :: t).

Definition show_option {A} (f : A -> list N) (r : option A) : list N :=
  match r with Some a => 1 :: f a ++ [END] | None => [0; END] end.

(* oracle tables *)
Definition table_float (tb : list (text * fnum)) : text -> option fnum := fun s => assoc s tb.
Definition table_int (tb : list (text * Z)) : text -> option Z := fun s => assoc s tb.

(* ---- messages (C02, C10, C13) *)
From Ynca Require Import Model.Line.
Definition END2 : N := 1114114.

Definition show_status (s : status) : N :=
  match s with StOK => 0 | StUNDEFINED => 1 | StRESTRICTED => 2 end.

Definition show_msg (m : msg) : list N :=
  show_status (fst m) ::
  match snd m with
  | None => [0]
  | Some (s, f, v) => 1 :: s ++ SEP :: f ++ SEP :: v
  end ++ [END].

(* ---- subunit states (C03, C09, C10) *)
From Ynca Require Import Model.Subunit.

Definition show_reads (sc : subunit_class) (st : sub_state) : list N :=
  flat_map (fun f => show_option show_value (read st (f_name f))) (sc_funcs sc).

Definition show_notes (ns : list (text * value)) : list N :=
  flat_map (fun n => (fst n ++ SEP :: show_value (snd n)) ++ [END]) ns.

Definition show_sub_result (sc : subunit_class) (r : res (sub_state * list (text * value))) : list N :=
  match r with
  | Raise => [10; END; END2]
  | Ok (st, ns) => show_reads sc st ++ [7; END] ++ show_notes ns ++ [END2]
  end.

(* ---- puts (C05) *)
From Ynca Require Import Model.Put.
Definition show_put (p : put) : list N :=
  let '(s, f, v) := p in (s ++ SEP :: f ++ SEP :: v ++ [END])%list.

Definition show_put_result (r : option (res (list put))) : list N :=
  match r with
  | None => [11; END; END2]
  | Some Raise => [10; END; END2]
  | Some (Ok l) => (12 :: END :: flat_map show_put l ++ [END2])%list
  end.

(* ---- connection machine (C01, C08, C12, C13, C20) *)
From Ynca Require Import Model.Conn.
Open Scope N_scope.
Definition show_item (i : item) : list N :=
  match i with IKA => [1] | IExit => [2] | ICmd n t => 3 :: N.of_nat n :: t end.

Definition show_conn (r : cstate * option nat) : list N :=
  let '(s, d) := r in
  ((match d with None => [0] | Some n => [1; N.of_nat n] end) ++ [END] ++
   flat_map (fun w => (Z.to_N (fst w) :: show_item (snd w)) ++ [END]) (g_wire s) ++ [7; END] ++
   flat_map show_msg (g_delivered s) ++ [7; END] ++
   flat_map (fun e => (match e with LSend t => 1 :: t | LRecv t => 2 :: t end) ++ [END]) (logbuf s) ++
   [7; END] ++ flat_map (fun l => (8 :: l) ++ [END]) (g_withheld s) ++ [END2])%list.
