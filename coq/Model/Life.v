(* Life cycle of a connection: the reader thread's exit path (ReaderThread.run -> connection_lost),
   close() from threads other than the reader (YncaConnection.close -> ReaderThread.close/stop) and
   from the reader thread itself (inside a callback), with an abstract sender.  Actions are the
   primitive events recorded by the simulation harness.  Definitions only. *)
From Coq Require Import List NArith ZArith Bool.
Import ListNotations.
Local Open Scope Z_scope.

Inductive lrpc :=
| LRun                 (* in the read loop (reading, or handling data: callbacks run here) *)
| LExit                (* left the loop (error, EOF, cancelled + not alive, port closed): about to run connection_lost *)
| LDrain               (* connected := False done; draining the queue *)
| LPutExit             (* queue found empty: about to enqueue the exit marker *)
| LJoinStart           (* about to join the sender *)
| LJoin (dl : Z)       (* joining the sender, deadline dl *)
| LGetCb               (* about to read _disconnect_callback *)
| LCall                (* the test `if self._disconnect_callback` was true: about to read it again for the call *)
| LCall2               (* read it again: about to call it *)
| LInCb                (* inside the disconnect callback *)
| LDone.               (* thread finished *)

Inductive kpc :=         (* close() on a thread other than the reader *)
| KClr                 (* about to clear _disconnect_callback *)
| KLock                (* about to take the write lock *)
| KStop                (* holds the lock: alive := False, cancel_read *)
| KJoinStart
| KJoin (dl : Z)       (* joining the reader *)
| KPortClose
| KUnlock
| KDone.               (* close() returned *)

Inductive kself :=       (* close() on the reader thread (inside a callback) *)
| QNone                (* not in progress *)
| QClr | QClearCbs | QLock | QStop | QPortClose | QUnlock.

Record lstate := {
  l_now : Z;
  l_connected : bool;
  l_cb : bool;                       (* _disconnect_callback is not None *)
  l_alive : bool;                    (* ReaderThread.alive *)
  l_open : bool;                     (* port.is_open *)
  l_lock : option nat;               (* write lock owner *)
  l_rpc : lrpc;
  l_self : kself;
  l_closers : list (nat * kpc);      (* close() calls in progress or finished, by thread *)
  l_sender_done : bool;
  l_exit_queued : bool;
  (* ghost *)
  g_disc_calls : nat;                (* invocations of the disconnect callback *)
  g_cleared : bool;                  (* some close() has cleared the callback *)
  g_calls_after_clear : nat;         (* disconnect callbacks read after a clear and then invoked *)
  g_writes_after_close : nat;        (* successful port writes after the port was closed *)
  g_delivers_after_lost : nat;       (* message deliveries started after connected became False *)
  g_closed_returned : bool;          (* some close() has returned *)
  l_closed : bool;                   (* YncaConnection._closed: some close() has started *)
  g_user_calls : nat                 (* invocations of the USER's disconnect callback (suppressed once _closed) *)
}.

Inductive laction :=
| LTick (d : Z)
(* reader *)
| LLoopExit                         (* read raised / returned cancelled with alive false / port closed / data_received raised *)
| LSetConnFalse | LDrainDeq | LDrainEmpty | LEnqExit | LJoinStartA (dl : Z) | LJoinEnd
| LGetCbA (present : bool) | LGetCb2A (present : bool) | LCallCb | LFinish
| LDeliver                          (* a message delivery starts (reader in its loop) *)
(* sender (abstract) *)
| LSenderWrite (ok : bool)          (* a port write by the sender: succeeds iff the port is open *)
| LSenderExit
(* close() on another thread *)
| KStart (tid : nat) | KClrA (tid : nat) | KLockA (tid : nat) | KStopA (tid : nat)
| KJoinStartA (tid : nat) (dl : Z) | KJoinEndA (tid : nat) | KPortCloseA (tid : nat)
| KUnlockA (tid : nat) | KReturn (tid : nat)
(* close() on the reader thread *)
| QStart | QClrA | QClearCbsA | QLockA | QStopA | QPortCloseA | QUnlockA
(* the sender's use of the lock *)
| SLockA | SUnlockA.

Section L.
  Variable join_sender : Z.   (* connection_lost: join(2) *)
  Variable join_reader : Z.   (* ReaderThread.stop: join(2) *)

  Definition linit (cb : bool) : lstate :=
    {| l_now := 0; l_connected := true; l_cb := cb; l_alive := true; l_open := true; l_lock := None;
       l_rpc := LRun; l_self := QNone; l_closers := []; l_sender_done := false; l_exit_queued := false;
       g_disc_calls := O; g_cleared := false; g_calls_after_clear := O; g_writes_after_close := O;
       g_delivers_after_lost := O; g_closed_returned := false; l_closed := false; g_user_calls := O |}.

  Fixpoint kfind (tid : nat) (l : list (nat * kpc)) : option kpc :=
    match l with
    | [] => None
    | (t, p) :: r => if Nat.eqb t tid then Some p else kfind tid r
    end.

  Fixpoint kset (tid : nat) (p : kpc) (l : list (nat * kpc)) : list (nat * kpc) :=
    match l with
    | [] => [(tid, p)]
    | (t, p0) :: r => if Nat.eqb t tid then (t, p) :: r else (t, p0) :: kset tid p r
    end.

  Definition upd (s : lstate) (now : Z) (conn cb alive open : bool) (lock : option nat) (r : lrpc)
             (q : kself) (ks : list (nat * kpc)) (sd ex : bool)
             (dc : nat) (cl : bool) (cac wac dal : nat) (cr : bool) : lstate :=
    {| l_now := now; l_connected := conn; l_cb := cb; l_alive := alive; l_open := open; l_lock := lock;
       l_rpc := r; l_self := q; l_closers := ks; l_sender_done := sd; l_exit_queued := ex;
       g_disc_calls := dc; g_cleared := cl; g_calls_after_clear := cac; g_writes_after_close := wac;
       g_delivers_after_lost := dal; g_closed_returned := cr;
       l_closed := l_closed s; g_user_calls := g_user_calls s |}.

  Definition set_rpc (s : lstate) (r : lrpc) : lstate :=
    upd s (l_now s) (l_connected s) (l_cb s) (l_alive s) (l_open s) (l_lock s) r (l_self s) (l_closers s)
        (l_sender_done s) (l_exit_queued s) (g_disc_calls s) (g_cleared s) (g_calls_after_clear s)
        (g_writes_after_close s) (g_delivers_after_lost s) (g_closed_returned s).

  Definition set_closer (s : lstate) (tid : nat) (p : kpc) : lstate :=
    upd s (l_now s) (l_connected s) (l_cb s) (l_alive s) (l_open s) (l_lock s) (l_rpc s) (l_self s)
        (kset tid p (l_closers s))
        (l_sender_done s) (l_exit_queued s) (g_disc_calls s) (g_cleared s) (g_calls_after_clear s)
        (g_writes_after_close s) (g_delivers_after_lost s) (g_closed_returned s).

  Definition set_self (s : lstate) (q : kself) : lstate :=
    upd s (l_now s) (l_connected s) (l_cb s) (l_alive s) (l_open s) (l_lock s) (l_rpc s) q (l_closers s)
        (l_sender_done s) (l_exit_queued s) (g_disc_calls s) (g_cleared s) (g_calls_after_clear s)
        (g_writes_after_close s) (g_delivers_after_lost s) (g_closed_returned s).

  Definition with_closed (s : lstate) (c : bool) (u : nat) : lstate :=
    {| l_now := l_now s; l_connected := l_connected s; l_cb := l_cb s; l_alive := l_alive s;
       l_open := l_open s; l_lock := l_lock s; l_rpc := l_rpc s; l_self := l_self s;
       l_closers := l_closers s; l_sender_done := l_sender_done s; l_exit_queued := l_exit_queued s;
       g_disc_calls := g_disc_calls s; g_cleared := g_cleared s;
       g_calls_after_clear := g_calls_after_clear s; g_writes_after_close := g_writes_after_close s;
       g_delivers_after_lost := g_delivers_after_lost s; g_closed_returned := g_closed_returned s;
       l_closed := c; g_user_calls := u |}.

  Definition lstep (s : lstate) (a : laction) : option lstate :=
    match a with
    | LTick d =>
        if 0 <=? d then
          Some (upd s (l_now s + d) (l_connected s) (l_cb s) (l_alive s) (l_open s) (l_lock s) (l_rpc s)
                    (l_self s) (l_closers s) (l_sender_done s) (l_exit_queued s) (g_disc_calls s)
                    (g_cleared s) (g_calls_after_clear s) (g_writes_after_close s)
                    (g_delivers_after_lost s) (g_closed_returned s))
        else None
    (* ------------------------------------------------------------ reader *)
    | LDeliver =>
        match l_rpc s, l_self s with
        | LRun, QNone =>
            Some (upd s (l_now s) (l_connected s) (l_cb s) (l_alive s) (l_open s) (l_lock s) (l_rpc s)
                      (l_self s) (l_closers s) (l_sender_done s) (l_exit_queued s) (g_disc_calls s)
                      (g_cleared s) (g_calls_after_clear s) (g_writes_after_close s)
                      (if l_connected s then g_delivers_after_lost s else S (g_delivers_after_lost s))
                      (g_closed_returned s))
        | _, _ => None
        end
    | LLoopExit =>
        match l_rpc s, l_self s with
        | LRun, QNone => Some (set_rpc s LExit)
        | _, _ => None
        end
    | LSetConnFalse =>
        match l_rpc s with
        | LExit =>
            Some (upd s (l_now s) false (l_cb s) false (l_open s) (l_lock s) LDrain (l_self s) (l_closers s)
                      (l_sender_done s) (l_exit_queued s) (g_disc_calls s) (g_cleared s)
                      (g_calls_after_clear s) (g_writes_after_close s) (g_delivers_after_lost s)
                      (g_closed_returned s))
        | _ => None
        end
    | LDrainDeq => match l_rpc s with LDrain => Some s | _ => None end
    | LDrainEmpty => match l_rpc s with LDrain => Some (set_rpc s LPutExit) | _ => None end
    | LEnqExit =>
        match l_rpc s with
        | LPutExit =>
            Some (upd s (l_now s) (l_connected s) (l_cb s) (l_alive s) (l_open s) (l_lock s) LJoinStart
                      (l_self s) (l_closers s) (l_sender_done s) true (g_disc_calls s) (g_cleared s)
                      (g_calls_after_clear s) (g_writes_after_close s) (g_delivers_after_lost s)
                      (g_closed_returned s))
        | _ => None
        end
    | LJoinStartA dl =>
        match l_rpc s with
        | LJoinStart => if dl =? l_now s + join_sender then Some (set_rpc s (LJoin dl)) else None
        | _ => None
        end
    | LJoinEnd =>
        match l_rpc s with
        | LJoin dl => if l_sender_done s || (dl <=? l_now s) then Some (set_rpc s LGetCb) else None
        | _ => None
        end
    | LGetCbA present =>
        match l_rpc s with
        | LGetCb =>
            if Bool.eqb present (l_cb s) then
              Some (upd s (l_now s) (l_connected s) (l_cb s) (l_alive s) (l_open s) (l_lock s)
                        (if present then LCall else LDone) (l_self s) (l_closers s) (l_sender_done s)
                        (l_exit_queued s) (g_disc_calls s) (g_cleared s)
                        (if present && g_cleared s then S (g_calls_after_clear s) else g_calls_after_clear s)
                        (g_writes_after_close s) (g_delivers_after_lost s) (g_closed_returned s))
            else None
        | _ => None
        end
    | LGetCb2A present =>
        (* the second read of the attribute, for the call itself; if a close() cleared it in between,
           calling None raises TypeError and the reader thread ends without invoking anything *)
        match l_rpc s with
        | LCall =>
            if Bool.eqb present (l_cb s) then Some (set_rpc s (if present then LCall2 else LDone)) else None
        | _ => None
        end
    | LCallCb =>
        match l_rpc s with
        | LCall2 =>
            (* the protocol calls YncaConnection's wrapper, which calls the user's callback unless _closed *)
            Some (with_closed
                    (upd s (l_now s) (l_connected s) (l_cb s) (l_alive s) (l_open s) (l_lock s) LInCb
                         (l_self s) (l_closers s) (l_sender_done s) (l_exit_queued s)
                         (S (g_disc_calls s)) (g_cleared s) (g_calls_after_clear s)
                         (g_writes_after_close s) (g_delivers_after_lost s) (g_closed_returned s))
                    (l_closed s) (if l_closed s then g_user_calls s else S (g_user_calls s)))
        | _ => None
        end
    | LFinish => match l_rpc s, l_self s with LInCb, QNone => Some (set_rpc s LDone) | LDone, _ => Some s | _, _ => None end
    (* ------------------------------------------------------------ sender *)
    | LSenderWrite ok =>
        (* a write succeeds only on an open port; it may fail on an open one too (I/O error) *)
        if l_sender_done s then None
        else if ok && negb (l_open s) then None
        else Some s
    | LSenderExit =>
        Some (upd s (l_now s) (l_connected s) (l_cb s) (l_alive s) (l_open s) (l_lock s) (l_rpc s)
                  (l_self s) (l_closers s) true (l_exit_queued s) (g_disc_calls s) (g_cleared s)
                  (g_calls_after_clear s) (g_writes_after_close s) (g_delivers_after_lost s)
                  (g_closed_returned s))
    | SLockA =>
        match l_lock s with
        | None => if l_sender_done s then None else
            Some (upd s (l_now s) (l_connected s) (l_cb s) (l_alive s) (l_open s) (Some O) (l_rpc s)
                      (l_self s) (l_closers s) (l_sender_done s) (l_exit_queued s) (g_disc_calls s)
                      (g_cleared s) (g_calls_after_clear s) (g_writes_after_close s)
                      (g_delivers_after_lost s) (g_closed_returned s))
        | Some _ => None
        end
    | SUnlockA =>
        match l_lock s with
        | Some O =>
            Some (upd s (l_now s) (l_connected s) (l_cb s) (l_alive s) (l_open s) None (l_rpc s)
                      (l_self s) (l_closers s) (l_sender_done s) (l_exit_queued s) (g_disc_calls s)
                      (g_cleared s) (g_calls_after_clear s) (g_writes_after_close s)
                      (g_delivers_after_lost s) (g_closed_returned s))
        | _ => None
        end
    (* ------------------------------------------------------------ close() on another thread *)
    | KStart tid =>
        (* self._closed = True; a previous close() of this thread that found nothing to do left it at KClr *)
        match kfind tid (l_closers s) with
        | None | Some KDone | Some KClr => Some (with_closed (set_closer s tid KClr) true (g_user_calls s))
        | _ => None
        end
    | KClrA tid =>
        match kfind tid (l_closers s) with
        | Some KClr =>
            Some (upd s (l_now s) (l_connected s) false (l_alive s) (l_open s) (l_lock s) (l_rpc s)
                      (l_self s) (kset tid KLock (l_closers s)) (l_sender_done s) (l_exit_queued s)
                      (g_disc_calls s) true (g_calls_after_clear s) (g_writes_after_close s)
                      (g_delivers_after_lost s) (g_closed_returned s))
        | _ => None
        end
    | KLockA tid =>
        match kfind tid (l_closers s), l_lock s with
        | Some KLock, None | Some KClr, None =>
            Some (upd s (l_now s) (l_connected s) (l_cb s) (l_alive s) (l_open s) (Some (S tid)) (l_rpc s)
                      (l_self s) (kset tid KStop (l_closers s)) (l_sender_done s) (l_exit_queued s)
                      (g_disc_calls s) (g_cleared s) (g_calls_after_clear s) (g_writes_after_close s)
                      (g_delivers_after_lost s) (g_closed_returned s))
        | _, _ => None
        end
    | KStopA tid =>
        match kfind tid (l_closers s) with
        | Some KStop =>
            Some (upd s (l_now s) (l_connected s) (l_cb s) false (l_open s) (l_lock s) (l_rpc s)
                      (l_self s) (kset tid KJoinStart (l_closers s)) (l_sender_done s) (l_exit_queued s)
                      (g_disc_calls s) (g_cleared s) (g_calls_after_clear s) (g_writes_after_close s)
                      (g_delivers_after_lost s) (g_closed_returned s))
        | _ => None
        end
    | KJoinStartA tid dl =>
        match kfind tid (l_closers s) with
        | Some KJoinStart =>
            if dl =? l_now s + join_reader then Some (set_closer s tid (KJoin dl)) else None
        | _ => None
        end
    | KJoinEndA tid =>
        match kfind tid (l_closers s) with
        | Some (KJoin dl) =>
            if (match l_rpc s with LDone => true | _ => false end) || (dl <=? l_now s)
            then Some (set_closer s tid KPortClose) else None
        | _ => None
        end
    | KPortCloseA tid =>
        match kfind tid (l_closers s) with
        | Some KPortClose =>
            Some (upd s (l_now s) (l_connected s) (l_cb s) (l_alive s) false (l_lock s) (l_rpc s)
                      (l_self s) (kset tid KUnlock (l_closers s)) (l_sender_done s) (l_exit_queued s)
                      (g_disc_calls s) (g_cleared s) (g_calls_after_clear s) (g_writes_after_close s)
                      (g_delivers_after_lost s) (g_closed_returned s))
        | _ => None
        end
    | KUnlockA tid =>
        match kfind tid (l_closers s), l_lock s with
        | Some KUnlock, Some (S t) =>
            if Nat.eqb t tid then
              Some (upd s (l_now s) (l_connected s) (l_cb s) (l_alive s) (l_open s) None (l_rpc s)
                        (l_self s) (kset tid KDone (l_closers s)) (l_sender_done s) (l_exit_queued s)
                        (g_disc_calls s) (g_cleared s) (g_calls_after_clear s) (g_writes_after_close s)
                        (g_delivers_after_lost s) (g_closed_returned s))
            else None
        | _, _ => None
        end
    | KReturn tid =>
        match kfind tid (l_closers s) with
        | Some KDone =>
            Some (upd s (l_now s) (l_connected s) (l_cb s) (l_alive s) (l_open s) (l_lock s) (l_rpc s)
                      (l_self s) (l_closers s) (l_sender_done s) (l_exit_queued s)
                      (g_disc_calls s) (g_cleared s) (g_calls_after_clear s) (g_writes_after_close s)
                      (g_delivers_after_lost s) true)
        | _ => None
        end
    (* ------------------------------------------------------------ close() on the reader thread *)
    | QStart =>
        match l_rpc s, l_self s with
        | LRun, QNone => Some (with_closed (set_self s QClr) true (g_user_calls s))
        | LInCb, QNone => Some (with_closed (set_self s QClr) true (g_user_calls s))     (* inside the disconnect callback *)
        | _, _ => None
        end
    | QClrA =>
        match l_self s with
        | QClr =>
            Some (upd s (l_now s) (l_connected s) false (l_alive s) (l_open s) (l_lock s) (l_rpc s)
                      QClearCbs (l_closers s) (l_sender_done s) (l_exit_queued s)
                      (g_disc_calls s) true (g_calls_after_clear s) (g_writes_after_close s)
                      (g_delivers_after_lost s) (g_closed_returned s))
        | _ => None
        end
    | QClearCbsA => match l_self s with QClearCbs | QClr => Some (set_self s QLock) | _ => None end
    | QLockA =>
        match l_self s, l_lock s with
        | QLock, None =>
            Some (upd s (l_now s) (l_connected s) (l_cb s) (l_alive s) (l_open s) (Some 1%nat) (l_rpc s)
                      QStop (l_closers s) (l_sender_done s) (l_exit_queued s)
                      (g_disc_calls s) (g_cleared s) (g_calls_after_clear s) (g_writes_after_close s)
                      (g_delivers_after_lost s) (g_closed_returned s))
        | _, _ => None
        end
    | QStopA =>
        match l_self s with
        | QStop =>
            Some (upd s (l_now s) (l_connected s) (l_cb s) false (l_open s) (l_lock s) (l_rpc s)
                      QPortClose (l_closers s) (l_sender_done s) (l_exit_queued s)
                      (g_disc_calls s) (g_cleared s) (g_calls_after_clear s) (g_writes_after_close s)
                      (g_delivers_after_lost s) (g_closed_returned s))
        | _ => None
        end
    | QPortCloseA =>
        match l_self s with
        | QPortClose =>
            Some (upd s (l_now s) (l_connected s) (l_cb s) (l_alive s) false (l_lock s) (l_rpc s)
                      QUnlock (l_closers s) (l_sender_done s) (l_exit_queued s)
                      (g_disc_calls s) (g_cleared s) (g_calls_after_clear s) (g_writes_after_close s)
                      (g_delivers_after_lost s) (g_closed_returned s))
        | _ => None
        end
    | QUnlockA =>
        match l_self s, l_lock s with
        | QUnlock, Some 1%nat =>
            Some (upd s (l_now s) (l_connected s) (l_cb s) (l_alive s) (l_open s) None (l_rpc s)
                      QNone (l_closers s) (l_sender_done s) (l_exit_queued s)
                      (g_disc_calls s) (g_cleared s) (g_calls_after_clear s) (g_writes_after_close s)
                      (g_delivers_after_lost s) true)
        | _, _ => None
        end
    end.

  Fixpoint lrun (s : lstate) (l : list laction) : option lstate :=
    match l with
    | [] => Some s
    | a :: r => match lstep s a with Some s' => lrun s' r | None => None end
    end.

  Fixpoint lrun_diag (s : lstate) (l : list laction) (n : nat) : lstate * option nat :=
    match l with
    | [] => (s, None)
    | a :: r => match lstep s a with Some s' => lrun_diag s' r (S n) | None => (s, Some n) end
    end.
End L.
