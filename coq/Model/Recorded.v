(* Boolean checks over recorded (subunit, function, value) triples (C04).  Definitions only. *)
From Coq Require Import List NArith ZArith Bool.
From Ynca Require Import Base.Text Base.Decimal Model.Enum Model.Conv.
Import ListNotations.

Definition no_float : text -> option fnum := fun _ => None.
Definition no_int : text -> option Z := fun _ => None.

Definition zk_eqb (a b : Z * nat) : bool := Z.eqb (fst a) (fst b) && Nat.eqb (snd a) (snd b).

(* the literal table produced by the independent reader (Python's Fraction) *)
Definition lit_agrees (lits : list (text * (Z * nat))) (v : text) (mk : Z * nat) : bool :=
  match assoc v lits with Some mk' => zk_eqb mk mk' | None => false end.

(* enumerated: proper member that re-encodes to the identical text *)
Definition enum_rec_ok (e : enum) (v : text) : bool :=
  match enum_decode e v with
  | Ok n => negb (teqb n t_UNKNOWN) &&
            match enum_encode e n with Ok w => teqb w v | Raise => false end
  | Raise => false
  end.

(* numeric (float): a plain literal decodes to exactly the rational it denotes *)
Definition float_rec_ok lits (v : text) : bool :=
  match dec_parse v with Some mk => lit_agrees lits v mk | None => true end.

(* numeric (int): a plain decimal literal must be an integer literal with that value *)
Definition int_rec_ok lits (v : text) : bool :=
  match dec_parse v with
  | Some _ => match int_parse v with Some z => lit_agrees lits v (z, O) | None => false end
  | None => true
  end.

Fixpoint conv_rec_ok lits (c : conv) (v : text) : bool :=
  match c with
  | CEnum e => enum_rec_ok e v
  | CStr _ _ => true
  | CInt _ | CIntOrNone _ => int_rec_ok lits v
  | CFloat _ => float_rec_ok lits v
  | CMulti cs =>
      (* the first converter decides when the text is a number for it; otherwise the rest *)
      (fix go (l : list conv) : bool :=
         match l with
         | [] => false
         | [c'] => conv_rec_ok lits c' v
         | c' :: r =>
             match c' with
             | CFloat _ => match dec_parse v with Some _ => float_rec_ok lits v | None => go r end
             | CInt _ | CIntOrNone _ => match int_parse v with Some _ => int_rec_ok lits v | None => go r end
             | _ => conv_rec_ok lits c' v
             end
         end) cs
  | COpaque => false
  end.

Definition triple_ok (scs : list subunit_class) lits (t : text * text * text) : bool :=
  let '(s, f, v) := t in
  match find_class scs s with
  | None => true
  | Some sc =>
      match find_func sc f with
      | None => true
      | Some fn => conv_rec_ok lits (f_conv fn) v
      end
  end.

Definition triple_modelled (scs : list subunit_class) (t : text * text * text) : bool :=
  let '(s, f, v) := t in
  match find_class scs s with
  | None => false
  | Some sc => match find_func sc f with None => false | Some _ => true end
  end.

Definition recording_ok scs lits (r : text * list (text * text * text)) : bool :=
  forallb (triple_ok scs lits) (snd r).

Definition used_enums (scs : list subunit_class) : list enum :=
  flat_map (fun sc => flat_map (fun f => conv_enums (f_conv f)) (sc_funcs sc)) scs.

Definition all_convs_known (scs : list subunit_class) : bool :=
  forallb (fun sc => forallb (fun f => conv_known (f_conv f)) (sc_funcs sc)) scs.
