(* Packetizer.data_received with TERMINATOR = CR LF:
     buffer.extend(data); while CRLF in buffer: packet, buffer = buffer.split(CRLF, 1); handle_packet(packet)
   `scan b` = (packets split off, remaining buffer) for the whole buffer content b, splitting at
   the FIRST occurrence of CR LF each time.  Definitions only. *)
From Coq Require Import List NArith Bool.
From Ynca Require Import Base.Text.
Import ListNotations.
Open Scope N_scope.

Definition cons_first (x : N) (pr : list bytes * bytes) : list bytes * bytes :=
  match pr with
  | ([], rest) => ([], x :: rest)
  | (p :: ps, rest) => ((x :: p) :: ps, rest)
  end.

Fixpoint scan (buf : bytes) : list bytes * bytes :=
  match buf with
  | [] => ([], [])
  | x :: r =>
      match r with
      | y :: r' =>
          if (x =? c_cr) && (y =? c_lf) then
            let '(ps, rest) := scan r' in ([] :: ps, rest)
          else cons_first x (scan r)
      | [] => ([], [x])
      end
  end.

(* one call of data_received: old buffer, new chunk -> packets handled, new buffer *)
Definition feed (buf chunk : bytes) : list bytes * bytes := scan (buf ++ chunk).

(* a whole sequence of reads *)
Fixpoint feed_all (buf : bytes) (chunks : list bytes) : list bytes * bytes :=
  match chunks with
  | [] => ([], buf)
  | c :: cs =>
      let '(ps, buf') := feed buf c in
      let '(qs, buf'') := feed_all buf' cs in
      (ps ++ qs, buf'')
  end.

(* the byte stream of lines l1 CRLF l2 CRLF ... ln CRLF rest *)
Fixpoint join_lines (ls : list bytes) (rest : bytes) : bytes :=
  match ls with
  | [] => rest
  | l :: r => l ++ c_cr :: c_lf :: join_lines r rest
  end.

Fixpoint no_crlf (l : bytes) : bool :=
  match l with
  | x :: ((y :: _) as r) => negb ((x =? c_cr) && (y =? c_lf)) && no_crlf r
  | _ => true
  end.
