(* The connection machine: a labelled transition system whose actions are the primitive events the
   Python threads perform on shared state, as recorded by the deterministic simulation harness
   (vlib/dsim.py).  Programmed components: the sender loop (_send_handler), the queue, the
   keep-alive flag, the reader's receive path (read -> Packetizer -> handle_line), the log.
   Everything else (callers, close, connection_lost's drain, the device) appears as environment
   actions that may happen at any time.

   step : cstate -> action -> option cstate   (None = the event is not possible in the model)
   Definitions only; invariants and theorems are in Proofs/ConnFacts*.v. *)
From Coq Require Import List NArith ZArith Bool.
From Ynca Require Import Base.Text Base.Utf8 Model.Framing Model.Line Model.Ring.
Import ListNotations.
Local Open Scope Z_scope.

(* queue items: the two markers and commands; a command carries the submitting thread (ghost) *)
Inductive item := IKA | IExit | ICmd (tid : nat) (t : text).

Definition t_probe : text := fmt_cmd t_SYS t_MODELNAME [c_q].   (* @SYS:MODELNAME=? *)

Definition item_text (i : item) : text :=
  match i with IKA => t_probe | IExit => [] | ICmd _ t => t end.

Definition is_exit (i : item) : bool := match i with IExit => true | _ => false end.

Inductive spc :=
| SLoop                       (* top of the loop: about to call get(True, KEEP_ALIVE_INTERVAL) *)
| SWait (dl : Z)              (* blocked in get, deadline dl *)
| SGot (i : item)             (* item in hand, before the marker / connected tests *)
| SChk (i : item)             (* not the exit marker, and `connected` was read as True *)
| SLog (i : item)             (* (flag set if keep-alive) about to append "Send: ..." to the log *)
| SLock (i : item)            (* about to take the write lock *)
| SWrite (i : item)           (* holds the lock, about to write *)
| SUnlock                     (* written, about to release the lock *)
| SSleepStart                 (* about to sleep(COMMAND_SPACING) *)
| SSleep (until : Z)
| SPutKA                      (* get timed out: about to enqueue a keep-alive *)
| SDone.                      (* left the loop (exit marker) or died *)

Inductive rpc :=
| RIdle
| RLine (l : text)            (* handle_line entered *)
| RLogged (l : text)          (* "Received: ..." appended to the log *)
| RFlag (l : text) (ig : bool)(* flag read; ig = the line will be withheld *)
| RDeliver (l : text).        (* flag cleared, about to call the message callback *)

Inductive entry := LSend (t : text) | LRecv (t : text).

Record cstate := {
  now : Z;
  q : list item;
  spc_ : spc;
  flag : bool;
  lock : option nat;               (* None = free; Some 0 = sender; Some (S n) = some other thread *)
  rxport : bytes;                  (* emitted by the device, not yet read *)
  rbuf : bytes;                    (* Packetizer.buffer *)
  rpend : list bytes;              (* packets of the current data_received call not yet handled *)
  rpc_ : rpc;
  logcap : nat;                    (* communication_log_size *)
  logbuf : list entry;             (* the deque(maxlen) *)
  (* ghost history *)
  g_enq : list item;               (* everything ever enqueued, in queue order *)
  g_deq : list item;               (* everything the sender dequeued *)
  g_drained : list item;           (* removed by somebody else (connection_lost's drain) *)
  g_wire : list (Z * item);        (* writes: (time, item) in order *)
  g_log : list entry;              (* the unbounded log *)
  g_lines : list text;             (* lines handed to handle_line, in order *)
  g_packets : list bytes;          (* the packets those lines were decoded from *)
  g_delivered : list msg;          (* messages handed to the message callback, in order *)
  g_withheld : list text;          (* lines suppressed as keep-alive replies *)
  g_emitted : bytes;               (* every byte the device emitted *)
  g_fate : list (text * bool);     (* every line whose fate is decided: (line, delivered?) in order *)
  g_armed : bool;                  (* a probe was started (flag set by the sender) since the flag was last cleared *)
  g_lost : bool                    (* connection_lost has set connected := False *)
}.

Inductive action :=
(* time *)
| Tick (d : Z)
(* any thread *)
| Enq (tid : nat) (i : item)
| EDeq (i : item)                  (* somebody other than the sender removes the head (drain) *)
| ELock (tid : nat) | EUnlock (tid : nat)
| ELost                           (* the reader thread, in connection_lost: connected := False *)
(* sender *)
| SGetWait (dl : Z) | SDeq (i : item) | SDeqEmpty | SEnqKA | SSetFlag | SLogAdd (t : text)
| SLockAcq | SWriteA (b : bytes) | SWriteErr | SLockRel | SSleepStartA (d : Z) | SWake | SExit
| SCheckConn (b : bool)           (* the sender reads `connected` for an item that is not the exit marker *)
(* reader *)
| RRead (chunk : bytes) | RLineStart (l : text) | RLogAdd (t : text) | RGetFlag (b : bool)
| RClrFlag | RDeliverA (m : msg)
(* device *)
| DevEmit (b : bytes) (cause : option nat).

Section Step.
  Variable spacing : Z.        (* COMMAND_SPACING in microseconds *)
  Variable keepalive : Z.      (* KEEP_ALIVE_INTERVAL *)

  Definition init (cap : nat) : cstate :=
    {| now := 0; q := []; spc_ := SLoop; flag := false; lock := None;
       rxport := []; rbuf := []; rpend := []; rpc_ := RIdle; logcap := cap; logbuf := [];
       g_enq := []; g_deq := []; g_drained := []; g_wire := []; g_log := []; g_lines := [];
       g_packets := []; g_delivered := []; g_withheld := []; g_emitted := []; g_fate := []; g_armed := false; g_lost := false |}.

  Definition set_spc (s : cstate) (p : spc) : cstate :=
    {| now := now s; q := q s; spc_ := p; flag := flag s; lock := lock s; rxport := rxport s;
       rbuf := rbuf s; rpend := rpend s; rpc_ := rpc_ s; logcap := logcap s; logbuf := logbuf s;
       g_enq := g_enq s; g_deq := g_deq s; g_drained := g_drained s; g_wire := g_wire s;
       g_log := g_log s; g_lines := g_lines s; g_packets := g_packets s;
       g_delivered := g_delivered s; g_withheld := g_withheld s; g_emitted := g_emitted s;
       g_fate := g_fate s; g_armed := g_armed s; g_lost := g_lost s |}.

  Definition add_log (s : cstate) (e : entry) (p : spc) (r : rpc) : cstate :=
    {| now := now s; q := q s; spc_ := p; flag := flag s; lock := lock s; rxport := rxport s;
       rbuf := rbuf s; rpend := rpend s; rpc_ := r; logcap := logcap s;
       logbuf := ring_add (logcap s) (logbuf s) e;
       g_enq := g_enq s; g_deq := g_deq s; g_drained := g_drained s; g_wire := g_wire s;
       g_log := g_log s ++ [e]; g_lines := g_lines s; g_packets := g_packets s;
       g_delivered := g_delivered s; g_withheld := g_withheld s; g_emitted := g_emitted s;
       g_fate := g_fate s; g_armed := g_armed s; g_lost := g_lost s |}.

  Fixpoint is_prefix (a b : bytes) : option bytes :=     (* Some rest if b = a ++ rest *)
    match a, b with
    | [], _ => Some b
    | x :: a', y :: b' => if N.eqb x y then is_prefix a' b' else None
    | _ :: _, [] => None
    end.

  Definition item_eqb (a b : item) : bool :=
    match a, b with
    | IKA, IKA | IExit, IExit => true
    | ICmd _ t, ICmd _ u => teqb t u       (* the submitting thread is ghost: not observable at a dequeue *)
    | _, _ => false
    end.

  Definition step (s : cstate) (a : action) : option cstate :=
    match a with
    | Tick d =>
        if 0 <=? d then
          Some {| now := now s + d; q := q s; spc_ := spc_ s; flag := flag s; lock := lock s;
                  rxport := rxport s; rbuf := rbuf s; rpend := rpend s; rpc_ := rpc_ s;
                  logcap := logcap s; logbuf := logbuf s;
                  g_enq := g_enq s; g_deq := g_deq s; g_drained := g_drained s; g_wire := g_wire s;
                  g_log := g_log s; g_lines := g_lines s; g_packets := g_packets s;
                  g_delivered := g_delivered s; g_withheld := g_withheld s;
                  g_emitted := g_emitted s; g_fate := g_fate s; g_armed := g_armed s; g_lost := g_lost s |}
        else None
    | Enq _ i =>
        Some {| now := now s; q := q s ++ [i]; spc_ := spc_ s; flag := flag s; lock := lock s;
                rxport := rxport s; rbuf := rbuf s; rpend := rpend s; rpc_ := rpc_ s;
                logcap := logcap s; logbuf := logbuf s;
                g_enq := g_enq s ++ [i]; g_deq := g_deq s; g_drained := g_drained s;
                g_wire := g_wire s; g_log := g_log s; g_lines := g_lines s;
                g_packets := g_packets s; g_delivered := g_delivered s;
                g_withheld := g_withheld s; g_emitted := g_emitted s; g_fate := g_fate s; g_armed := g_armed s; g_lost := g_lost s |}
    | EDeq i =>
        match q s with
        | h :: r =>
            if item_eqb h i then
              Some {| now := now s; q := r; spc_ := spc_ s; flag := flag s; lock := lock s;
                      rxport := rxport s; rbuf := rbuf s; rpend := rpend s; rpc_ := rpc_ s;
                      logcap := logcap s; logbuf := logbuf s;
                      g_enq := g_enq s; g_deq := g_deq s; g_drained := g_drained s ++ [h];
                      g_wire := g_wire s; g_log := g_log s; g_lines := g_lines s;
                      g_packets := g_packets s; g_delivered := g_delivered s;
                      g_withheld := g_withheld s; g_emitted := g_emitted s; g_fate := g_fate s; g_armed := g_armed s; g_lost := g_lost s |}
            else None
        | [] => None
        end
    | ELost =>
        Some {| now := now s; q := q s; spc_ := spc_ s; flag := flag s; lock := lock s;
                rxport := rxport s; rbuf := rbuf s; rpend := rpend s; rpc_ := rpc_ s;
                logcap := logcap s; logbuf := logbuf s;
                g_enq := g_enq s; g_deq := g_deq s; g_drained := g_drained s; g_wire := g_wire s;
                g_log := g_log s; g_lines := g_lines s; g_packets := g_packets s;
                g_delivered := g_delivered s; g_withheld := g_withheld s;
                g_emitted := g_emitted s; g_fate := g_fate s; g_armed := g_armed s; g_lost := true |}
    | ELock tid =>
        match lock s with
        | None =>
            Some {| now := now s; q := q s; spc_ := spc_ s; flag := flag s; lock := Some (S tid);
                    rxport := rxport s; rbuf := rbuf s; rpend := rpend s; rpc_ := rpc_ s;
                    logcap := logcap s; logbuf := logbuf s;
                    g_enq := g_enq s; g_deq := g_deq s; g_drained := g_drained s; g_wire := g_wire s;
                    g_log := g_log s; g_lines := g_lines s; g_packets := g_packets s;
                    g_delivered := g_delivered s; g_withheld := g_withheld s;
                    g_emitted := g_emitted s; g_fate := g_fate s; g_armed := g_armed s; g_lost := g_lost s |}
        | Some _ => None
        end
    | EUnlock tid =>
        match lock s with
        | Some (S t) =>
            if Nat.eqb t tid then
              Some {| now := now s; q := q s; spc_ := spc_ s; flag := flag s; lock := None;
                      rxport := rxport s; rbuf := rbuf s; rpend := rpend s; rpc_ := rpc_ s;
                      logcap := logcap s; logbuf := logbuf s;
                      g_enq := g_enq s; g_deq := g_deq s; g_drained := g_drained s;
                      g_wire := g_wire s; g_log := g_log s; g_lines := g_lines s;
                      g_packets := g_packets s; g_delivered := g_delivered s;
                      g_withheld := g_withheld s; g_emitted := g_emitted s; g_fate := g_fate s; g_armed := g_armed s; g_lost := g_lost s |}
            else None
        | _ => None
        end
    (* ---------------------------------------------------------------- sender *)
    | SGetWait dl =>
        match spc_ s, q s with
        | SLoop, [] => if dl =? now s + keepalive then Some (set_spc s (SWait dl)) else None
        | _, _ => None
        end
    | SDeq i =>
        match spc_ s, q s with
        | SLoop, h :: r | SWait _, h :: r =>
            if item_eqb h i then
              Some {| now := now s; q := r; spc_ := SGot h; flag := flag s; lock := lock s;
                      rxport := rxport s; rbuf := rbuf s; rpend := rpend s; rpc_ := rpc_ s;
                      logcap := logcap s; logbuf := logbuf s;
                      g_enq := g_enq s; g_deq := g_deq s ++ [h]; g_drained := g_drained s;
                      g_wire := g_wire s; g_log := g_log s; g_lines := g_lines s;
                      g_packets := g_packets s; g_delivered := g_delivered s;
                      g_withheld := g_withheld s; g_emitted := g_emitted s; g_fate := g_fate s; g_armed := g_armed s; g_lost := g_lost s |}
            else None
        | _, _ => None
        end
    | SDeqEmpty =>
        match spc_ s, q s with
        | SWait dl, [] => if dl <=? now s then Some (set_spc s SPutKA) else None
        | _, _ => None
        end
    | SEnqKA =>
        match spc_ s with
        | SPutKA =>
            Some {| now := now s; q := q s ++ [IKA]; spc_ := SLoop; flag := flag s; lock := lock s;
                    rxport := rxport s; rbuf := rbuf s; rpend := rpend s; rpc_ := rpc_ s;
                    logcap := logcap s; logbuf := logbuf s;
                    g_enq := g_enq s ++ [IKA]; g_deq := g_deq s; g_drained := g_drained s;
                    g_wire := g_wire s; g_log := g_log s; g_lines := g_lines s;
                    g_packets := g_packets s; g_delivered := g_delivered s;
                    g_withheld := g_withheld s; g_emitted := g_emitted s; g_fate := g_fate s; g_armed := g_armed s; g_lost := g_lost s |}
        | _ => None
        end
    | SSetFlag =>
        match spc_ s with
        | SChk IKA =>
            Some {| now := now s; q := q s; spc_ := SLog IKA; flag := true; lock := lock s;
                    rxport := rxport s; rbuf := rbuf s; rpend := rpend s; rpc_ := rpc_ s;
                    logcap := logcap s; logbuf := logbuf s;
                    g_enq := g_enq s; g_deq := g_deq s; g_drained := g_drained s;
                    g_wire := g_wire s; g_log := g_log s; g_lines := g_lines s;
                    g_packets := g_packets s; g_delivered := g_delivered s;
                    g_withheld := g_withheld s; g_emitted := g_emitted s; g_fate := g_fate s; g_armed := true; g_lost := g_lost s |}
        | _ => None
        end
    | SLogAdd t =>
        match spc_ s with
        | SChk (ICmd n u) => if teqb t u then Some (add_log s (LSend t) (SLock (ICmd n u)) (rpc_ s)) else None
        | SLog IKA => if teqb t t_probe then Some (add_log s (LSend t) (SLock IKA) (rpc_ s)) else None
        | _ => None
        end
    | SExit =>
        match spc_ s with
        | SGot IExit => Some (set_spc s SDone)
        | _ => None
        end
    | SCheckConn b =>
        (* `if message is _EXIT or not self.connected: stop`: for anything but the marker `connected` is read;
           once the connection is lost the item is dropped (not written) and the thread ends *)
        match spc_ s with
        | SGot IExit => None
        | SGot i =>
            if Bool.eqb b (negb (g_lost s)) then Some (set_spc s (if b then SChk i else SDone)) else None
        | _ => None
        end
    | SLockAcq =>
        match spc_ s, lock s with
        | SLock i, None =>
            Some {| now := now s; q := q s; spc_ := SWrite i; flag := flag s; lock := Some O;
                    rxport := rxport s; rbuf := rbuf s; rpend := rpend s; rpc_ := rpc_ s;
                    logcap := logcap s; logbuf := logbuf s;
                    g_enq := g_enq s; g_deq := g_deq s; g_drained := g_drained s; g_wire := g_wire s;
                    g_log := g_log s; g_lines := g_lines s; g_packets := g_packets s;
                    g_delivered := g_delivered s; g_withheld := g_withheld s;
                    g_emitted := g_emitted s; g_fate := g_fate s; g_armed := g_armed s; g_lost := g_lost s |}
        | _, _ => None
        end
    | SWriteA b =>
        match spc_ s with
        | SWrite i =>
            if teqb b (frame (item_text i)) then
              Some {| now := now s; q := q s; spc_ := SUnlock; flag := flag s; lock := lock s;
                      rxport := rxport s; rbuf := rbuf s; rpend := rpend s; rpc_ := rpc_ s;
                      logcap := logcap s; logbuf := logbuf s;
                      g_enq := g_enq s; g_deq := g_deq s; g_drained := g_drained s;
                      g_wire := g_wire s ++ [(now s, i)];
                      g_log := g_log s; g_lines := g_lines s; g_packets := g_packets s;
                      g_delivered := g_delivered s; g_withheld := g_withheld s;
                      g_emitted := g_emitted s; g_fate := g_fate s; g_armed := g_armed s; g_lost := g_lost s |}
            else None
        | _ => None
        end
    | SWriteErr =>
        (* the write raised: the `with lock` releases it and the thread dies *)
        match spc_ s with
        | SWrite _ =>
            Some {| now := now s; q := q s; spc_ := SDone; flag := flag s; lock := None;
                    rxport := rxport s; rbuf := rbuf s; rpend := rpend s; rpc_ := rpc_ s;
                    logcap := logcap s; logbuf := logbuf s;
                    g_enq := g_enq s; g_deq := g_deq s; g_drained := g_drained s; g_wire := g_wire s;
                    g_log := g_log s; g_lines := g_lines s; g_packets := g_packets s;
                    g_delivered := g_delivered s; g_withheld := g_withheld s;
                    g_emitted := g_emitted s; g_fate := g_fate s; g_armed := g_armed s; g_lost := g_lost s |}
        | _ => None
        end
    | SLockRel =>
        match spc_ s, lock s with
        | SUnlock, Some O =>
            Some {| now := now s; q := q s; spc_ := SSleepStart; flag := flag s; lock := None;
                    rxport := rxport s; rbuf := rbuf s; rpend := rpend s; rpc_ := rpc_ s;
                    logcap := logcap s; logbuf := logbuf s;
                    g_enq := g_enq s; g_deq := g_deq s; g_drained := g_drained s; g_wire := g_wire s;
                    g_log := g_log s; g_lines := g_lines s; g_packets := g_packets s;
                    g_delivered := g_delivered s; g_withheld := g_withheld s;
                    g_emitted := g_emitted s; g_fate := g_fate s; g_armed := g_armed s; g_lost := g_lost s |}
        | _, _ => None
        end
    | SSleepStartA d =>
        match spc_ s with
        | SSleepStart => if d =? spacing then Some (set_spc s (SSleep (now s + d))) else None
        | _ => None
        end
    | SWake =>
        match spc_ s with
        | SSleep u => if u <=? now s then Some (set_spc s SLoop) else None
        | _ => None
        end
    (* ---------------------------------------------------------------- reader *)
    | RRead chunk =>
        match rpc_ s, rpend s, is_prefix chunk (rxport s) with
        | RIdle, [], Some rest =>
            let '(ps, buf') := feed (rbuf s) chunk in
            Some {| now := now s; q := q s; spc_ := spc_ s; flag := flag s; lock := lock s;
                    rxport := rest; rbuf := buf'; rpend := ps; rpc_ := RIdle;
                    logcap := logcap s; logbuf := logbuf s;
                    g_enq := g_enq s; g_deq := g_deq s; g_drained := g_drained s; g_wire := g_wire s;
                    g_log := g_log s; g_lines := g_lines s; g_packets := g_packets s;
                    g_delivered := g_delivered s; g_withheld := g_withheld s;
                    g_emitted := g_emitted s; g_fate := g_fate s; g_armed := g_armed s; g_lost := g_lost s |}
        | _, _, _ => None
        end
    | RLineStart l =>
        match rpc_ s, rpend s with
        | RIdle, p :: ps =>
            if teqb l (decode_packet p) then
              Some {| now := now s; q := q s; spc_ := spc_ s; flag := flag s; lock := lock s;
                      rxport := rxport s; rbuf := rbuf s; rpend := ps; rpc_ := RLine l;
                      logcap := logcap s; logbuf := logbuf s;
                      g_enq := g_enq s; g_deq := g_deq s; g_drained := g_drained s;
                      g_wire := g_wire s; g_log := g_log s; g_lines := g_lines s ++ [l];
                      g_packets := g_packets s ++ [p];
                      g_delivered := g_delivered s; g_withheld := g_withheld s;
                      g_emitted := g_emitted s; g_fate := g_fate s; g_armed := g_armed s; g_lost := g_lost s |}
            else None
        | _, _ => None
        end
    | RLogAdd t =>
        match rpc_ s with
        | RLine l => if teqb t l then Some (add_log s (LRecv t) (spc_ s) (RLogged l)) else None
        | _ => None
        end
    | RGetFlag b =>
        match rpc_ s with
        | RLogged l =>
            match parse_sfv l with
            | Some _ =>
                if Bool.eqb b (flag s) then
                  Some {| now := now s; q := q s; spc_ := spc_ s; flag := flag s; lock := lock s;
                          rxport := rxport s; rbuf := rbuf s; rpend := rpend s;
                          rpc_ := RFlag l (b && is_modelname_reply (parse_line l));
                          logcap := logcap s; logbuf := logbuf s;
                          g_enq := g_enq s; g_deq := g_deq s; g_drained := g_drained s;
                          g_wire := g_wire s; g_log := g_log s; g_lines := g_lines s;
                          g_packets := g_packets s; g_delivered := g_delivered s;
                          g_withheld := g_withheld s; g_emitted := g_emitted s;
                          g_fate := g_fate s; g_armed := g_armed s; g_lost := g_lost s |}
                else None
            | None => None
            end
        | _ => None
        end
    | RClrFlag =>
        let clr (r : rpc) (w : list text) (ft : list (text * bool)) :=
          Some {| now := now s; q := q s; spc_ := spc_ s; flag := false; lock := lock s;
                  rxport := rxport s; rbuf := rbuf s; rpend := rpend s; rpc_ := r;
                  logcap := logcap s; logbuf := logbuf s;
                  g_enq := g_enq s; g_deq := g_deq s; g_drained := g_drained s; g_wire := g_wire s;
                  g_log := g_log s; g_lines := g_lines s; g_packets := g_packets s;
                  g_delivered := g_delivered s; g_withheld := w;
                  g_emitted := g_emitted s; g_fate := ft; g_armed := false; g_lost := g_lost s |} in
        match rpc_ s with
        | RFlag l true => clr RIdle (g_withheld s ++ [l]) (g_fate s ++ [(l, false)])
        | RFlag l false => clr (RDeliver l) (g_withheld s) (g_fate s)
        | RLogged l =>
            match parse_sfv l with
            | None => clr (RDeliver l) (g_withheld s) (g_fate s)   (* no match: the flag is not read *)
            | Some _ => None
            end
        | RIdle => clr RIdle (g_withheld s) (g_fate s)            (* connection_made *)
        | _ => None
        end
    | RDeliverA m =>
        match rpc_ s with
        | RDeliver l =>
            if (match fst m, fst (parse_line l) with
                | StOK, StOK | StUNDEFINED, StUNDEFINED | StRESTRICTED, StRESTRICTED => true
                | _, _ => false end)
               && (match snd m, snd (parse_line l) with
                   | None, None => true
                   | Some (a, b, c), Some (a', b', c') => teqb a a' && teqb b b' && teqb c c'
                   | _, _ => false end)
            then
              Some {| now := now s; q := q s; spc_ := spc_ s; flag := flag s; lock := lock s;
                      rxport := rxport s; rbuf := rbuf s; rpend := rpend s; rpc_ := RIdle;
                      logcap := logcap s; logbuf := logbuf s;
                      g_enq := g_enq s; g_deq := g_deq s; g_drained := g_drained s;
                      g_wire := g_wire s; g_log := g_log s; g_lines := g_lines s;
                      g_packets := g_packets s; g_delivered := g_delivered s ++ [parse_line l];
                      g_withheld := g_withheld s; g_emitted := g_emitted s;
                      g_fate := g_fate s ++ [(l, true)]; g_armed := g_armed s; g_lost := g_lost s |}
            else None
        | _ => None
        end
    (* ---------------------------------------------------------------- device *)
    | DevEmit b cause =>
        if (match cause with Some w => Nat.ltb w (length (g_wire s)) | None => true end) then
          Some {| now := now s; q := q s; spc_ := spc_ s; flag := flag s; lock := lock s;
                  rxport := rxport s ++ b; rbuf := rbuf s; rpend := rpend s; rpc_ := rpc_ s;
                  logcap := logcap s; logbuf := logbuf s;
                  g_enq := g_enq s; g_deq := g_deq s; g_drained := g_drained s; g_wire := g_wire s;
                  g_log := g_log s; g_lines := g_lines s; g_packets := g_packets s;
                  g_delivered := g_delivered s; g_withheld := g_withheld s;
                  g_emitted := g_emitted s ++ b; g_fate := g_fate s; g_armed := g_armed s; g_lost := g_lost s |}
        else None
    end.

  Fixpoint run (s : cstate) (l : list action) : option cstate :=
    match l with
    | [] => Some s
    | a :: r => match step s a with Some s' => run s' r | None => None end
    end.

  (* index of the first action the model refuses (for diagnostics) *)
  Fixpoint run_diag (s : cstate) (l : list action) (n : nat) : cstate * option nat :=
    match l with
    | [] => (s, None)
    | a :: r => match step s a with Some s' => run_diag s' r (S n) | None => (s, Some n) end
    end.
End Step.
