(* The bundled test server (ynca/server.py): YncaDataStore with ingestion of a recording, and
   YncaCommandHandler.handle_get / handle_put with their couplings.  Exceptions are explicit:
   every primitive that can raise in Python (dict indexing, float()/int() of text, list indexing)
   returns an option here, and `Raise` propagates unless the code guards or catches it.
   The tables (multi-response, related functions, input->subunit mapping, zones) are parameters,
   regenerated from /repo into Gen/ServerTables.v.  Definitions only. *)
From Coq Require Import List NArith ZArith Bool.
From Ynca Require Import Base.Text Base.Decimal Base.Utf8 Model.Enum Model.Line Model.ServerNames.
Import ListNotations.

Notation fstore := (list (text * text)).              (* function -> value, in insertion order *)
Notation store := (list (text * fstore)).             (* subunit -> functions, in insertion order *)

Fixpoint set_assoc {A} (k : text) (v : A) (l : list (text * A)) : list (text * A) :=
  match l with
  | [] => [(k, v)]
  | (k', v') :: r => if teqb k k' then (k', v) :: r else (k', v') :: set_assoc k v r
  end.

Definition add_data (st : store) (s f v : text) : store :=
  match assoc s st with
  | Some fs => set_assoc s (set_assoc f v fs) st
  | None => st ++ [(s, [(f, v)])]
  end.

Definition get_data (st : store) (s f : text) : text :=
  match assoc s st with
  | Some fs => match assoc f fs with Some v => v | None => s_UNDEFINED end
  | None => s_UNDEFINED
  end.

Definition is_err (v : text) : bool := teqb v s_UNDEFINED || teqb v s_RESTRICTED.

(* put_data: (result, changed, new store); result: None = OK, Some e = error marker *)
Definition put_data (st : store) (s f v : text) : option text * bool * store :=
  match assoc s st with
  | Some fs =>
      match assoc f fs with
      | Some old =>
          let st' := if negb (is_err v) then set_assoc s (set_assoc f v fs) st else st in
          (None, negb (teqb old v), st')
      | None => (Some s_UNDEFINED, false, st)           (* KeyError on the function *)
      end
  | None => (Some s_RESTRICTED, false, st)
  end.

(* ---------------------------------------------------------------- text helpers *)
Fixpoint starts_with (p t : text) : bool :=
  match p, t with
  | [], _ => true
  | x :: p', y :: t' => N.eqb x y && starts_with p' t'
  | _ :: _, [] => false
  end.

Definition ends_with (p t : text) : bool := starts_with (rev p) (rev t).

Fixpoint contains (p t : text) : bool :=
  starts_with p t || match t with [] => false | _ :: r => contains p r end.

(* str.isspace() of one code point *)
Definition is_space (c : N) : bool :=
  (c =? 32)%N || ((9 <=? c) && (c <=? 13))%N || ((28 <=? c) && (c <=? 31))%N || (c =? 133)%N || (c =? 160)%N ||
  (c =? 5760)%N || ((8192 <=? c) && (c <=? 8202))%N || (c =? 8232)%N || (c =? 8233)%N || (c =? 8239)%N ||
  (c =? 8287)%N || (c =? 12288)%N.

Fixpoint lstrip (t : text) : text :=
  match t with c :: r => if is_space c then lstrip r else t | [] => [] end.
Definition strip (t : text) : text := rev (lstrip (rev (lstrip t))).

Fixpoint lstrip_set (cs t : text) : text :=
  match t with c :: r => if existsb (N.eqb c) cs then lstrip_set cs r else t | [] => [] end.
Definition rstrip_set (cs t : text) : text := rev (lstrip_set cs (rev t)).

(* bytes.strip(): ASCII whitespace only (the handler strips the raw bytes before decoding) *)
Definition is_space_ascii (c : N) : bool := (c =? 32)%N || ((9 <=? c) && (c <=? 13))%N.
Fixpoint lstrip_ascii (t : text) : text :=
  match t with c :: r => if is_space_ascii c then lstrip_ascii r else t | [] => [] end.
Definition strip_ascii (t : text) : text := rev (lstrip_ascii (rev (lstrip_ascii t))).

(* re.search of the command pattern: the leftmost '@' from which the pattern matches *)
Fixpoint line_to_command (t : text) : option (text * text * text) :=
  match t with
  | [] => None
  | c :: r =>
      match (if (c =? c_at)%N then parse_sfv t else None) with
      | Some x => Some x
      | None => line_to_command r
      end
  end.

(* ---------------------------------------------------------------- ingestion (fill_from_file) *)
Section Ingest.
  (* regenerated from the AST: does fill_from_file decode a line that is a JSON string (diagnostics output)? *)
  Variable json : bool.
  (* oracle: json.loads of a quoted line; None = ValueError *)
  Variable py_json : text -> option text.

  (* the line as the command parser sees it *)
  Definition clean (raw : text) : text :=
    let l := strip raw in
    if json then
      let l1 := rstrip_set [44]%N l in
      if (2 <=? length l1)%nat && starts_with [34]%N l1 && ends_with [34]%N l1 then
        match py_json l1 with Some t => t | None => rstrip_set [34; 44]%N l1 end
      else rstrip_set [34; 44]%N l
    else rstrip_set [34; 44]%N l.

  Definition ingest_line (acc : store * option (text * text * text)) (raw : text)
    : store * option (text * text * text) :=
    let '(st, cmd) := acc in
    let line := clean raw in
    let has_r := contains s_RESTRICTED line in
    let has_u := contains s_UNDEFINED line in
    match cmd with
    | Some (s, f, _) =>
        if has_r || has_u then
          (if teqb (get_data st s f) s_UNDEFINED
           then add_data st s f (if has_r then s_RESTRICTED else s_UNDEFINED) else st, cmd)
        else
          match line_to_command line with
          | Some (s', f', v') => (if teqb v' s_q then st else add_data st s' f' v', Some (s', f', v'))
          | None => (st, None)
          end
    | None =>
        match line_to_command line with
        | Some (s', f', v') => (if teqb v' s_q then st else add_data st s' f' v', Some (s', f', v'))
        | None => (st, None)
        end
    end.

  Definition ingest (lines : list text) : store := fst (fold_left ingest_line lines ([], None)).
End Ingest.

(* ---------------------------------------------------------------- the handler *)
(* What the translator reads off the AST of ynca/server.py (Gen/ServerTables.v): which of the
   operations that can raise in Python are guarded, and the truth table of the condition that selects
   the relative-volume branch.  With a guard absent the model raises where the code raises. *)
(* what float(text) can be: a finite double (as its exact rational), an infinity or a NaN *)
Inductive fl := Fin (n : Z) (d : positive) | PInf | NInf | NaN.
(* int -> float conversion in `float + int` raises OverflowError from here on (round-half-even to 2^1024) *)
Definition int_overflows (z : Z) : bool := (2 ^ 1024 - 2 ^ 970 <=? Z.abs z)%Z.

Record cfg := {
  g_inp_get : bool;        (* SYS INPNAME: store looked up with .get("SYS", {}) rather than indexed *)
  g_scene_get : bool;      (* SCENENAME: store looked up with .get(subunit, {}) rather than indexed *)
  g_rel : list bool;       (* relative-branch condition over (F=VOL, F=ZONEBVOL, V starts Up, V starts Down): 16 rows *)
  g_vol_try : bool;        (* int()/float() of the relative step inside try/except ValueError answering an error *)
  g_pb_guard : bool;       (* PLAYBACK on a zone: empty source-subunit list tested before [0] *)
  g_err_exact : bool;      (* stored value is an error iff it IS one of the two markers (not: starts with '@') *)
  g_rel_exact : bool;      (* related-function reports skip both error markers (not only @UNDEFINED) *)
  g_lenient : bool;        (* received bytes decoded with errors="replace" *)
  g_inp_none : bool;       (* SYS INPNAME: an error line when no input name was sent *)
  g_scene_sent : bool;     (* SCENENAME: the error line is sent when no scene name was SENT (not: when no key matched) *)
  g_vol_ovf : bool         (* the handler of the relative step also catches OverflowError (float + huge int) *)
}.

Definition rel_index (a b c d : bool) : nat :=
  (if a then 8 else 0) + (if b then 4 else 0) + (if c then 2 else 0) + (if d then 1 else 0).
Definition good_rel : list bool :=
  [false; false; false; false; false; true; true; true; false; true; true; true; false; true; true; true].
Definition good_cfg : cfg :=
  {| g_inp_get := true; g_scene_get := true; g_rel := good_rel; g_vol_try := true; g_pb_guard := true;
     g_err_exact := true; g_rel_exact := true; g_lenient := true; g_inp_none := true; g_scene_sent := true; g_vol_ovf := true |}.

Definition list_bool_eqb (a b : list bool) : bool :=
  Nat.eqb (length a) (length b) && forallb (fun p => Bool.eqb (fst p) (snd p)) (combine a b).
Definition cfg_eqb (a b : cfg) : bool :=
  Bool.eqb (g_inp_get a) (g_inp_get b) && Bool.eqb (g_scene_get a) (g_scene_get b) &&
  list_bool_eqb (g_rel a) (g_rel b) && Bool.eqb (g_vol_try a) (g_vol_try b) &&
  Bool.eqb (g_pb_guard a) (g_pb_guard b) && Bool.eqb (g_err_exact a) (g_err_exact b) &&
  Bool.eqb (g_rel_exact a) (g_rel_exact b) && Bool.eqb (g_lenient a) (g_lenient b) &&
  Bool.eqb (g_inp_none a) (g_inp_none b) && Bool.eqb (g_scene_sent a) (g_scene_sent b) &&
  Bool.eqb (g_vol_ovf a) (g_vol_ovf b).

Section Handler.
  Variable c : cfg.
  Variable multi : list (text * list text).           (* multiresponse_functions_table *)
  Variable related : list (text * list text).         (* related_functions_table *)
  Variable inp_map : list (text * list text).         (* INPUT_SUBUNITLIST_MAPPING: input wire text -> subunits *)
  Variable zones : list text.
  (* oracles: float(text) as an exact rational, int(text), and str(float + amount) *)
  Variable py_float : text -> option fl.
  Variable py_int : text -> option Z.
  Variable py_str_float : Z * positive -> text.

  Definition fmt (s f v : text) : text := fmt_cmd s f v.

  Definition err_value (v : text) : bool :=
    if g_err_exact c then is_err v else starts_with [c_at] v.

  (* _send_stored_value_or_error: lines written, value sent *)
  Definition send_stored (st : store) (s f : text) (skip_err : bool) : list text * option text :=
    let v := get_data st s f in
    if err_value v then ((if skip_err then [] else [v]), None) else ([fmt s f v], Some v).

  Fixpoint handle_get1 (fuel : nat) (st : store) (s f : text) (suppress : bool) : res (list text) :=
    match fuel with
    | O => Ok []
    | S fuel' =>
        if teqb s s_SYS && teqb f s_INPNAME then
          let none : list text := if g_inp_none c then [s_UNDEFINED] else [] in
          match assoc s_SYS st with
          | Some fs =>
              let out := flat_map (fun k => if starts_with s_INPNAME k && negb (teqb k s_INPNAME)
                                            then fst (send_stored st s k true) else []) (map fst fs) in
              Ok (match out with [] => none | _ => out end)
          | None => if g_inp_get c then Ok none else Raise               (* KeyError *)
          end
        else if teqb f s_SCENENAME then
          match assoc s st with
          | Some fs =>
              let ks := filter (fun k => starts_with s_SCENE k && ends_with s_NAME k && negb (teqb k s_SCENENAME)) (map fst fs) in
              let out := flat_map (fun k => fst (send_stored st s k true)) ks in
              if g_scene_sent c then Ok (match out with [] => [s_UNDEFINED] | _ => out end)
              else Ok (match ks with [] => [s_UNDEFINED] | _ => out end)
          | None => if g_scene_get c then Ok [s_UNDEFINED] else Raise  (* KeyError *)
          end
        else if teqb f s_DIRMODE then
          let '(out, v) := send_stored st s f suppress in
          match v with
          | Some x =>
              if teqb x s_On then
                match handle_get1 fuel' st s s_STRAIGHT suppress with
                | Ok more => Ok (out ++ more)
                | Raise => Raise
                end
              else Ok out
          | None => Ok out
          end
        else if teqb f s_STRAIGHT &&
                (teqb (get_data st s s_DIRMODE) s_On || teqb (get_data st s s_PUREDIRMODE) s_On) then
          Ok [fmt s f s_On]
        else Ok (fst (send_stored st s f suppress))
    end.

  Fixpoint get_members (st : store) (s : text) (ms : list text) : res (list text) :=
    match ms with
    | [] => Ok []
    | m :: r =>
        match handle_get1 3 st s m true with
        | Raise => Raise
        | Ok o => match get_members st s r with Raise => Raise | Ok o' => Ok (o ++ o') end
        end
    end.

  Definition handle_get (st : store) (s f : text) : res (list text) :=
    match assoc f multi with
    | None => handle_get1 3 st s f false
    | Some members =>
        match get_members st s members with
        | Raise => Raise
        | Ok [] => Ok [s_UNDEFINED]
        | Ok out => Ok out
        end
    end.

  Fixpoint split_space (t : text) (cur : text) : list text :=
    match t with
    | [] => [rev cur]
    | c :: r => if (c =? 32)%N then rev cur :: split_space r [] else split_space r (c :: cur)
    end.

  (* PLAYBACK is reported as PLAYBACKINFO, possibly on the input's subunit; Ok None = nothing to report *)
  Definition report_target (st : store) (s f v : text) : res (option (text * text)) :=
    if teqb f s_PLAYBACK then
      if negb (mem_text v [s_Play; s_Pause; s_Stop]) then Ok None
      else if mem_text s zones then
        match assoc (get_data st s s_INP) inp_map with
        | Some (sub :: _) => Ok (Some (sub, s_PLAYBACKINFO))
        | Some [] => Raise                                               (* m[1][0] *)
        | None => if g_pb_guard c then Ok None else Raise                (* [...][0] of an empty list *)
        end
      else Ok (Some (s, s_PLAYBACKINFO))
    else Ok (Some (s, f)).

  Definition zone_step (f1 v : text) (acc : store * list text) (z : text) : store * list text :=
    let '(stx, outx) := acc in
    let '(r, ch, sty) := put_data stx z f1 v in
    (sty, if ch then outx ++ [fmt z f1 v] else outx).

  Definition skip_related (x : text) : bool :=
    if g_rel_exact c then is_err x else teqb x s_UNDEFINED.

  Definition report_at (st : store) (s1 f1 v : text) : store * list text :=
    let out1 :=
      match assoc f1 related with
      | Some fs => flat_map (fun rf => let x := get_data st s1 rf in if skip_related x then [] else [fmt s1 rf x]) fs
      | None => [fmt s1 f1 v]
      end in
    if teqb f1 s_PWR then
      if teqb s1 s_SYS then
        (* SYS power drives every zone, and PWRB of the last zone *)
        let '(st2, out2) := fold_left (zone_step f1 v) zones (st, []) in
        let zl := last zones [] in
        let '(r, ch, st3) := put_data st2 zl s_PWRB v in
        (st3, out1 ++ out2 ++ (if ch then [fmt zl s_PWRB v] else []))
      else if mem_text s1 zones then
        let on := existsb (fun z => teqb (get_data st z f1) s_On) zones in
        let sv := if on then s_On else s_Standby in
        let '(r, ch, st2) := put_data st s_SYS f1 sv in
        (st2, out1 ++ (if ch then [fmt s_SYS f1 sv] else []))
      else (st, out1)
    else (st, out1).

  Definition put_report (st : store) (s f v : text) : res (store * list text) :=
    match report_target st s f v with
    | Raise => Raise
    | Ok None => Ok (st, [])
    | Ok (Some (s1, f1)) => Ok (report_at st s1 f1 v)
    end.

  Definition relative (f v : text) : bool :=
    nth (rel_index (teqb f s_VOL) (teqb f s_ZONEBVOL) (starts_with s_Up v) (starts_with s_Down v)) (g_rel c) false.

  (* the value to store: Ok (Some v1); Ok None = answered with an error line; Raise = the exception escapes.
     Evaluation order of the code: int(), float() (ValueError), then float + int (OverflowError). *)
  Definition put_value (st : store) (s f v : text) : res (option text) :=
    if relative f v then
      let amount : option (Z * positive) :=
        match split_space v [] with
        | [_] => Some (1%Z, 2%positive)
        | _ :: p :: _ => match py_int p with Some z => Some (z, 1%positive) | None => None end
        | [] => None
        end in
      match amount, py_float (get_data st s f) with
      | Some (an, ad), Some x =>
          if int_overflows an && Pos.eqb ad 1 then (if g_vol_ovf c then Ok None else Raise)
          else
            match x with
            | Fin cn cd =>
                let sgn := if starts_with s_Up v then 1%Z else (-1)%Z in
                Ok (Some (py_str_float ((cn * Zpos ad + sgn * an * Zpos cd)%Z, (cd * ad)%positive)))
            | PInf => Ok (Some s_inf)
            | NInf => Ok (Some s_minf)
            | NaN => Ok (Some s_nan)
            end
      | _, _ => if g_vol_try c then Ok None else Raise
      end
    else Ok (Some v).

  Definition handle_put (st : store) (s f v : text) : res (store * list text) :=
    if teqb s s_SYS && teqb f s_REMOTECODE then
      Ok (st, if Nat.eqb (length v) 8 then [] else [s_UNDEFINED])
    else if teqb f s_MEM then Ok (st, [])
    else
      match put_value st s f v with
      | Raise => Raise
      | Ok None => Ok (st, [s_UNDEFINED])
      | Ok (Some v1) =>
          let '(r, changed, st1) := put_data st s f v1 in
          match r with
          | Some e => Ok (st1, [e])
          | None => if changed then put_report st1 s f v1 else Ok (st1, [])
          end
      end.

  (* one received line (already decoded) *)
  Definition srv (st : store) (line : text) : res (store * list text) :=
    match line_to_command line with
    | None => Ok (st, [])
    | Some (s, f, v) =>
        if teqb v s_q then match handle_get st s f with Ok out => Ok (st, out) | Raise => Raise end
        else handle_put st s f v
    end.

  (* one received line as bytes: stripped of ASCII white space, then decoded *)
  Definition utf8_valid (b : list N) : bool := teqb (utf8_encode (utf8_decode b)) b.
  Definition srv_bytes (st : store) (b : list N) : res (store * list text) :=
    let b' := strip_ascii b in
    if negb (g_lenient c) && negb (utf8_valid b') then Raise            (* UnicodeDecodeError *)
    else srv st (utf8_decode b').

  Fixpoint srv_run (st : store) (lines : list (list N)) : res (store * list (list text)) :=
    match lines with
    | [] => Ok (st, [])
    | l :: r =>
        match srv_bytes st l with
        | Raise => Raise
        | Ok (st', out) =>
            match srv_run st' r with
            | Raise => Raise
            | Ok (st'', outs) => Ok (st'', out :: outs)
            end
        end
    end.
End Handler.

(* a well-formed YNCA reply line: an error marker or @S:F=V with non-empty S and F *)
Definition wf_reply (t : text) : bool :=
  is_err t || match parse_sfv t with Some _ => true | None => false end.
