(* Converters, function descriptors and subunit classes as data; decoding (to_value).
   Definitions only.  The encoders (to_str) are in Model/Put.v. *)
From Coq Require Import List NArith ZArith Bool.
From Ynca Require Import Base.Text Base.Decimal Model.Enum.
Import ListNotations.

(* how a numeric converter prints a value (the _to_str callable) *)
Inductive tostr :=
| TSStr                                              (* str *)
| TSStep (decimals : nat) (sn sd : positive)         (* number_to_string_with_stepsize(v, decimals, sn/sd) *)
| TSOnly (lit : text) (n : Z) (d : positive)         (* lit if v == n/d else raise *)
| TSOpaque.

Inductive conv :=
| CEnum (e : enum)
| CStr (min_len max_len : option nat)
| CInt (ts : tostr)
| CIntOrNone (ts : tostr)
| CFloat (ts : tostr)
| CMulti (cs : list conv)
| COpaque.

Record func := {
  f_attr : text;          (* Python attribute name *)
  f_name : text;          (* protocol function name *)
  f_get : bool;
  f_put : bool;
  f_init : option text;   (* group query used at initialisation *)
  f_noinit : bool;
  f_conv : conv
}.

Record subunit_class := {
  sc_name : text;
  sc_id : text;
  sc_funcs : list func    (* in handler order: sorted(dir(cls)) *)
}.

(* numbers as the model sees them *)
Inductive fnum :=
| FDec (m : Z) (k : nat)          (* plain literal: exactly m / 10^k *)
| FRat (n : Z) (d : positive)     (* supplied by the oracle: exactly n / d *)
| FNan
| FInf (neg : bool).

Inductive value :=
| VMember (ename mname : text)
| VStr (t : text)
| VFloat (x : fnum)
| VInt (z : Z)
| VNone.

Section Decode.
  (* Oracles for float(text) / int(text) on texts outside the plain grammars
     -?d+(.d+)? and -?d+ .  Universally quantified in every theorem. *)
  Variable py_float : text -> option fnum.
  Variable py_int : text -> option Z.

  Definition float_of_text (s : text) : option fnum :=
    match dec_parse s with
    | Some (m, k) => Some (FDec m k)
    | None => py_float s
    end.

  Definition int_of_text (s : text) : option Z :=
    match int_parse s with
    | Some z => Some z
    | None => py_int s
    end.

  Fixpoint to_value (c : conv) (s : text) : res value :=
    match c with
    | CEnum e =>
        match enum_decode e s with
        | Ok n => Ok (VMember (en_name e) n)
        | Raise => Raise
        end
    | CStr _ _ => Ok (VStr s)
    | CInt _ =>
        match int_of_text s with Some z => Ok (VInt z) | None => Raise end
    | CIntOrNone _ =>
        match int_of_text s with Some z => Ok (VInt z) | None => Ok VNone end
    | CFloat _ =>
        match float_of_text s with Some x => Ok (VFloat x) | None => Raise end
    | CMulti cs =>
        (fix first (l : list conv) : res value :=
           match l with
           | [] => Raise
           | c' :: r => match to_value c' s with Ok v => Ok v | Raise => first r end
           end) cs
    | COpaque => Raise
    end.
End Decode.

(* Which converters are fully known to the model *)
Definition tostr_known (t : tostr) : bool :=
  match t with TSOpaque => false | _ => true end.

Fixpoint conv_known (c : conv) : bool :=
  match c with
  | CEnum _ | CStr _ _ => true
  | CInt t | CIntOrNone t | CFloat t => tostr_known t
  | CMulti cs => (fix all (l : list conv) : bool :=
                    match l with [] => true | c' :: r => conv_known c' && all r end) cs
  | COpaque => false
  end.

(* enumerations reachable from a converter *)
Fixpoint conv_enums (c : conv) : list enum :=
  match c with
  | CEnum e => [e]
  | CMulti cs => (fix go (l : list conv) : list enum :=
                    match l with [] => [] | c' :: r => conv_enums c' ++ go r end) cs
  | _ => []
  end.

Definition find_func (sc : subunit_class) (name : text) : option func :=
  find (fun f => teqb (f_name f) name) (sc_funcs sc).

Definition find_class (scs : list subunit_class) (id : text) : option subunit_class :=
  find (fun sc => teqb (sc_id sc) id) scs.
