(* Delivery of one message/value to a set of callbacks while the set may be mutated at any moment,
   by the callbacks themselves or by other threads:
       for callback in list(callbacks):          -- DStart: snapshot
           if callback in callbacks:             -- DTest cb b
               callback(...)                     -- DCall cb
   Callbacks are identified by naturals; the live set is a duplicate-free list.  Definitions only. *)
From Coq Require Import List Arith Bool.
Import ListNotations.

Record dstate := {
  d_live : list nat;            (* the set *)
  d_remaining : list nat;       (* snapshot elements not yet visited (as a set: order irrelevant) *)
  d_pending : option nat;       (* tested positive, about to be called *)
  (* ghost, for the delivery in progress *)
  g_snap : list nat;            (* the snapshot taken at DStart *)
  g_called : list nat;          (* callbacks invoked so far *)
  g_removed : list nat;         (* callbacks unregistered since the snapshot *)
  g_deliveries : nat            (* completed + started deliveries *)
}.

Inductive daction :=
| DStart
| DTest (cb : nat) (b : bool)
| DCall (cb : nat)
| DAdd (cb : nat)               (* register *)
| DDiscard (cb : nat)           (* unregister (no error if absent) *)
| DClear.                       (* close(): all callbacks dropped *)

Fixpoint mem (x : nat) (l : list nat) : bool :=
  match l with [] => false | y :: r => Nat.eqb x y || mem x r end.

(* removal from a set represented as a list: all occurrences (a snapshot of a set has no duplicates) *)
Definition remove1 (x : nat) (l : list nat) : list nat := filter (fun y => negb (Nat.eqb y x)) l.

Definition dinit (cbs : list nat) : dstate :=
  {| d_live := cbs; d_remaining := []; d_pending := None; g_snap := []; g_called := [];
     g_removed := []; g_deliveries := 0 |}.

Definition dstep (s : dstate) (a : daction) : option dstate :=
  match a with
  | DStart =>
      match d_remaining s, d_pending s with
      | [], None =>
          Some {| d_live := d_live s; d_remaining := d_live s; d_pending := None;
                  g_snap := d_live s; g_called := []; g_removed := [];
                  g_deliveries := S (g_deliveries s) |}
      | _, _ => None
      end
  | DTest cb b =>
      match d_pending s with
      | None =>
          if mem cb (d_remaining s) && Bool.eqb b (mem cb (d_live s)) then
            Some {| d_live := d_live s; d_remaining := remove1 cb (d_remaining s);
                    d_pending := if b then Some cb else None;
                    g_snap := g_snap s; g_called := g_called s; g_removed := g_removed s;
                    g_deliveries := g_deliveries s |}
          else None
      | Some _ => None
      end
  | DCall cb =>
      match d_pending s with
      | Some c =>
          if Nat.eqb c cb then
            Some {| d_live := d_live s; d_remaining := d_remaining s; d_pending := None;
                    g_snap := g_snap s; g_called := g_called s ++ [cb]; g_removed := g_removed s;
                    g_deliveries := g_deliveries s |}
          else None
      | None => None
      end
  | DAdd cb =>
      Some {| d_live := if mem cb (d_live s) then d_live s else cb :: d_live s;
              d_remaining := d_remaining s; d_pending := d_pending s;
              g_snap := g_snap s; g_called := g_called s; g_removed := g_removed s;
              g_deliveries := g_deliveries s |}
  | DDiscard cb =>
      Some {| d_live := remove1 cb (d_live s);
              d_remaining := d_remaining s; d_pending := d_pending s;
              g_snap := g_snap s; g_called := g_called s;
              g_removed := if mem cb (d_live s) then cb :: g_removed s else g_removed s;
              g_deliveries := g_deliveries s |}
  | DClear =>
      Some {| d_live := [];
              d_remaining := d_remaining s; d_pending := d_pending s;
              g_snap := g_snap s; g_called := g_called s;
              g_removed := d_live s ++ g_removed s;
              g_deliveries := g_deliveries s |}
  end.

Fixpoint drun (s : dstate) (l : list daction) : option dstate :=
  match l with
  | [] => Some s
  | a :: r => match dstep s a with Some s' => drun s' r | None => None end
  end.

Fixpoint drun_diag (s : dstate) (l : list daction) (n : nat) : dstate * option nat :=
  match l with
  | [] => (s, None)
  | a :: r => match dstep s a with Some s' => drun_diag s' r (S n) | None => (s, Some n) end
  end.

(* the delivery in progress is complete: every snapshot element has been visited *)
Definition d_complete (s : dstate) : bool :=
  match d_remaining s, d_pending s with [], None => true | _, _ => false end.
