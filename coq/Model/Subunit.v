(* SubunitBase as a sequential machine: the per-function cache, _protocol_message_received,
   attribute reads.  Exceptions are explicit (res); definitions only. *)
From Coq Require Import List NArith ZArith Bool.
From Ynca Require Import Base.Text Model.Enum Model.Conv Model.Line.
Import ListNotations.

Record sub_state := {
  ss_vals : list (text * value);    (* function name -> cached value; absent = None (never reported) *)
  ss_initialized : bool;            (* _initialized *)
  ss_event : bool                   (* _initialized_event is set *)
}.

Definition ss_init : sub_state := {| ss_vals := []; ss_initialized := false; ss_event := false |}.

Fixpoint upd (k : text) (v : value) (l : list (text * value)) : list (text * value) :=
  match l with
  | [] => [(k, v)]
  | (k', v') :: r => if teqb k k' then (k, v) :: r else (k', v') :: upd k v r
  end.

Section Sub.
  Variable py_float : text -> option fnum.
  Variable py_int : text -> option Z.
  Variable sc : subunit_class.

  (* YncaFunctionHandler.update: decode and store; an undecodable value is logged and ignored
     (returns None: nothing stored, nobody notified) *)
  Definition handler_update (f : func) (s : text) : res (option value) :=
    match to_value py_float py_int (f_conv f) s with
    | Ok v => Ok (Some v)
    | Raise => Ok None
    end.

  (* _protocol_message_received: new state and the (function name, value) handed to the update
     callbacks, if any *)
  Definition on_msg (st : sub_state) (m : msg) : res (sub_state * option (text * value)) :=
    match fst m with
    | StOK =>
        match snd m with
        | None => Ok (st, None)                                   (* subunit is None: id != None *)
        | Some (s, f, v) =>
            let st1 :=
              if negb (ss_initialized st) && teqb s t_SYS && teqb f t_VERSION
              then {| ss_vals := ss_vals st; ss_initialized := ss_initialized st; ss_event := true |}
              else st in
            if negb (teqb (sc_id sc) s) then Ok (st1, None)
            else
              match find_func sc f with
              | None => Ok (st1, None)
              | Some fn =>
                  match handler_update fn v with
                  | Raise => Raise
                  | Ok None => Ok (st1, None)
                  | Ok (Some x) =>
                      Ok ({| ss_vals := upd f x (ss_vals st1);
                             ss_initialized := ss_initialized st1; ss_event := ss_event st1 |},
                          if ss_initialized st1 then Some (f, x) else None)
                  end
              end
        end
    | _ => Ok (st, None)
    end.

  (* a history of messages; Raise is sticky (the reader thread would be gone) *)
  Fixpoint run (st : sub_state) (h : list msg) : res (sub_state * list (text * value)) :=
    match h with
    | [] => Ok (st, [])
    | m :: r =>
        match on_msg st m with
        | Raise => Raise
        | Ok (st', n) =>
            match run st' r with
            | Raise => Raise
            | Ok (st'', ns) => Ok (st'', match n with Some x => x :: ns | None => ns end)
            end
        end
    end.

  (* descriptor __get__: the cached value only; Raise for a function without GET *)
  Definition read_attr (st : sub_state) (attr : text) : option (res (option value)) :=
    match find (fun f => teqb (f_attr f) attr) (sc_funcs sc) with
    | None => None
    | Some f => Some (if f_get f then Ok (assoc (f_name f) (ss_vals st)) else Raise)
    end.

  Definition read (st : sub_state) (fname : text) : option value := assoc fname (ss_vals st).

  (* specification: the decoding of the most recent decodable value reported for (id, fname);
     `hr` is the history in REVERSE arrival order *)
  Fixpoint latest (fn : func) (hr : list msg) : option value :=
    match hr with
    | [] => None
    | m :: r =>
        match fst m, snd m with
        | StOK, Some (s, f, v) =>
            if teqb (sc_id sc) s && teqb (f_name fn) f then
              match to_value py_float py_int (f_conv fn) v with
              | Ok x => Some x
              | Raise => latest fn r
              end
            else latest fn r
        | _, _ => latest fn r
        end
    end.
End Sub.

(* the type a cached value must have *)
Fixpoint value_has_type (c : conv) (v : value) : bool :=
  match c with
  | CEnum e => match v with VMember en mn => teqb en (en_name e) && mem_text mn (en_names e) | _ => false end
  | CStr _ _ => match v with VStr _ => true | _ => false end
  | CInt _ => match v with VInt _ => true | _ => false end
  | CIntOrNone _ => match v with VInt _ | VNone => true | _ => false end
  | CFloat _ => match v with VFloat _ => true | _ => false end
  | CMulti cs => (fix any (l : list conv) : bool :=
                    match l with [] => false | c' :: r => value_has_type c' v || any r end) cs
  | COpaque => false
  end.

Definition names_unique (sc : subunit_class) : bool := nodup_text (map f_name (sc_funcs sc)).
