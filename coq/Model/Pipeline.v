(* Bytes from the port through framing, decoding, parsing into a set of subunit instances:
   the whole reader-thread path as one sequential function (C10).  Definitions only. *)
From Coq Require Import List NArith ZArith Bool.
From Ynca Require Import Base.Text Model.Enum Model.Conv Model.Framing Model.Line Model.Reader Model.Subunit.
Import ListNotations.

Section Pipe.
  Variable py_float : text -> option fnum.
  Variable py_int : text -> option Z.

  Definition inst := (subunit_class * sub_state)%type.

  (* one message into every registered instance; Raise if any handler raises *)
  Fixpoint deliver_all (is : list inst) (m : msg) : res (list inst * list (text * text * value)) :=
    match is with
    | [] => Ok ([], [])
    | (sc, st) :: r =>
        match on_msg py_float py_int sc st m with
        | Raise => Raise
        | Ok (st', n) =>
            match deliver_all r m with
            | Raise => Raise
            | Ok (r', ns) =>
                Ok ((sc, st') :: r',
                    match n with Some (f, v) => (sc_id sc, f, v) :: ns | None => ns end)
            end
        end
    end.

  Fixpoint deliver_msgs (is : list inst) (ms : list msg) : res (list inst * list (text * text * value)) :=
    match ms with
    | [] => Ok (is, [])
    | m :: r =>
        match deliver_all is m with
        | Raise => Raise
        | Ok (is', n1) =>
            match deliver_msgs is' r with
            | Raise => Raise
            | Ok (is'', n2) => Ok (is'', n1 ++ n2)
            end
        end
    end.

  (* the reader thread's work for a sequence of reads; Raise = the reader loop would exit and
     connection_lost would run *)
  Definition pipeline (rs : rstate) (is : list inst) (chunks : list bytes)
    : res (rstate * list inst * list (text * text * value)) :=
    let '(rs', ms) := rx_run rs chunks in
    match deliver_msgs is ms with
    | Raise => Raise
    | Ok (is', ns) => Ok (rs', is', ns)
    end.
End Pipe.
