(* The receive path as a sequential machine: data_received -> handle_packet -> handle_line.
   State: the Packetizer buffer and the keep-alive flag.  Definitions only. *)
From Coq Require Import List NArith Bool.
From Ynca Require Import Base.Text Base.Utf8 Model.Framing Model.Line.
Import ListNotations.

Record rstate := { r_buf : bytes; r_flag : bool }.

(* handle the packets of one data_received call in order *)
Fixpoint handle_packets (flag : bool) (ps : list bytes) : bool * list msg :=
  match ps with
  | [] => (flag, [])
  | p :: r =>
      let '(flag', d) := handle_line flag (decode_packet p) in
      let '(flag'', ds) := handle_packets flag' r in
      (flag'', match d with Some m => m :: ds | None => ds end)
  end.

Definition rx_step (s : rstate) (chunk : bytes) : rstate * list msg :=
  let '(ps, buf') := feed (r_buf s) chunk in
  let '(flag', ds) := handle_packets (r_flag s) ps in
  ({| r_buf := buf'; r_flag := flag' |}, ds).

Fixpoint rx_run (s : rstate) (chunks : list bytes) : rstate * list msg :=
  match chunks with
  | [] => (s, [])
  | c :: cs =>
      let '(s', d1) := rx_step s c in
      let '(s'', d2) := rx_run s' cs in
      (s'', d1 ++ d2)
  end.

Definition rx_init : rstate := {| r_buf := []; r_flag := false |}.
