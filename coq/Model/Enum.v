(* Generic model of the Python enumerations in ynca/enums.py:
   value lookup (first member whose wire text matches), the _missing_ hook,
   and encoding (member.value).  Definitions only. *)
From Coq Require Import List NArith Bool.
From Ynca Require Import Base.Text.
Import ListNotations.

Inductive res (A : Type) : Type := Ok (a : A) | Raise.
Arguments Ok {A} a.
Arguments Raise {A}.

(* Shape of the class's _missing_ hook as seen by the translator. *)
Inductive missing :=
| MissingMember (name : text)   (* "return cls.<name>" *)
| MissingNone                   (* no hook: ValueError *)
| MissingOpaque.                (* a hook of another shape: nothing is known *)

Record enum := {
  en_name : text;
  en_members : list (text * text);   (* __members__ in definition order: (member name, wire text) *)
  en_missing : missing
}.

Definition en_names (e : enum) : list text := map fst (en_members e).
Definition en_wires (e : enum) : list text := map snd (en_members e).

Fixpoint find_wire (s : text) (ms : list (text * text)) : option text :=
  match ms with
  | [] => None
  | (n, w) :: r => if teqb s w then Some n else find_wire s r
  end.

(* E(s): the member (by name) that the class call returns, or an exception. *)
Definition enum_decode (e : enum) (s : text) : res text :=
  match find_wire s (en_members e) with
  | Some n => Ok n
  | None =>
      match en_missing e with
      | MissingMember u => if mem_text u (en_names e) then Ok u else Raise
      | _ => Raise
      end
  end.

(* member.value *)
Definition enum_encode (e : enum) (n : text) : res text :=
  match assoc n (en_members e) with
  | Some w => Ok w
  | None => Raise
  end.

Definition t_UNKNOWN : text := [85;78;75;78;79;87;78]%N.

(* Boolean well-formedness, discharged by vm_compute on every generated enum. *)
Definition enum_wf (e : enum) : bool :=
  nodup_text (en_names e) && nodup_text (en_wires e) &&
  match en_missing e with
  | MissingMember u => teqb u t_UNKNOWN && mem_text u (en_names e)
  | _ => false
  end.
