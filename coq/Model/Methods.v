(* Action methods of the subunit classes as data (generated into Gen/Methods.v) and their
   evaluation.  Definitions only.  [None] = argument kind not modelled. *)
From Coq Require Import List NArith ZArith Bool.
From Ynca Require Import Base.Text Base.Decimal Model.Enum Model.Conv Model.Put.
Import ListNotations.

Inductive mexpr :=
| MEConst (t : text)                 (* a string literal *)
| MEParam                            (* the parameter itself *)
| MEValueAttr                        (* parameter.value *)
| MENoneOrStr (lit : text)           (* lit if parameter is None else str(parameter) *)
| MEFmt (pre suf : text).            (* f-string: pre {parameter} suf *)

Record volspec := {
  vs_word : text;                    (* value = word *)
  vs_steps : list Z;                 (* if step_size in [steps]: *)
  vs_pre : text; vs_post : text;     (*   value = pre {} post .format(...) *)
  vs_int : bool                      (*   ... of int(step_size) rather than step_size *)
}.

Inductive mbody :=
| MPut (fname : text) (e : mexpr) (guard_len : option nat)   (* [if len(p) != k: raise]; self._put(fname, e) *)
| MVol (vs : volspec) (fname : text)                          (* do_vol_up/down(self, step_size, fname) *)
| MOpaque.

Inductive mdefault := DNone | DNum (n : Z) (d : positive) (is_float : bool) | DOther.

Definition t_True : text := [84;114;117;101]%N.
Definition t_False : text := [70;97;108;115;101]%N.
Definition t_None : text := [78;111;110;101]%N.
Definition t_dot0 : text := [46;48]%N.

(* str(v) / format(v) for the argument kinds the model covers *)
Definition py_str (v : pyval) : option text :=
  match v with
  | PStr t => Some t
  | PInt z => Some (print_int z)
  | PBool b => Some (if b then t_True else t_False)
  | PNone => Some t_None
  | PFloat n d => if (Zpos d =? 1)%Z then Some (print_int n ++ t_dot0) else None
  | _ => None
  end.

(* step_size == k *)
Definition num_eq (v : pyval) (k : Z) : bool :=
  match num_of v with
  | Some (n, d) => (n =? k * Zpos d)%Z
  | None => false
  end.

Definition vol_text (vs : volspec) (v : pyval) : option text :=
  match find (num_eq v) (vs_steps vs) with
  | None => Some (vs_word vs)
  | Some k =>
      if vs_int vs then Some (vs_pre vs ++ print_int k ++ vs_post vs)
      else match py_str v with
           | Some s => Some (vs_pre vs ++ s ++ vs_post vs)
           | None => None
           end
  end.

Definition mexpr_eval (e : mexpr) (v : pyval) : option (res text) :=
  match e with
  | MEConst t => Some (Ok t)
  | MEParam => match v with PStr t => Some (Ok t) | _ => None end
  | MEValueAttr => match v with PEnum _ _ w _ => Some (Ok w) | _ => Some Raise end
  | MENoneOrStr lit =>
      match v with
      | PNone => Some (Ok lit)
      | _ => match py_str v with Some s => Some (Ok s) | None => None end
      end
  | MEFmt pre suf =>
      match py_str v with Some s => Some (Ok (pre ++ s ++ suf)) | None => None end
  end.

Definition guard_eval (g : option nat) (v : pyval) : option bool :=   (* Some true = passes *)
  match g with
  | None => Some true
  | Some k =>
      match v with
      | PStr t => Some (Nat.eqb (length t) k)
      | PInt _ | PBool _ | PFloat _ _ | PNan | PInf _ | PNone | PObj => Some false   (* len() raises TypeError *)
      | PEnum _ _ _ _ => None
      end
  end.

(* obj.method(arg): the PUTs handed to the connection, or an exception *)
Definition call_method (id : text) (b : mbody) (v : pyval) : option (res (list put)) :=
  match b with
  | MPut f e g =>
      match guard_eval g v with
      | None => None
      | Some false => Some Raise
      | Some true =>
          match mexpr_eval e v with
          | Some (Ok t) => Some (Ok [(id, f, t)])
          | Some Raise => Some Raise
          | None => None
          end
      end
  | MVol vs f =>
      match vol_text vs v with
      | Some t => Some (Ok [(id, f, t)])
      | None => None
      end
  | MOpaque => None
  end.

Definition default_arg (d : mdefault) : option pyval :=
  match d with
  | DNone => Some PNone
  | DNum n q true => Some (PFloat n q)
  | DNum n q false => if (Zpos q =? 1)%Z then Some (PInt n) else None
  | DOther => None
  end.

(* what C05 expects of a relative-volume helper *)
Definition t_Up : text := [85;112]%N.
Definition t_Down : text := [68;111;119;110]%N.
Definition t_sp : text := [32]%N.
Definition t_dB : text := [32;100;66]%N.

Definition volspec_ok (vs : volspec) : bool :=
  (teqb (vs_word vs) t_Up || teqb (vs_word vs) t_Down) &&
  teqb (vs_pre vs) (vs_word vs ++ t_sp) && teqb (vs_post vs) t_dB &&
  forallb (fun k => (k =? 1) || (k =? 2) || (k =? 5))%Z (vs_steps vs) &&
  vs_int vs.

Definition mbody_ok (b : mbody) : bool :=
  match b with
  | MPut _ _ _ => true
  | MVol vs _ => volspec_ok vs
  | MOpaque => false
  end.

Definition all_methods_ok (tb : list (text * list (text * mbody * option mdefault))) : bool :=
  forallb (fun c => forallb (fun m => mbody_ok (snd (fst m))) (snd c)) tb.

(* relative-volume argument kinds the statement names: int, float, bool-like *)
Definition step_arg (v : pyval) : bool :=
  match v with PInt _ | PBool _ | PFloat _ _ => true | _ => false end.
