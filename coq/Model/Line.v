(* YncaProtocol.handle_line: status literals, the regular expression
   (an at sign, a lazy non-empty subunit group, a colon, a lazy non-empty function group, an equals
   sign and a greedy value group, matched from the start of the line with DOTALL) as an explicit search, keep-alive suppression; and the formatting of commands.
   Definitions only. *)
From Coq Require Import List NArith Bool.
From Ynca Require Import Base.Text Base.Utf8.
Import ListNotations.
Open Scope N_scope.

Inductive status := StOK | StUNDEFINED | StRESTRICTED.

Definition t_at_UNDEFINED : text := [64;85;78;68;69;70;73;78;69;68].
Definition t_at_RESTRICTED : text := [64;82;69;83;84;82;73;67;84;69;68].
Definition t_SYS : text := [83;89;83].
Definition t_MODELNAME : text := [77;79;68;69;76;78;65;77;69].
Definition t_VERSION : text := [86;69;82;83;73;79;78].
Definition t_AVAIL : text := [65;86;65;73;76].

(* lazy function group, then '=', then the greedy value: the function is the shortest non-empty prefix followed by '=' *)
Fixpoint upto_eq (l : text) : option (text * text) :=
  match l with
  | [] => None
  | c :: r => if c =? c_eq then Some ([], r)
              else match upto_eq r with Some (a, b) => Some (c :: a, b) | None => None end
  end.

Definition find_eq (l : text) : option (text * text) :=
  match l with
  | [] => None
  | c :: r => match upto_eq r with Some (a, b) => Some (c :: a, b) | None => None end
  end.

(* lazy subunit group with backtracking: the first ':' (at index >= 1) after which the rest matches *)
Fixpoint scan_sub (acc : text) (l : text) : option (text * text * text) :=
  match l with
  | [] => None
  | c :: r =>
      if c =? c_colon then
        match find_eq r with
        | Some (f, v) => Some (rev acc, f, v)
        | None => scan_sub (c :: acc) r
        end
      else scan_sub (c :: acc) r
  end.

Definition parse_sfv (line : text) : option (text * text * text) :=
  match line with
  | a :: c :: r => if a =? c_at then scan_sub [c] r else None
  | _ => None
  end.

Definition line_status (line : text) : status :=
  if teqb line t_at_UNDEFINED then StUNDEFINED
  else if teqb line t_at_RESTRICTED then StRESTRICTED
  else StOK.

(* what the message callback receives: (status, subunit, function, value) *)
Definition msg := (status * option (text * text * text))%type.

Definition parse_line (line : text) : msg := (line_status line, parse_sfv line).

Definition is_modelname_reply (m : msg) : bool :=
  match snd m with
  | Some (s, f, _) => teqb s t_SYS && teqb f t_MODELNAME
  | None => false
  end.

(* handle_line: returns the new flag (always false) and the message delivered, if any *)
Definition handle_line (flag : bool) (line : text) : bool * option msg :=
  let m := parse_line line in
  (false, if flag && is_modelname_reply m then None else Some m).

(* the f-string  @{subunit}:{funcname}={parameter}  *)
Definition fmt_cmd (s f v : text) : text := c_at :: s ++ c_colon :: f ++ c_eq :: v.

(* LineReader.write_line: text.encode(utf-8, replace) + CR LF *)
Definition frame (t : text) : bytes := utf8_encode t ++ [c_cr; c_lf].

(* LineReader.handle_packet + handle_line over packets *)
Definition decode_packet (p : bytes) : text := utf8_decode p.
