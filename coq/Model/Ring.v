(* helpers.RingBuffer = collections.deque(maxlen=size): append drops the oldest item when full.
   Definitions and the facts C20 needs. *)
From Coq Require Import List Arith Lia.
Import ListNotations.

Definition lastn {A} (n : nat) (l : list A) : list A := skipn (length l - n) l.

Definition ring_add {A} (n : nat) (buf : list A) (x : A) : list A := lastn n (buf ++ [x]).

Lemma lastn_length {A} n (l : list A) : length (lastn n l) = min n (length l).
Proof. unfold lastn. rewrite skipn_length. lia. Qed.

Lemma lastn_0 {A} (l : list A) : lastn 0 l = [].
Proof. unfold lastn. rewrite Nat.sub_0_r. apply skipn_all. Qed.

Lemma lastn_all {A} n (l : list A) : length l <= n -> lastn n l = l.
Proof. intro H. unfold lastn. replace (length l - n) with 0 by lia. reflexivity. Qed.

Lemma skipn_app_le {A} k (a b : list A) : k <= length a -> skipn k (a ++ b) = skipn k a ++ b.
Proof.
  revert a; induction k as [|k IH]; intros a H; [reflexivity|].
  destruct a as [|x a]; [cbn in H; lia|]. cbn. apply IH. cbn in H. lia.
Qed.

Lemma skipn_1_skipn {A} k (l : list A) : skipn 1 (skipn k l) = skipn (S k) l.
Proof.
  revert l; induction k as [|k IH]; intro l; [reflexivity|].
  destruct l as [|x l]; [reflexivity|]. cbn [skipn] in *. apply IH.
Qed.

(* appending to the bounded buffer = bounding the appended unbounded log *)
Lemma ring_add_lastn {A} n (l : list A) x : ring_add n (lastn n l) x = lastn n (l ++ [x]).
Proof.
  destruct n as [|n'].
  { unfold ring_add. now rewrite !lastn_0. }
  set (n := S n'). assert (Hn : 1 <= n) by (unfold n; lia). clearbody n.
  unfold ring_add, lastn. rewrite !app_length, skipn_length. cbn [length].
  destruct (le_lt_dec (length l) n) as [H|H].
  - replace (length l - n) with 0 by lia. cbn [skipn].
    rewrite Nat.sub_0_r. reflexivity.
  - replace (length l - (length l - n)) with n by lia.
    replace (n + 1 - n) with 1 by lia.
    replace (length l + 1 - n) with (S (length l - n)) by lia.
    rewrite (skipn_app_le (S (length l - n)) l [x]) by lia.
    rewrite (skipn_app_le 1 (skipn (length l - n) l) [x]) by (rewrite skipn_length; lia).
    f_equal. apply skipn_1_skipn.
Qed.

Lemma lastn_suffix {A} n (l : list A) : exists pre, l = pre ++ lastn n l.
Proof. exists (firstn (length l - n) l). unfold lastn. symmetry. apply firstn_skipn. Qed.
