(* What C11 expects of the generated descriptors: the (decimals, step) pair per protocol
   function name, as given by the property text and docs/PROTOCOL.md, and the one documented
   exception (MAXVOL 16.5).  Definitions only. *)
From Coq Require Import List NArith ZArith Bool.
From Ynca Require Import Base.Text Base.Decimal Model.Enum Model.Conv Model.Step Model.Put.
Import ListNotations.
Open Scope N_scope.

Definition t_VOL : text := [86;79;76].
Definition t_ZONEBVOL : text := [90;79;78;69;66;86;79;76].
Definition t_SPBASS : text := [83;80;66;65;83;83].
Definition t_SPTREBLE : text := [83;80;84;82;69;66;76;69].
Definition t_HPBASS : text := [72;80;66;65;83;83].
Definition t_HPTREBLE : text := [72;80;84;82;69;66;76;69].
Definition t_INITVOLLVL : text := [73;78;73;84;86;79;76;76;86;76].
Definition t_MAXVOL : text := [77;65;88;86;79;76].
Definition t_FMFREQ : text := [70;77;70;82;69;81].
Definition t_AMFREQ : text := [65;77;70;82;69;81].
Definition t_16_5 : text := [49;54;46;53].

Definition expected_step : list (text * (nat * positive * positive)) :=
  [ (t_VOL, (1%nat, 1%positive, 2%positive));
    (t_ZONEBVOL, (1%nat, 1%positive, 2%positive));
    (t_SPBASS, (1%nat, 1%positive, 2%positive));
    (t_SPTREBLE, (1%nat, 1%positive, 2%positive));
    (t_HPBASS, (1%nat, 1%positive, 2%positive));
    (t_HPTREBLE, (1%nat, 1%positive, 2%positive));
    (t_INITVOLLVL, (1%nat, 1%positive, 2%positive));
    (t_MAXVOL, (1%nat, 5%positive, 1%positive));
    (t_FMFREQ, (2%nat, 1%positive, 5%positive));
    (t_AMFREQ, (0%nat, 10%positive, 1%positive)) ].

Definition expected_special : list (text * (text * Z * positive)) :=
  [ (t_MAXVOL, (t_16_5, 33%Z, 2%positive)) ].

Definition step_eqb (a b : nat * positive * positive) : bool :=
  let '(d1, n1, q1) := a in let '(d2, n2, q2) := b in
  Nat.eqb d1 d2 && Pos.eqb n1 n2 && Pos.eqb q1 q2.

Definition special_eqb (a b : text * Z * positive) : bool :=
  let '(l1, n1, q1) := a in let '(l2, n2, q2) := b in
  teqb l1 l2 && Z.eqb n1 n2 && Pos.eqb q1 q2.

(* the shapes of stepped converters the model covers, with their optional special case *)
Definition conv_special (c : conv) : option (text * Z * positive) :=
  match c with
  | CMulti [CFloat (TSOnly lit n0 d0); CFloat (TSStep _ _ _)] => Some (lit, n0, d0)
  | _ => None
  end.

Definition stepped_shape_ok (c : conv) : bool :=
  match c with
  | CFloat (TSStep _ _ _) => true
  | CInt (TSStep _ _ _) => true
  | CMulti [CFloat (TSStep _ _ _); CEnum _] => true
  | CMulti [CFloat (TSOnly _ _ _); CFloat (TSStep _ _ _)] => true
  | _ => false
  end.

Definition func_step_ok (f : func) : bool :=
  match conv_step (f_conv f) with
  | None => match assoc (f_name f) expected_step with Some _ => false | None => true end
  | Some (d, sn, sd) =>
      step_wf sn sd d && stepped_shape_ok (f_conv f) &&
      match assoc (f_name f) expected_step with
      | Some p => step_eqb p (d, sn, sd)
      | None => true
      end &&
      match assoc (f_name f) expected_special, conv_special (f_conv f) with
      | Some a, Some b => special_eqb a b
      | None, None => true
      | _, _ => false
      end
  end.

Definition all_steps_ok (scs : list subunit_class) : bool :=
  forallb (fun sc => forallb func_step_ok (sc_funcs sc)) scs.

(* numeric arguments covered by the statement: int (below the float overflow range), bool, finite float *)
Definition numeric_arg (v : pyval) : bool :=
  match v with
  | PInt z => (Z.abs z <? 2 ^ 1000)%Z
  | PBool _ | PFloat _ _ => true
  | _ => false
  end.

(* the text C11 requires on the wire for a numeric argument n/d *)
Definition stepped_wire (c : conv) (n : Z) (d : positive) : option text :=
  match conv_step c with
  | None => None
  | Some (dec, sn, sd) =>
      match conv_special c with
      | Some (lit, n0, d0) => if rat_eqb (n, d) n0 d0 then Some lit else Some (step_fmt n d sn sd dec)
      | None => Some (step_fmt n d sn sd dec)
      end
  end.
