(* Multi-phase dialogues on top of the connection: SubunitBase.initialize (plan, barrier, time-out),
   YncaApi._detect_available_subunits / _initialize_available_subunits (what is exposed),
   YncaApi.connection_check's message callback.  Sequential models over the messages the reader
   delivers; the thread interleavings are exercised by the simulation harness.  Definitions only. *)
From Coq Require Import List NArith ZArith Bool.
From Ynca Require Import Base.Text Model.Enum Model.Conv Model.Line Model.Subunit.
Import ListNotations.

(* ---------------------------------------------------------------- SubunitBase.initialize *)
Fixpoint dedup (seen : list text) (l : list text) : list text :=
  match l with
  | [] => []
  | x :: r => if mem_text x seen then dedup seen r else x :: dedup (x :: seen) r
  end.

Definition init_query (f : func) : text :=
  match f_init f with Some g => g | None => f_name f end.

(* the distinct initial queries, in handler order *)
Definition init_plan (sc : subunit_class) : list text :=
  dedup [] (map init_query (filter (fun f => negb (f_noinit f)) (sc_funcs sc))).

(* what initialize() submits, in order: one GET per query, then the synchronisation query *)
Definition init_submissions (sc : subunit_class) : list text :=
  map (fun q => fmt_cmd (sc_id sc) q [c_q]) (init_plan sc) ++ [fmt_cmd t_SYS t_VERSION [c_q]].

(* the wait: base + per_cmd * (number of commands sent) *)
Definition init_timeout (base per_cmd : Z) (sc : subunit_class) : Z :=
  (base + per_cmd * Z.of_nat (length (init_submissions sc)))%Z.

Definition is_version (m : msg) : bool :=
  match fst m, snd m with
  | StOK, Some (s, f, _) => teqb s t_SYS && teqb f t_VERSION
  | _, _ => false
  end.

(* no function excluded from initialisation is queried *)
Definition plan_respects_noinit (sc : subunit_class) : bool :=
  forallb (fun f => negb (f_noinit f) || negb (mem_text (f_name f) (init_plan sc))) (sc_funcs sc).

(* ---------------------------------------------------------------- YncaApi.initialize *)
(* _protocol_message_received of the API object during detection *)
Definition avail_of (m : msg) : option text :=
  match snd m with
  | Some (s, f, _) => if teqb f t_AVAIL then Some s else None
  | None => None
  end.

Fixpoint filter_map_t {A} (f : A -> option text) (l : list A) : list text :=
  match l with [] => [] | a :: r => match f a with Some b => b :: filter_map_t f r | None => filter_map_t f r end end.

(* the set _available_subunits after the detection phase saw the messages h *)
Definition detected (h : list msg) : list text := dedup [] (filter_map_t avail_of h).

(* the subunit ids for which an accessor is set after a successful initialize *)
Definition exposed (scs : list subunit_class) (h : list msg) : list text :=
  t_SYS :: filter (fun id => match find_class scs id with Some _ => true | None => false end) (detected h).

(* the detection phase submits one AVAIL query per known id, then the synchronisation query *)
Definition detect_submissions (ids : list text) : list text :=
  map (fun id => fmt_cmd id t_AVAIL [c_q]) ids ++ [fmt_cmd t_SYS t_VERSION [c_q]].

(* upper bound of the virtual duration of initialize(): every phase's wait plus the two joins of close() *)
Definition phases_bound (dbase dper ibase iper jr js : Z) (ids : list text) (present : list subunit_class) : Z :=
  (dbase + dper * Z.of_nat (length (detect_submissions ids)) +
   fold_right (fun sc acc => init_timeout ibase iper sc + acc) 0 present + jr + js)%Z.

(* ---------------------------------------------------------------- connection_check *)
Record ccstate := { cc_zones : list text; cc_needed : Z; cc_model : option text }.

Definition cc_init : ccstate := {| cc_zones := []; cc_needed := 4; cc_model := None |}.

(* the message callback of connection_check (one message) *)
Definition cc_step (s : ccstate) (m : msg) : ccstate :=
  let s1 :=
    match snd m with
    | Some (sub, f, _) =>
        if teqb f t_AVAIL then {| cc_zones := cc_zones s ++ [sub]; cc_needed := (cc_needed s - 1)%Z; cc_model := cc_model s |}
        else match fst m with
             | StOK => s
             | _ => {| cc_zones := cc_zones s; cc_needed := (cc_needed s - 1)%Z; cc_model := cc_model s |}
             end
    | None =>
        match fst m with
        | StOK => s
        | _ => {| cc_zones := cc_zones s; cc_needed := (cc_needed s - 1)%Z; cc_model := cc_model s |}
        end
    end in
  match snd m with
  | Some (sub, f, v) =>
      if teqb sub t_SYS && teqb f t_MODELNAME && (cc_needed s1 <=? 0)%Z
      then {| cc_zones := cc_zones s1; cc_needed := cc_needed s1; cc_model := Some v |}
      else s1
  | None => s1
  end.

(* the wait ends at the first message that sets the event: fold until a model name is accepted *)
Fixpoint cc_run (s : ccstate) (h : list msg) : ccstate :=
  match h with
  | [] => s
  | m :: r => let s' := cc_step s m in
              match cc_model s', cc_model s with
              | Some _, None => s'          (* event set: connection_check stops waiting *)
              | _, _ => cc_run s' r
              end
  end.
