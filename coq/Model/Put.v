(* Encoders (converter.to_str), attribute assignment (descriptor __set__) and reads (__get__).
   Definitions only.

   A result of [None] means "this kind of Python argument is not modelled"; the property
   statements leave those kinds open (see DESIGN.md, C05) and the correspondence skips them. *)
From Coq Require Import List NArith ZArith Bool.
From Ynca Require Import Base.Text Base.Decimal Model.Enum Model.Conv Model.Step.
Import ListNotations.

Inductive pyval :=
| PEnum (ename mname wire : text) (is_str : bool)  (* a member of some Enum class; wire = member.value; is_str: the class mixes in str *)
| PStr (t : text)
| PInt (z : Z)
| PBool (b : bool)
| PFloat (n : Z) (d : positive)       (* a finite float, exactly n/d *)
| PNan
| PInf (neg : bool)
| PNone
| PObj.                                (* an object without numeric / value / len protocols *)

(* the exact rational a numeric argument denotes (what Fraction(v) returns) *)
Definition num_of (v : pyval) : option (Z * positive) :=
  match v with
  | PInt z => Some (z, 1%positive)
  | PBool b => Some ((if b then 1 else 0)%Z, 1%positive)
  | PFloat n d => Some (n, d)
  | _ => None
  end.

Definition rat_eqb (a : Z * positive) (n0 : Z) (d0 : positive) : bool :=
  (fst a * Zpos d0 =? n0 * Zpos (snd a))%Z.

(* _to_str(value) for a value that already passed int()/float() *)
Definition tostr_apply (ts : tostr) (v : pyval) : option (res text) :=
  match ts with
  | TSStr => match v with PInt z => Some (Ok (print_int z)) | _ => None end
  | TSStep dec sn sd =>
      match v with
      | PStr _ => Some Raise                      (* "1.5" < 0 : TypeError *)
      | PNan | PInf _ => Some Raise               (* Fraction(nan) / Fraction(inf) *)
      | _ => match num_of v with
             | Some (n, d) => Some (Ok (step_fmt n d sn sd dec))
             | None => None
             end
      end
  | TSOnly lit n0 d0 =>
      match v with
      | PStr _ | PNan | PInf _ => Some Raise
      | _ => match num_of v with
             | Some q => Some (if rat_eqb q n0 d0 then Ok lit else Raise)
             | None => None
             end
      end
  | TSOpaque => None
  end.

Section Encode.
  Variable py_float : text -> option fnum.
  Variable py_int : text -> option Z.

  Definition len_ok (mn mx : option nat) (t : text) : bool :=
    (match mn with Some (S m) => Nat.leb (S m) (length t) | _ => true end) &&
    (match mx with Some (S m) => Nat.leb (length t) (S m) | _ => true end).

  Fixpoint conv_to_str (c : conv) (v : pyval) : option (res text) :=
    match c with
    | CEnum _ =>
        match v with
        | PEnum _ _ w _ => Some (Ok w)             (* cast(Enum, value).value *)
        | _ => Some Raise                           (* no attribute 'value' *)
        end
    | CStr mn mx =>
        match v with
        | PStr t => Some (if len_ok mn mx t then Ok t else Raise)
        | _ => None
        end
    | CInt ts | CIntOrNone ts =>
        match v with
        | PNone | PObj | PNan | PInf _ => Some Raise          (* int(value) raises *)
        | PStr t => match int_of_text py_int t with
                    | None => Some Raise
                    | Some _ => match ts with TSStr => None | _ => tostr_apply ts v end
                    end
        | PEnum _ _ w true =>                                  (* int(member) parses the str value *)
            match int_of_text py_int w with None => Some Raise | Some _ => None end
        | PEnum _ _ _ false => Some Raise                      (* TypeError *)
        | _ => tostr_apply ts v
        end
    | CFloat ts =>
        match v with
        | PNone | PObj => Some Raise                            (* float(value) raises *)
        | PStr t => match float_of_text py_float t with
                    | None => Some Raise
                    | Some _ => match ts with TSStr => None | _ => tostr_apply ts v end
                    end
        | PEnum _ _ w true =>
            match float_of_text py_float w with None => Some Raise | Some _ => None end
        | PEnum _ _ _ false => Some Raise
        | PInt z => if (Z.abs z <? 2 ^ 1000)%Z then tostr_apply ts v else None
        | _ => tostr_apply ts v
        end
    | CMulti cs =>
        (fix first (l : list conv) : option (res text) :=
           match l with
           | [] => Some Raise
           | c' :: r =>
               match conv_to_str c' v with
               | Some (Ok t) => Some (Ok t)
               | Some Raise => first r
               | None => None
               end
           end) cs
    | COpaque => None
    end.

  (* one PUT: (subunit id, function name, value text) *)
  Definition put := (text * text * text)%type.

  Definition find_attr (sc : subunit_class) (attr : text) : option func :=
    find (fun f => teqb (f_attr f) attr) (sc_funcs sc).

  (* obj.<attr> = v : the list of PUTs handed to the connection, or an exception *)
  Definition set_attr (sc : subunit_class) (attr : text) (v : pyval) : option (res (list put)) :=
    match find_attr sc attr with
    | None => None
    | Some f =>
        if negb (f_put f) then Some Raise
        else match conv_to_str (f_conv f) v with
             | Some (Ok t) => Some (Ok [(sc_id sc, f_name f, t)])
             | Some Raise => Some Raise
             | None => None
             end
    end.
End Encode.

(* the (decimals, step) of a stepped function, if it has one *)
Definition tostr_step (ts : tostr) : option (nat * positive * positive) :=
  match ts with TSStep d sn sd => Some (d, sn, sd) | _ => None end.

Fixpoint conv_step (c : conv) : option (nat * positive * positive) :=
  match c with
  | CInt ts | CIntOrNone ts | CFloat ts => tostr_step ts
  | CMulti cs =>
      (fix go (l : list conv) :=
         match l with
         | [] => None
         | c' :: r => match conv_step c' with Some p => Some p | None => go r end
         end) cs
  | _ => None
  end.
