(* YncaApi.initialize() as a sequence of phases: the availability scan, then the System subunit, then every
   detected subunit in order.  A phase succeeds when its synchronisation reply arrives within the phase's
   time-out (which replies arrive is the device's and the link's business: a universally quantified list of
   booleans here).  What the code does with a failing phase is read off the AST on every run (Gen/Params.v):

     s_detect_raises   the scan's timed wait raises when it expires      (api._detect_available_subunits)
     s_subinit_raises  a subunit's timed wait raises when it expires     (subunit.SubunitBase.initialize)
     s_propagates      nothing between a subunit's initialize() and the caller of
                       YncaApi.initialize() swallows that exception      (api._initialize_available_subunits)
     s_finally_closes  the try/finally of YncaApi.initialize() closes unless the last statement of the
                       try-body was reached                               (api.YncaApi.initialize)           *)
From Coq Require Import List Arith Bool Lia.
Import ListNotations.

Record scfg := { s_detect_raises : bool; s_subinit_raises : bool; s_propagates : bool; s_finally_closes : bool }.

Inductive outcome := Returned | Raised.

Record sres := {
  o_out : outcome;
  o_released : bool;     (* close() ran: accessors cleared, connection closed (C16) *)
  o_exposed : nat        (* subunit objects registered when initialize() ended *)
}.

Section S.
Variable c : scfg.

(* subunit phases, SYS first: each either registers the object or fails *)
Fixpoint subs (oks : list bool) (n : nat) : sres :=
  match oks with
  | [] => {| o_out := Returned; o_released := false; o_exposed := n |}
  | true :: rest => subs rest (S n)
  | false :: rest =>
      if s_subinit_raises c
      then if s_propagates c
           then {| o_out := Raised; o_released := s_finally_closes c; o_exposed := if s_finally_closes c then O else n |}
           else subs rest n                                     (* swallowed: the loop goes on without it *)
      else subs rest (S n)                                      (* the wait's result ignored: registered all the same *)
  end.

Definition startup (detect_ok : bool) (oks : list bool) : sres :=
  if detect_ok || negb (s_detect_raises c)
  then subs oks O
  else {| o_out := Raised; o_released := s_finally_closes c; o_exposed := O |}.
End S.

Definition good_scfg : scfg := {| s_detect_raises := true; s_subinit_raises := true; s_propagates := true; s_finally_closes := true |}.
