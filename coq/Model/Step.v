(* Model of ynca.helpers.number_to_string_with_stepsize (exact arithmetic):
     steps  = round(Fraction(value) / Fraction(str(stepsize)))       (ties to even)
     scaled = int(abs(steps * step) * 10**decimals)
     before, after = divmod(scaled, 10**decimals)
     "-" if value < 0 and scaled > 0;  str(before);  "." + after zero-padded to `decimals`
   The value is the exact rational vn/vd (what Fraction(value) is for an int, bool or
   finite float), the step is sn/sd.  Definitions only. *)
From Coq Require Import List NArith ZArith Bool.
From Ynca Require Import Base.Text Base.Decimal.
Import ListNotations.
Open Scope Z_scope.

(* Fraction.__round__: floor, compare twice the remainder with the denominator, ties to even *)
Definition round_half_even (num den : Z) : Z :=
  let q := num / den in
  let r := num mod den in
  match Z.compare (2 * r) den with
  | Lt => q
  | Gt => q + 1
  | Eq => if Z.even q then q else q + 1
  end.

Definition step_count (vn : Z) (vd sn sd : positive) : Z :=
  round_half_even (vn * Zpos sd) (Zpos vd * Zpos sn).

Definition step_fmt (vn : Z) (vd sn sd : positive) (decimals : nat) : text :=
  let k := step_count vn vd sn sd in
  let scaled := Z.to_N ((Z.abs k * Zpos sn * 10 ^ Z.of_nat decimals) / Zpos sd) in
  let p := (10 ^ N.of_nat decimals)%N in
  dec_print ((vn <? 0) && (0 <? scaled)%N) (scaled / p)%N (scaled mod p)%N decimals.

(* admissible parameters: step * 10^decimals is an integer *)
Definition step_wf (sn sd : positive) (decimals : nat) : bool :=
  (Zpos sn * 10 ^ Z.of_nat decimals) mod Zpos sd =? 0.
