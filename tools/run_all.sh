#!/bin/bash
# run every claimed check (quick) on the unchanged tree; print the summary lines
cd "$(dirname "$0")/.."
for p in $(python3 -c "import json;print(' '.join(c['property_id'] for c in json.load(open('MANIFEST.json'))['checks']))"); do
  ./check $p --tier ${1:-quick} 2>&1 | grep -E "^\[|VIOLATION|KNOWN" | tail -3
done
