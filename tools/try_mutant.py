#!/usr/bin/env python3
"""Confirm a seeded mutant in a scratch worktree and run checks against it.

  tools/try_mutant.py confirm <src_dir> <seed_id> <property> "<needs>"   # copies into seeded/<seed_id>, confirms
  tools/try_mutant.py run <seed_id> <Cnn> [<Cnn> ...]                    # applies to /repo, runs checks, undoes
"""
import json
import os
import shutil
import subprocess
import sys
import time

VERIF = os.path.dirname(os.path.dirname(os.path.abspath(__file__)))
REPO = "/repo"


def sh(cmd, **kw):
    return subprocess.run(cmd, shell=True, capture_output=True, text=True, **kw)


def confirm(src, seed_id, prop, needs):
    dst = os.path.join(VERIF, "seeded", seed_id)
    os.makedirs(dst, exist_ok=True)
    for fn in ("patch.diff", "demo.py", "notes.md"):
        if os.path.exists(os.path.join(src, fn)):
            shutil.copy(os.path.join(src, fn), os.path.join(dst, fn))
    wt = f"/tmp/wt/confirm_{seed_id}"
    sh(f"git -C {REPO} worktree remove --force {wt}")
    r = sh(f"git -C {REPO} worktree add -q --detach {wt} HEAD")
    assert r.returncode == 0, r.stderr
    meta = {"seed_id": seed_id, "breaks_property": prop, "needs_to_manifest": needs, "confirmed_at_repo_commit": sh(f"git -C {REPO} rev-parse --short HEAD").stdout.strip()}
    try:
        env = f"PYTHONPATH={wt} PYTHONHASHSEED=0"
        r0 = sh(f"cd {wt} && {env} timeout 120 /venv/bin/python {dst}/demo.py")
        meta["demo_exit_without_change"] = r0.returncode
        ap = sh(f"git -C {wt} apply --3way {dst}/patch.diff")
        if ap.returncode != 0:
            ap = sh(f"git -C {wt} apply {dst}/patch.diff")
        meta["patch_applies"] = ap.returncode == 0
        if ap.returncode != 0:
            meta["apply_error"] = ap.stderr[-500:]
        else:
            # refresh patch so that it applies to the current HEAD without 3-way
            d = sh(f"git -C {wt} diff HEAD -- ynca")
            open(os.path.join(dst, "patch.diff"), "w").write(d.stdout)
            t = sh(f"cd {wt} && {env} /venv/bin/python -m pytest -q -p no:cacheprovider --timeout=900 2>&1 | tail -1")
            meta["test_suite_with_change"] = t.stdout.strip()
            r1 = sh(f"cd {wt} && {env} timeout 120 /venv/bin/python {dst}/demo.py")
            meta["demo_exit_with_change"] = r1.returncode
            meta["demo_output_with_change"] = (r1.stdout + r1.stderr)[-600:]
        meta["confirmed"] = bool(meta.get("patch_applies") and meta.get("demo_exit_without_change") == 0 and meta.get("demo_exit_with_change") == 1 and " passed" in meta.get("test_suite_with_change", "") and "failed" not in meta.get("test_suite_with_change", ""))
    finally:
        sh(f"git -C {REPO} worktree remove --force {wt}")
    meta["what_was_run"] = "scratch worktree of /repo HEAD: demo.py without the change (exit 0), git apply, full pytest suite, demo.py with the change (exit 1)"
    old = {}
    mp = os.path.join(dst, "meta.json")
    if os.path.exists(mp):
        old = json.load(open(mp))
    old.update(meta)
    json.dump(old, open(mp, "w"), indent=1)
    print(json.dumps(meta, indent=1))


def run(seed_id, props):
    """TRY_WT=<scratch worktree of /repo> applies the change there instead of /repo (the checks honour YNCA_REPO);
    TRY_VERIF=<copy of /verif> runs the checks of that copy; the results are recorded in this tree's seeded/ either way"""
    global REPO
    dst = os.path.join(VERIF, "seeded", seed_id)
    REPO = os.environ.get("TRY_WT", REPO)
    run_dir = os.environ.get("TRY_VERIF", VERIF)
    if REPO != "/repo":
        sh(f"git -C {REPO} reset -q --hard HEAD")
    st = sh(f"git -C {REPO} status --porcelain").stdout.strip()
    assert st == "", f"{REPO} not clean: " + st
    ap = sh(f"git -C {REPO} apply {dst}/patch.diff")
    if ap.returncode != 0 and REPO != "/repo":
        ap = sh(f"git -C {REPO} apply --3way {dst}/patch.diff")  # a patch made before a later fix of a neighbouring line
    assert ap.returncode == 0, ap.stderr
    results = {}
    try:
        for p in props:
            t0 = time.time()
            r = sh(f"cd {run_dir} && YNCA_REPO={REPO} ./check {p} --tier quick")
            lines = [l for l in r.stdout.splitlines() if l.startswith(("VIOLATION", "KNOWN-FINDING", "["))]
            results[p] = {"exit": r.returncode, "lines": lines[:6], "wall_s": round(time.time() - t0, 1)}
            print(p, "exit", r.returncode, *lines[:3], sep="\n   ")
            # keep one replay as illustration
            for l in lines:
                if l.startswith("VIOLATION") and "replay=" in l:
                    rp = l.split("replay=")[1].split()[0]
                    if os.path.exists(rp):
                        try:
                            d = json.load(open(rp))
                            results[p]["first_replay"] = {k: (str(v)[:400]) for k, v in d.items() if k in ("key", "what", "no_longer_checks")}
                        except Exception:
                            pass
                    break
    finally:
        sh(f"git -C {REPO} checkout -- ." if REPO == "/repo" else f"git -C {REPO} reset -q --hard HEAD")
        sh(f"rm -f {run_dir}/replays/*")
    mp = os.path.join(dst, "meta.json")
    meta = json.load(open(mp)) if os.path.exists(mp) else {}
    for r in results.values():
        r["lines"] = [l.replace(run_dir, VERIF) for l in r["lines"]]
    meta.setdefault("checks_run_against_it", {}).update(results)
    json.dump(meta, open(mp, "w"), indent=1)
    # restore evidence + generated tables for the unchanged tree
    return results


if __name__ == "__main__":
    if sys.argv[1] == "confirm":
        confirm(sys.argv[2], sys.argv[3], sys.argv[4], sys.argv[5])
    else:
        run(sys.argv[2], sys.argv[3:])
