#!/bin/bash
# independent re-check of every compiled property file and everything it depends on (about 3 minutes);
# prints the axioms they rely on (expected: <none>)
cd "$(dirname "$0")/../coq"
exec timeout 3000 coqchk -silent -o -Q . Ynca $(for i in $(seq -w 1 20); do echo -n "Ynca.Properties.C$i "; done)
