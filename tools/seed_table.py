#!/usr/bin/env python3
"""Regenerates the seeded-changes table of DESIGN.md from seeded/*/meta.json."""
import glob
import json
import os
import re

V = os.path.dirname(os.path.dirname(os.path.abspath(__file__)))
rows = []
for mp in sorted(glob.glob(os.path.join(V, "seeded", "*", "meta.json"))):
    m = json.load(open(mp))
    res = []
    for chk, r in sorted((m.get("checks_run_against_it") or {}).items()):
        lines = r.get("lines") or []
        concrete = any(l.startswith("VIOLATION") and "no-failing-input-found" not in l for l in lines)
        broken = any("no-failing-input-found" in l for l in lines)
        if r.get("exit") == 1 and concrete:
            res.append(f"{chk}: FALSE ALARM (replay)" if m.get("harmless") else f"{chk}: replay")
        elif r.get("exit") == 1 and broken:
            res.append(f"{chk}: proof/correspondence broken")
        elif r.get("exit") == 1:
            res.append(f"{chk}: reported")
        elif r.get("exit") == 0:
            res.append(f"{chk}: passes" if m.get("harmless") else f"{chk}: MISSED")
        else:
            res.append(f"{chk}: exit {r.get('exit')}")
    rows.append((m["seed_id"], "harmless" if m.get("harmless") else m.get("breaks_property", ""), (m.get("needs_to_manifest") or "").replace("|", "/")[:110], "yes" if m.get("confirmed") else "NO", "; ".join(res) or "not run"))
tab = "| seed | property | needs, to manifest | confirmed | checks run against it |\n|---|---|---|---|---|\n" + "\n".join("| " + " | ".join(r) + " |" for r in rows) + "\n"
p = os.path.join(V, "DESIGN.md")
s = open(p).read()
if "<!-- SEED-TABLE -->" in s and "<!-- /SEED-TABLE -->" not in s:
    s = s.replace("<!-- SEED-TABLE -->", "<!-- SEED-TABLE -->\n" + tab + "<!-- /SEED-TABLE -->")
else:
    s = re.sub(r"<!-- SEED-TABLE -->.*?<!-- /SEED-TABLE -->", lambda _: "<!-- SEED-TABLE -->\n" + tab + "<!-- /SEED-TABLE -->", s, flags=re.S)
open(p, "w").write(s)
print(len(rows), "seeds")
