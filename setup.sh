#!/bin/bash
# Build the framework from files on disk only (offline).  Run once after a fresh restore.
set -e
cd "$(dirname "$0")"
export YNCA_REPO="${YNCA_REPO:-/repo}"
export PYTHONPATH="$YNCA_REPO:$(pwd)"
export PYTHONHASHSEED=0
mkdir -p build evidence replays coq/Gen coq/Cases
/venv/bin/python -m vlib.setup 2> >(grep -v conda >&2)
