"""Sequential harness for subunit instances: a real YncaConnection whose protocol is a recording
fake, real subunit objects, helpers to deliver messages and to canonicalise attribute values."""
from __future__ import annotations

import enum
import math
from fractions import Fraction


class FakeProtocol:
    """Stands in for YncaProtocol below YncaConnection: records what would be queued."""

    def __init__(self):
        self.sent = []
        self.num_commands_sent = 0
        self.connected = True
        self._disconnect_callback = None

    def put(self, subunit, funcname, parameter):
        self.sent.append(("put", f"{subunit}", funcname, parameter))
        self.num_commands_sent += 1

    def get(self, subunit, funcname):
        self.sent.append(("get", f"{subunit}", funcname, "?"))
        self.num_commands_sent += 1

    def raw(self, data):
        self.sent.append(("raw", data))
        self.num_commands_sent += 1

    def get_communication_log_items(self):
        return []


def make_connection():
    from ynca.connection import YncaConnection

    conn = YncaConnection("fake://")
    conn._protocol = FakeProtocol()
    return conn


def deliver(conn, msg):
    """msg = (status_name, None | (S, F, V)) as produced by the line parser."""
    from ynca.connection import YncaProtocolStatus

    st = YncaProtocolStatus[msg[0]]
    if msg[1] is None:
        conn._call_registered_message_callbacks(st, None, None, None)
    else:
        conn._call_registered_message_callbacks(st, msg[1][0], msg[1][1], msg[1][2])


def subunit_classes():
    from ..vlib.translate import collect  # pragma: no cover


def canon_value(v):
    """Canonical, comparable form of an attribute value (matches coqio.decode_value shapes)."""
    if v is None:
        return ("absent",)
    if isinstance(v, enum.Enum):
        return ("member", type(v).__name__, v.name)
    if type(v) is str:
        return ("str", v)
    if type(v) is bool:
        return ("bool", v)
    if type(v) is int:
        return ("int", v)
    if type(v) is float:
        if math.isnan(v):
            return ("nan",)
        if math.isinf(v):
            return ("inf", v < 0)
        fr = Fraction(v)
        return ("float", fr.numerator, fr.denominator)
    return ("other", repr(v))


def model_value_to_canon(mv):
    """decoded model value (coqio.decode_value) -> same canonical form as canon_value."""
    if mv[0] == "member":
        return ("member", mv[1], mv[2])
    if mv[0] == "str":
        return ("str", mv[1])
    if mv[0] == "dec":
        x = float(Fraction(mv[1], 10 ** mv[2]))
        fr = Fraction(x)
        return ("float", fr.numerator, fr.denominator)
    if mv[0] == "rat":
        fr = Fraction(mv[1], mv[2])
        return ("float", fr.numerator, fr.denominator)
    if mv[0] == "nan":
        return ("nan",)
    if mv[0] == "inf":
        return ("inf", mv[1])
    if mv[0] == "int":
        return ("int", mv[1])
    if mv[0] == "none":
        return ("absent",)  # Python None: indistinguishable from never-reported when read
    return ("?", mv)


def class_info():
    """[(cls, id, [(attr, func)])] from the live objects."""
    from .translate import collect

    classes, table, enums = collect()
    out = []
    for c, funcs in table:
        cid = c.id.value if isinstance(c.id, enum.Enum) else str(c.id)
        out.append((c, cid, funcs))
    return out, enums


def typed_decoding(conv, text):
    """The typed decoding of a reported text for a function, computed from what the function's converter DECLARES (its
    kind, its enum class, the order of alternatives) and not by calling its methods: an independent reading of "the
    typed decoding" for the monitors' references.  Kinds it does not know are asked themselves."""
    from ynca import converters as C

    t = type(conv)
    if t is C.MultiConverter and isinstance(getattr(conv, "_converters", None), (list, tuple)):
        for sub in conv._converters:
            try:
                return typed_decoding(sub, text)
            except Exception:  # noqa: next alternative
                pass
        raise ValueError(text)
    if t is C.EnumConverter and isinstance(getattr(conv, "datatype", None), type):
        return conv.datatype(text)
    if t is C.IntConverter:
        return int(text)
    if t is C.IntOrNoneConverter:
        try:
            return int(text)
        except ValueError:
            return None
    if t is C.FloatConverter:
        return float(text)
    if t is C.StrConverter:
        return text
    return conv.to_value(text)
