"""Encoding of Python values as Coq terms and decoding of the flat numeric results printed by
the cases files (see coq/Model/Show.v)."""
from __future__ import annotations

import math
import re
from fractions import Fraction

from .common import ct

SEP = 1114112
END = 1114113

PLAIN_DEC = re.compile(r"-?[0-9]+(\.[0-9]+)?\Z")
PLAIN_INT = re.compile(r"-?[0-9]+\Z")


def is_ascii_digits(s):
    return all("0" <= c <= "9" for c in s)


def plain_dec(s: str) -> bool:
    return bool(PLAIN_DEC.match(s)) and all(c in "-.0123456789" for c in s)


def plain_int(s: str) -> bool:
    return bool(PLAIN_INT.match(s)) and all(c in "-0123456789" for c in s)


def cz(z: int) -> str:
    return f"({z})%Z"


def cfnum_of_float(x: float) -> str:
    if math.isnan(x):
        return "FNan"
    if math.isinf(x):
        return "(FInf %s)" % ("true" if x < 0 else "false")
    fr = Fraction(x)
    return f"(FRat ({fr.numerator})%Z {fr.denominator}%positive)"


def float_oracle_table(texts):
    """Coq association list text -> fnum for texts outside the plain grammar on which float() succeeds."""
    items = []
    for t in sorted(set(texts)):
        if plain_dec(t):
            continue
        try:
            x = float(t)
        except (ValueError, OverflowError):
            continue
        items.append(f"({ct(t)}, {cfnum_of_float(x)})")
    return "[" + "; ".join(items) + "]"


def int_oracle_table(texts):
    items = []
    for t in sorted(set(texts)):
        if plain_int(t):
            continue
        try:
            x = int(t)
        except ValueError:
            continue
        items.append(f"({ct(t)}, {cz(x)})")
    return "[" + "; ".join(items) + "]"


def parse_flat(out: str):
    """All results of a cases file: list of token lists (split at END)."""
    m = re.search(r"=\s*\[(.*?)\]\s*(?:%N)?\s*:\s*list N", out, re.S)
    if not m:
        if re.search(r"=\s*\[\s*\]", out):
            return []
        raise ValueError("cannot parse cases output: " + out[-500:])
    nums = [int(x) for x in re.findall(r"\d+", m.group(1))]
    res, cur = [], []
    for n in nums:
        if n == END:
            res.append(cur)
            cur = []
        else:
            cur.append(n)
    return res


END2 = 1114114


def parse_flat2(out: str):
    """Two-level results: list (per case) of lists (per item) of tokens; cases end with END2."""
    m = re.search(r"=\s*\[(.*?)\]\s*(?:%N)?\s*:\s*list N", out, re.S)
    if not m:
        if re.search(r"=\s*\[\s*\]", out):
            return []
        raise ValueError("cannot parse cases output: " + out[-500:])
    nums = [int(x) for x in re.findall(r"\d+", m.group(1))]
    cases, items, cur = [], [], []
    for n in nums:
        if n == END:
            items.append(cur)
            cur = []
        elif n == END2:
            cases.append(items)
            items = []
        else:
            cur.append(n)
    return cases


def decode_msg(tokens):
    """-> (status_name, None | (S, F, V))"""
    st = ["OK", "UNDEFINED", "RESTRICTED"][tokens[0]]
    if tokens[1] == 0:
        return (st, None)
    body = tokens[2:]
    i = body.index(SEP)
    j = body.index(SEP, i + 1)
    return (st, (txt(body[:i]), txt(body[i + 1 : j]), txt(body[j + 1 :])))


def txt(tokens):
    return "".join(chr(c) for c in tokens)


def dec_Z(tokens):
    sign, mag = tokens[0], tokens[1]
    return -mag if sign == 1 else mag


def decode_value(tokens):
    """-> ('raise',) | ('member', enum, name) | ('str', s) | ('dec', m, k) | ('rat', n, d) | ('nan',) |
    ('inf', neg) | ('int', z) | ('none',)"""
    tag = tokens[0]
    if tag == 0:
        return ("raise",)
    if tag == 1:
        i = tokens.index(SEP)
        return ("member", txt(tokens[1:i]), txt(tokens[i + 1 :]))
    if tag == 2:
        return ("str", txt(tokens[1:]))
    if tag == 3:
        return ("dec", dec_Z(tokens[1:3]), tokens[3])
    if tag == 4:
        return ("rat", dec_Z(tokens[1:3]), tokens[3])
    if tag == 5:
        return ("nan",)
    if tag == 6:
        return ("inf", tokens[1] == 1)
    if tag == 7:
        return ("int", dec_Z(tokens[1:3]))
    if tag == 8:
        return ("none",)
    raise ValueError(tokens)


def py_value_matches(model, py):
    """Compare a decoded model value with what the implementation produced.
    `py` is ('raise', excname) or ('ok', object)."""
    import enum

    if model[0] == "raise":
        return py[0] == "raise"
    if py[0] == "raise":
        return False
    v = py[1]
    if model[0] == "member":
        return isinstance(v, enum.Enum) and type(v).__name__ == model[1] and v.name == model[2]
    if model[0] == "str":
        return type(v) is str and v == model[1]
    if model[0] == "dec":
        return type(v) is float and v == float(Fraction(model[1], 10 ** model[2]))
    if model[0] == "rat":
        return type(v) is float and not math.isnan(v) and not math.isinf(v) and Fraction(v) == Fraction(model[1], model[2])
    if model[0] == "nan":
        return type(v) is float and math.isnan(v)
    if model[0] == "inf":
        return type(v) is float and math.isinf(v) and (v < 0) == model[1]
    if model[0] == "int":
        return type(v) is int and v == model[1]
    if model[0] == "none":
        return v is None
    return False


def describe_py(py):
    if py[0] == "raise":
        return "raise " + py[1]
    return repr(py[1])


CASES_HEADER = """From Coq Require Import List NArith ZArith Bool.
From Ynca Require Import Base.Text Base.Decimal Model.Enum Model.Conv Model.Show.
Import ListNotations.
Open Scope N_scope.
"""
