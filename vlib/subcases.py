"""Shared by C03 / C09 / C10: histories of messages for subunit classes, the implementation run,
an independent reference, and the model evaluation."""
from __future__ import annotations

import enum
import re

from . import coqio
from .common import ct, run_cases_sharded
from .subharness import canon_value, class_info, deliver, make_connection, model_value_to_canon
from .translate import recordings, split_sfv

ODD_VALUES = ["", " ", "Auto Down", "Auto Up", "abc", "1e3", " 1.5", "1_0", "+5", "nan", "inf", "-inf", "0x10", "１２", "12.", ".5", "--1", "1.2.3", "ß", "\U0001f600", "On", "Off", "-0.0", "007", "-30.5", "12", "98.30", "None", "True"]


def recorded_values():
    """(S, F) -> sorted list of recorded values (Received)."""
    d = {}
    for _, entries in recordings():
        for direction, line in entries:
            if direction == "Received":
                t = split_sfv(line)
                if t:
                    d.setdefault((t[0], t[1]), set()).add(t[2])
    return {k: sorted(v) for k, v in d.items()}


def gen_value(rng, f, rec):
    from ynca import converters as C

    r = rng.random()
    if r < 0.35 and rec:
        return rng.choice(rec)
    cv = f.converter
    parts = cv._converters if type(cv) is C.MultiConverter else [cv]
    p = rng.choice(parts)
    if r < 0.85:
        if type(p) is C.EnumConverter:
            ms = [m.value for m in p.datatype.__members__.values()]
            return rng.choice(ms) if rng.random() < 0.8 else rng.choice(ms).lower()
        if type(p) in (C.IntConverter, C.IntOrNoneConverter):
            return str(rng.randrange(-100, 2000))
        if type(p) is C.FloatConverter:
            return rng.choice(["%.1f" % (rng.randrange(-1600, 400) / 10), "%.2f" % (rng.randrange(7000, 11000) / 100), str(rng.randrange(-80, 20))])
        return rng.choice(["Living", "Zone2   ß", "", "a=b:c", "Radio \U0001f600", "x" * rng.randrange(0, 40)])
    return rng.choice(ODD_VALUES)


def gen_history(rng, cid, funcs, all_ids, rec_by, n):
    """messages as (status_name, None | (S,F,V)); mix: own functions, other subunits, unknown functions, errors."""
    h = []
    names = [f.name for _, f in funcs]
    for _ in range(n):
        r = rng.random()
        if r < 0.6 and funcs:
            _, f = rng.choice(funcs)
            h.append(("OK", (cid, f.name, gen_value(rng, f, rec_by.get((cid, f.name))))))
        elif r < 0.8:
            other = rng.choice([i for i in all_ids if i != cid] + ["FOO", cid.lower(), cid + "X", ""])
            if funcs and rng.random() < 0.7:
                _, f = rng.choice(funcs)
                h.append(("OK", (other, f.name, gen_value(rng, f, rec_by.get((cid, f.name))))))
            else:
                h.append(("OK", (other, "VERSION", "1.0")))
        elif r < 0.9:
            fn = rng.choice(["NOSUCH", "vol", names[0].lower() if names else "x", (names[0] + "X") if names else "y", "BASIC", "METAINFO", "VERSION", ""])
            h.append(("OK", (cid, fn, rng.choice(["1", "On", ""]))))
        else:
            h.append(rng.choice([("UNDEFINED", None), ("RESTRICTED", None), ("OK", None)]))
    return h


def run_impl_history(cls, h, initialized):
    """Real subunit instance on a real YncaConnection with a recording protocol.
    Returns dict(final=[canon per function in handler order], notes=[(fname, canon)], error=..., sent_during_reads=int)"""
    conn = make_connection()
    inst = cls(conn)
    inst._initialized = initialized
    notes = []
    inst.register_update_callback(lambda fn, v: notes.append((fn, canon_value(v))))
    err = None
    for i, m in enumerate(h):
        try:
            deliver(conn, m)
        except Exception as e:  # noqa
            err = (i, type(e).__name__, str(e)[:100])
            break
    before = len(conn._protocol.sent)
    final = []
    for name, handler in inst.function_handlers.items():
        final.append((name, canon_value(handler.value)))
    return {"inst": inst, "conn": conn, "final": final, "notes": notes, "error": err, "sent_before_reads": before}


def coq_msg(m):
    st = {"OK": "StOK", "UNDEFINED": "StUNDEFINED", "RESTRICTED": "StRESTRICTED"}[m[0]]
    if m[1] is None:
        return f"({st}, None)"
    return f"({st}, Some ({ct(m[1][0])}, {ct(m[1][1])}, {ct(m[1][2])}))"


def model_histories(name, cases):
    """cases: list of (class id, initialized, history).  Returns (ok, [ (finals(list canon|None-for-raise), notes) ], err)"""

    def mk(part):
        texts = [m[1][2] for _, _, h in part for m in h if m[1] is not None]
        lines = [coqio.CASES_HEADER, "From Ynca Require Import Model.Line Model.Subunit Gen.Enums Gen.Functions.\n"]
        lines.append(f"Definition pf := table_float {coqio.float_oracle_table(texts)}.")
        lines.append(f"Definition pi := table_int {coqio.int_oracle_table(texts)}.")
        items = []
        for cid, ini, h in part:
            items.append(f"({ct(cid)}, {'true' if ini else 'false'}, [" + "; ".join(coq_msg(m) for m in h) + "])")
        lines.append("Definition cases : list (text * bool * list msg) :=\n [" + ";\n  ".join(items) + "].\n")
        lines.append(
            "Definition run1 (c : text * bool * list msg) : list N :=\n"
            "  let '(id, ini, h) := c in\n"
            "  match find_class all_subunits id with\n"
            "  | None => [9; END; END2]\n"
            "  | Some sc => show_sub_result sc (run pf pi sc {| ss_vals := []; ss_initialized := ini; ss_event := false |} h)\n"
            "  end.\n"
        )
        lines.append("Eval vm_compute in flat_map run1 cases.\n")
        return "\n".join(lines)

    ok, outs, err = run_cases_sharded(name, mk, cases, shard=60)
    if not ok:
        return False, [], err
    res = []
    for o in outs:
        for items in coqio.parse_flat2(o):
            if items and items[0] == [10]:
                res.append(None)
                continue
            if items and items[0] == [9]:
                res.append("noclass")
                continue
            k = items.index([7])
            finals = []
            for t in items[:k]:
                if t[0] == 0:
                    finals.append(("absent",))
                else:
                    finals.append(model_value_to_canon(coqio.decode_value(t[1:])))
            notes = []
            for t in items[k + 1 :]:
                i = t.index(coqio.SEP)
                notes.append((coqio.txt(t[:i]), model_value_to_canon(coqio.decode_value(t[i + 1 :]))))
            res.append((finals, notes))
    return True, res, None
