"""Writes MANIFEST.json from the table below (python3 -m vlib.manifest)."""
import json
import os

VERIF = os.path.dirname(os.path.dirname(os.path.abspath(__file__)))

BASE_NOTE = (
    "Trusted: Coq 8.16.1 kernel and vm_compute; the translator (vlib/translate.py) that regenerates coq/Gen/*.v from /repo on every run; "
    "the correspondence harness that runs the real code and the model on the same inputs. "
)

HARNESS_NOTE = "Modelled, not verified: pyserial ReaderThread/LineReader, queue.Queue, threading.Event/Lock/Thread.join, time.sleep and the port are replaced by the harness's simulated primitives (their contracts are the model's assumptions); real-clock behaviour and OS scheduling latency / thread teardown are outside every theorem."

CHECKS = {
    "C18": dict(
        text="Coq model of ynca/server.py (YncaDataStore ingestion, get/put with change detection, handle_get/handle_put with every coupling) with an explicit exception channel; guard flags, the JSON-decoding "
        "shape of fill_from_file, the four tables and the 12 recordings (as raw lines) are regenerated from /repo on every run. Theorems for EVERY recording (any list of lines) and every oracle: the loaded store "
        "holds for (S,F) the value of the last line carrying one (error lines never overwrite, other lines never disturb); a GET of an ordinary function answers exactly that value, and an error line for a key no "
        "line names; every GET gets at least one line; PUT of a new value to an ordinary stored function is stored, reported exactly once, returned by later GETs and changes nothing else; PUT of the current "
        "value reports nothing; group queries answer only stored members; every reply from every reachable store is a well-formed line; reflection: the 12 bundled recordings loaded by the model agree with the "
        "independent reader's last-value tables. The real fill_from_file and the real YncaCommandHandler (buffers for socket files) run on the recordings, on generated recordings and on GET/PUT sequences and are compared with the model and an independent reference.",
        note=BASE_NOTE + "Modelled, not verified: socketserver, text-mode line iteration, str.strip/rstrip/startswith/split, dict insertion order, re.search on the one pattern (hand model shared with C02), json.loads / float() / int() / str(float) as universally quantified oracles. "
        "The structure of handle_get/handle_put is transcribed by hand; only the guards, conditions and tables are read from the source, the rest is tied by the line-by-line correspondence.",
        technique="Coq proof (induction over recordings and command sequences, invariant store_ok) + reflection over regenerated tables/recordings + differential correspondence",
        design_ref="6 (C18)",
    ),
    "C19": dict(
        text="Coq theorem: with the guards the translator reads off the AST of ynca/server.py (dict lookups with defaults, try/except around int()/float()/float+int, empty-list test, lenient decoding) and the "
        "regenerated truth table of the relative-volume condition, the handler is a total function that never raises for EVERY store, EVERY sequence of received byte lines (any bytes) and every float()/int()/str() "
        "oracle; relative Up/Down values go through arithmetic iff the function is VOL or ZONEBVOL, identically for Up and Down, and are otherwise stored like any value; a step that cannot be applied is answered "
        "with an error line and changes nothing. With a guard missing the model raises where the code raises (the model and the unrepaired code agreed line by line on every session). The real handler is fed every "
        "command the typed API emits (1916 wire lines from real subunit instances) and generated hostile lines (unknown names, Up/Down variants, huge amounts, malformed text, invalid UTF-8) on every bundled recording. Frame theorems for every guard configuration: no command adds or removes a key; a PUT leaves every stored value alone except the one it names and, for PWR, the PWR/PWRB values it is coupled with.",
        note=BASE_NOTE + "Modelled, not verified: socketserver (an exception escaping handle() closes the socket: read from the standard library), bytes.strip/decode (Base/Utf8.v, validated by correspondence), "
        "float()/int()/str(float) as universally quantified oracles, int->float OverflowError threshold written into the model (2^1024 - 2^970).",
        technique="Coq proof (total function with explicit exception channel, guards regenerated from the AST) + differential correspondence on typed-API and hostile lines",
        design_ref="6 (C19)",
    ),
    "C06": dict(
        text="Coq theorems over the regenerated function tables and the subunit machine: the initial query plan of EVERY subunit class has no duplicates, contains exactly the own GET or "
        "group query of every function not excluded from initialisation, excluded functions are never queried, the submissions are one GET per plan entry followed by SYS:VERSION last; "
        "for EVERY message history the event is set exactly by a SYS:VERSION message, every message before it has been completely processed (so C03 applies: readable), no notification "
        "before initialisation; the time-out is base + per_cmd * (#queries) from the regenerated constants. The real SubunitBase.initialize of all 23 classes runs on a real connection under "
        "the deterministic harness with devices answering all/some/none, late or missing sync replies, floods, stray VERSION lines and steady unrelated traffic outlasting every time-out (a failing call must take exactly as long with it as without), a reader stalled in the middle of a reply line followed by one burst of several hundred bytes (what must be readable at return is taken from the bytes the device emitted); submissions compared with the model, barrier / time-out "
        "/ callback gating judged by a monitor.",
        note=BASE_NOTE + HARNESS_NOTE + " PARTIAL: the barrier is proved for the reader's sequential processing order; that the caller wakes only after the reader set the event is threading.Event's contract (harness).",
        technique="Coq proof (induction over histories, reflection over regenerated tables) + differential correspondence via deterministic simulation",
        design_ref="6 (C06)",
    ),
    "C07": dict(
        text="Coq theorems over Model/Api.v for EVERY list of messages delivered during detection: the exposed set is exactly SYS plus the ids whose AVAIL line with a value was delivered, "
        "each id maps to the class with that id (regenerated tables, ids unique), detection submits one AVAIL query per known id and the sync query last; population reduces to C06 + C03 per "
        "exposed subunit. The real YncaApi.initialize() runs under the deterministic harness against the 12 recorded receivers, random synthetic devices (subsets of subunits/functions, "
        "unsolicited updates, latency/jitter, receivers that sleep through their first one or two lines; in 30 % of the sessions the application has earlier written one value to every writable function of another object of each class -- what was written there plays no part) and PAIRS of API objects on different devices initialising concurrently; accessor sets compared with the model, values with an independent reference.",
        note=BASE_NOTE + HARNESS_NOTE + " PARTIAL: device predicates (FIFO replies, AVAIL lines only in answer to the AVAIL query) are hypotheses validated against the 12 recordings only.",
        technique="Coq proof (induction over delivered messages, reflection over regenerated tables) + differential correspondence via deterministic simulation",
        design_ref="6 (C07)",
    ),
    "C14": dict(
        text="Coq theorems: every wait of initialize() is a timed wait whose bound is a closed form over the regenerated constants and tables (phases_bound), the worst case over all 23 classes "
        "is <= 300 s; after close() the accessors are cleared, the connection dropped and (C16) the port closed and threads stopped. Fault enumeration on the real code under the deterministic "
        "harness: for a recorded and synthetic devices, silence after the k-th reply for every k, end-of-file / I/O error after byte offsets including the end of EVERY synchronisation reply "
        "(between two phases) and inside CR LF, write errors at every other write, port-open failure; monitor: library exception, within the bound, nothing left behind. Devices include receivers with one zone only (the subunits initialised last are input sources). 'Never returns normally' also as a theorem: Model/Startup.v (initialize() as a sequence of phases: availability scan, SYS, every detected subunit) with four flags read off the AST on every run (both timed waits raise when they expire, nothing swallows a subunit's failure, the try/finally -- or except-BaseException-reraise -- closes unless the try-body ran to its end): for EVERY pattern of answered/unanswered phases initialize() returns iff every phase was answered, a failure has released everything, a success exposes one object per phase; skipping a failed subunit is refuted with a witness. The phase structure of every enumerated session is replayed in that model.",
        note=BASE_NOTE + HARNESS_NOTE + " PARTIAL: 'raises rather than returns' for each fault position is established by the enumeration on the real code (every k in quick for the recorded device, strided for others), not by a theorem about the Python exception flow.",
        technique="Coq proof (closed-form bound by reflection over regenerated constants) + exhaustive fault-position enumeration via deterministic simulation",
        design_ref="6 (C14)",
    ),
    "C17": dict(
        text="Coq theorems over the connection-check machine (Model/Api.cc_run) for EVERY list of delivered messages: the result is the last model name delivered together with exactly the "
        "zones whose AVAIL value was delivered before it, no model name means the connection error, parser messages are well formed; the regenerated time-out is 1.5 s; the temporary connection "
        "is closed in every outcome (C16). The real connection_check() runs under the deterministic harness over all 16 zone subsets x latencies around the 100 ms pacing x swallowed first probe "
        "x fault points x schedules; results compared with the model and judged by a monitor; also called from inside a message callback of another live connection; the temporary connection's threads must have ended when the call returns.",
        note=BASE_NOTE + HARNESS_NOTE,
        technique="Coq proof (induction over delivered messages) + exhaustive grid correspondence via deterministic simulation",
        design_ref="6 (C17)",
    ),
    "C04": dict(
        text="Coq theorems (decode total / round trip / injective / text identity, generic in the enum tables) instantiated by reflection "
        "(vm_compute) over the enumerations, function descriptors and recorded triples regenerated from /repo on every run; "
        "the live Enum classes and converters are run exhaustively (all members, non-member strings, all recorded triples) and compared with the model. In addition sessions with two receivers in one process reporting different values of the same enumerated function at the same instant, with every source line of ynca/converters.py a scheduling point (the two reader threads interleave statement by statement inside the shared converter); each object must read the decoding of what its own device said.",
        note=BASE_NOTE + "Modelled, not verified: Python's Enum lookup/_missing_ protocol; float()/int() outside the plain decimal grammar are oracles.",
        technique="Coq proof by reflection over generated tables + exhaustive differential correspondence",
        design_ref="6 (C04)",
    ),
    "C11": dict(
        text="Coq theorems over unbounded Z arithmetic for the exact-arithmetic formatter model (output parses back to exactly k*step with the fixed "
        "number of decimals; k*step is nearest for EVERY integer j; sign/format shape), reflection over the regenerated descriptors (every stepped "
        "function has admissible parameters, the prescribed (decimals, step) pair and MAXVOL alone the 16.5 literal), and a theorem that a numeric "
        "assignment to any stepped attribute yields exactly one PUT carrying that text. The real helper and every stepped attribute are swept over "
        "grid points, tie points and their +-3 ulp neighbours and compared with the model (vm_compute); also after the device has reported values for all stepped functions of the object (the receiver's state plays no part), and on threads whose `decimal` context (rounding mode, precision) has been changed (the interpreter's ambient state plays no part). Two threads writing the same stepped function of two objects at the same time, with every source line of ynca/function.py, converters.py and helpers.py a scheduling point, must each transmit the literal of their own value.",
        note=BASE_NOTE + "Modelled, not verified: CPython Fraction arithmetic, round(), str(int); the translator's AST reading of the to_str lambdas.",
        technique="Coq proof (lia/nia over Z) + reflection over generated descriptors + differential sweep",
        design_ref="6 (C11)",
    ),
    "C02": dict(
        text="Coq theorems: the framing function is the unique decomposition of the stream into CRLF-free lines and rest; for EVERY list of read chunks "
        "the receive path (feed -> UTF-8 decode with replace -> status literals + lazy regex as an explicit search) delivers exactly the parsed complete lines "
        "of the concatenated stream in order and keeps the incomplete tail; parse(fmt S F V) = (OK,S,F,V) for every V; UTF-8 round trip for all scalar values; "
        "end-to-end corollary. The real YncaProtocol.data_received is fed the same chunkings (random, adversarial cuts, exhaustive small streams) and compared with the model.",
        note=BASE_NOTE + "Modelled, not verified: pyserial Packetizer/LineReader, bytearray.split, bytes.decode(utf-8, replace), re on the one pattern (hand model, validated by running the real classes).",
        technique="Coq proof by induction over chunk lists + differential correspondence on chunked streams",
        design_ref="6 (C02)",
    ),
    "C03": dict(
        text="Coq theorem by induction over histories: for every generated subunit class, every oracle and EVERY message history, a read returns the decoding "
        "of the most recent decodable value reported for exactly that subunit id and function name (else None); non-interference lemmas; totality of the handler; "
        "reflection over the regenerated tables (function names unique per class, ids unique). Real instances of all 23 classes are driven through a real "
        "YncaConnection with generated histories and compared with an independent reference after messages and with the model at the end; in addition the device sends such histories as bytes over a live connection under the deterministic harness (reader thread, framing, keep-alive handling) and the attributes are read at the end. The reference decodes from what the function's converter declares (kind, enum class, order of alternatives), not by calling the converter.",
        note=BASE_NOTE + "Modelled, not verified: dict/descriptor protocol of CPython; 'reading transmits nothing' holds by construction in the model and is checked on the implementation by counting transmissions.",
        technique="Coq proof by induction over message histories + reflection + differential correspondence",
        design_ref="6 (C03)",
    ),
    "C10": dict(
        text="Coq theorems about the whole reader-thread path as one total function with explicit exceptions (framing -> UTF-8 replace decoding -> parse -> every "
        "subunit handler incl. value decoding): never Raise for EVERY chunk sequence / instance set / oracle; composition (later input processed normally); an undecodable "
        "value keeps the previous value; typing invariant of all cached values. The real path (YncaProtocol.data_received -> YncaConnection -> 23 real instances) is fed "
        "every (function x odd text) line, runs of 2..200 (thorough ..5000) malformed / undecodable / error / invalid-UTF-8 / unknown lines back to back, and random hostile streams, judged by monitors, and compared with the model. That handle_line contains no raise statement of its own is a reflection obligation over a flag read off the AST (p_handle_line_raises_nothing).",
        note=BASE_NOTE + "Modelled, not verified: that an exception escaping data_received ends pyserial's reader loop (read from pyserial's source); user callbacks that raise are outside the statement.",
        technique="Coq proof (total function with explicit exception channel, invariants) + differential correspondence on hostile byte streams",
        design_ref="6 (C10)",
    ),
    "C05": dict(
        text="Coq theorems over the encoder model (converter.to_str, descriptor __set__/__get__, action methods generated from their ASTs): a valid value yields exactly "
        "one PUT with the protocol name and canonical text; read-only/write-only/out-of-domain values raise with nothing transmitted (a structural `rejects` predicate "
        "proved sufficient for every converter tree); never more than one PUT; relative volume text is Up/Down or Up N dB/Down N dB with N in {1,2,5} for EVERY int, "
        "float or bool step; reflection over all generated methods. Every attribute x value kind and every method x argument kind is run on real instances (caches "
        "pre-filled, reads compared before/after) and compared with the model; the documented ends of the memory-slot range (1 and 40) included.",
        note=BASE_NOTE + "Modelled, not verified: descriptor protocol, str()/format() of int/bool/integral float, len(), `in`; Python arguments are a finite taxonomy (pyval); kinds the statement leaves open are reported as such.",
        technique="Coq proof (structural induction over converter trees) + reflection over generated descriptors/methods + exhaustive differential correspondence",
        design_ref="6 (C05)",
    ),
    "C01": dict(
        text="Coq LTS (Model/Conn.v) whose actions are the primitive events of the real threads; theorems by invariant for EVERY action list (any number of callers, any "
        "interleaving, any device): FIFO (enq = deq ++ queue), exactly-once/in-order (written items ++ item in hand = non-marker items dequeued), wire is a prefix of the "
        "submissions, per-caller order, idle implies all written, each write is frame(text) = one CRLF line that decodes back unchanged, only the sender writes. "
        "The real ynca/pyserial threads run unmodified under a deterministic simulation harness; each recorded event trace is replayed in the model (every event must be enabled; "
        "wire, deliveries and log equal) and judged by an independent monitor. A quarter of the sessions run beside a second, independent connection of the same process and a fifth are the second session of the same object (nothing may cross over or carry over). 4 % of the sessions contain a burst of 70-300 (thorough -1100) commands; per caller, the commands handed to put/get/raw while the connection was up are compared with what entered the queue. That raw()/put()/the keep-alive put their item into the queue with nothing on the path that could drop it is also a reflection obligation over a flag read off the AST (p_enqueue_lossless).",
        note=BASE_NOTE + "Modelled, not verified: pyserial ReaderThread/LineReader, queue.Queue, threading.Event/Lock/Thread.join, time.sleep and the port are replaced by the harness's simulated primitives (their contracts are the model's assumptions); real-clock behaviour and OS scheduling latency are outside every theorem.",
        technique="Coq proof by invariants over a labelled transition system (all schedules) + trace-inclusion correspondence via deterministic simulation",
        design_ref="6 (C01), 3.3, 4.2",
    ),
    "C08": dict(
        text="Coq theorem over the connection LTS: for EVERY action list, with unrestricted time steps (arbitrary scheduling delays), consecutive writes are at least "
        "p_spacing apart and only the sender's write transition extends the wire; reflection: the regenerated constant is >= 100 ms. Real threads run under the deterministic "
        "harness (bursts, several callers, idle gaps, injected stalls), traces replayed in the model, minimum gap monitored; plus sessions in which one write fails part-way while further commands are queued (the next transmission still starts at least 100 ms later).",
        note=BASE_NOTE + "Modelled, not verified: pyserial ReaderThread/LineReader, queue.Queue, threading.Event/Lock/Thread.join, time.sleep and the port are replaced by the harness's simulated primitives (their contracts are the model's assumptions); real-clock behaviour and OS scheduling latency are outside every theorem.",
        technique="Coq proof by invariant over an LTS (all schedules, unrestricted delays) + trace-inclusion correspondence via deterministic simulation",
        design_ref="6 (C08)",
    ),
    "C12": dict(
        text="Coq theorem over URGENT runs of the connection LTS (time passes only while the sender is blocked and never past its deadline; nobody else takes the lock or drains "
        "the queue): while the sender lives, time since the last write <= keepalive + spacing; consecutive writes at most that far apart; first write within keepalive; the two "
        "probes queued at connect are the first two writes (from C01's prefix theorem); reflection: keepalive <= 30 s. Sessions across keep-alive expiries are simulated without "
        "injected stalls, replayed and monitored.",
        note=BASE_NOTE + "Modelled, not verified: pyserial ReaderThread/LineReader, queue.Queue, threading.Event/Lock/Thread.join, time.sleep and the port are replaced by the harness's simulated primitives (their contracts are the model's assumptions); real-clock behaviour and OS scheduling latency are outside every theorem." + " PARTIAL with respect to the runtime: assumes computation, writes and wake-ups take no time.",
        technique="Coq proof by invariant over a timed LTS with urgency + trace-inclusion correspondence via deterministic simulation",
        design_ref="6 (C12)",
    ),
    "C13": dict(
        text="Coq theorems over the connection LTS for EVERY action list: every line's fate is decided once in arrival order; delivered = parse of the non-withheld lines in order; "
        "withheld lines are SYS:MODELNAME replies and withholding requires reading the flag as set, which requires a probe started since the flag was last cleared; conversely the "
        "flag persists until the reader clears it and then a MODELNAME line is withheld. Simulated sessions bias reader steps between the sender's flag write and port write; traces "
        "replayed in the model; monitor evaluates the statement on the event record.",
        note=BASE_NOTE + "Modelled, not verified: pyserial ReaderThread/LineReader, queue.Queue, threading.Event/Lock/Thread.join, time.sleep and the port are replaced by the harness's simulated primitives (their contracts are the model's assumptions); real-clock behaviour and OS scheduling latency are outside every theorem.",
        technique="Coq proof by invariant over an LTS (all schedules) + trace-inclusion correspondence via deterministic simulation",
        design_ref="6 (C13)",
    ),
    "C20": dict(
        text="Coq theorems for EVERY N and every action list: the buffer is lastn N of the complete log (so <= N entries, empty for N = 0; deque model ring_add proved equal to "
        "bounding the appended log); Send entries = written texts in order plus at most one not yet written; Received entries = received lines in arrival order; received lines = "
        "framing of the emitted bytes; when the device answers write w its Send entry is already logged. Simulated sessions with N in {0..10000}, log read concurrently; traces "
        "replayed; monitor compares with the port's own record. In addition sessions in which every source line of ynca/helpers.py (the ring buffer) is a scheduling point: the sender and the reader log at the same instant and interleave statement by statement inside the buffer; the log must stay bounded by N.",
        note=BASE_NOTE + "Modelled, not verified: pyserial ReaderThread/LineReader, queue.Queue, threading.Event/Lock/Thread.join, time.sleep and the port are replaced by the harness's simulated primitives (their contracts are the model's assumptions); real-clock behaviour and OS scheduling latency are outside every theorem.",
        technique="Coq proof by invariants over an LTS (all schedules) + trace-inclusion correspondence via deterministic simulation",
        design_ref="6 (C20)",
    ),
    "C09": dict(
        text="Sequential half: Coq theorems over the subunit machine for every history (one notification per decodable value of a modelled function of this subunit, in arrival order, "
        "only while initialised, cache updated first). Concurrent half: Coq LTS of one delivery over a snapshot with a membership test per callback under ARBITRARY interleaved "
        "register/unregister/clear actions; pointwise invariants give: complete delivery => every callback registered at the snapshot and not unregistered since was invoked exactly once, "
        "nothing else, nobody twice; mutations are always enabled; the loop always progresses. Real subunits/connection run under the deterministic harness with re-entrant and "
        "cross-thread mutation programs; each callback set's event trace is replayed in the model; monitor judges every delivery. An API-level monitor (built only from the register/unregister/close calls made and the invocations seen, with plain functions and bound methods as callbacks) judges every delivery independently of how the library stores callbacks. A systematic pass reports EVERY declared function of EVERY class (readable or write-only) once to an initialised instance with two callbacks; the expected decoded value is computed from what the converter declares (kind, enum class, order of alternatives), not by calling it.",
        note=BASE_NOTE + "Modelled, not verified: pyserial ReaderThread/LineReader, queue.Queue, threading.Event/Lock/Thread.join, time.sleep and the port are replaced by the harness's simulated primitives (their contracts are the model's assumptions); real-clock behaviour and OS scheduling latency / thread teardown are outside every theorem.",
        technique="Coq proof by induction over histories + pointwise invariants over an LTS (all interleavings) + trace-inclusion correspondence via deterministic simulation",
        design_ref="6 (C09)",
    ),
    "C15": dict(
        text="Coq LTS of the connection life cycle (reader exit path = ReaderThread.run -> connection_lost, close(), abstract sender) with invariants for EVERY action list: disconnect "
        "callback invoked at most once and only at the end of connection_lost (exactly once when still set: the reader's steps are forced), connected False from the first step of "
        "connection_lost, no delivery afterwards, the lost path never blocks without a finite deadline; plus, on the connection LTS, the multiset theorem "
        "#written(x) + #drained(x) <= #submitted(x) (discarded, not written). Sessions with a transport fault at random points run under the deterministic harness, are replayed in both "
        "machines and judged by a monitor (callback count, connected flag, writes after the drain, thread termination, later API calls). Progress measure: in every run the reader takes at most ten progress steps of its own from its loop to termination and nobody moves it backwards (LifeMore.v). The connection machine has the connection-lost flag: the sender drops what it dequeues once the flag is set and stops. API-level sessions: the link drops with the k-th byte while YncaApi.initialize() is waiting for replies; the application's callback must be invoked exactly once.",
        note=BASE_NOTE + "Modelled, not verified: pyserial ReaderThread/LineReader, queue.Queue, threading.Event/Lock/Thread.join, time.sleep and the port are replaced by the harness's simulated primitives (their contracts are the model's assumptions); real-clock behaviour and OS scheduling latency / thread teardown are outside every theorem." + " PARTIAL: thread termination is proved as bounded blocking of the lost path and observed on every simulated run, not proved as OS-level liveness.",
        technique="Coq proof by invariants over LTSs (all fault positions and interleavings) + trace-inclusion correspondence via deterministic simulation with fault injection",
        design_ref="6 (C15)",
    ),
    "C16": dict(
        text="Coq LTS of the life cycle with any number of concurrent/repeated close() calls on other threads and close() on the reader thread itself; invariants for EVERY action list: "
        "once a close() has started (_closed set) the user's disconnect callback is never invoked again; a cleared callback stays cleared and is never invoked after a later read; once a "
        "close() has returned the port is closed, the reader is told to stop, and no sender write can succeed; close() can start in any state and its join has a finite deadline. "
        "Sessions with close() from caller threads, the main thread, inside message/disconnect callbacks, during connect(), repeated and concurrent, are simulated, replayed and monitored. Progress measure for close(): moved only by its own steps, each strictly forward (at most seven after it started). Scenarios include close() after the link was already lost, close() while YncaApi.initialize() is running, and close() inside a message callback followed by connect() on the same object (in the callback or from another thread) before the callback has returned; and a connection with callbacks closed, then ANOTHER connection of the process opened and talking (none of the closed connection's callbacks may start). For that case a second model (Model/Reconnect.v: the object's _closed flag shared by two sessions, the old protocol's callback, the old reader winding down at any point) with flags read off the AST of close()/connect(): because close() clears the old protocol's callback, no order of close / connect / old-reader steps invokes the user's callback; the flag alone suffices only without a reconnect, and is refuted with one (witness history); the recorded two-session traces are replayed in that model.",
        note=BASE_NOTE + "Modelled, not verified: pyserial ReaderThread/LineReader, queue.Queue, threading.Event/Lock/Thread.join, time.sleep and the port are replaced by the harness's simulated primitives (their contracts are the model's assumptions); real-clock behaviour and OS scheduling latency / thread teardown are outside every theorem." + " PARTIAL: 'returns without raising' is absence of a raising transition in the transcribed close(), tied to the code by replay (a raise is an event the model refuses).",
        technique="Coq proof by invariants over an LTS (all interleavings of closers, reader and sender) + trace-inclusion correspondence via deterministic simulation",
        design_ref="6 (C16)",
    ),
}

ALL = ["C%02d" % i for i in range(1, 21)]

PENDING_REASON = "check not built yet in this session (planned in DESIGN.md section 6; will move to checks when its theorem and correspondence exist)"


def main():
    checks = []
    for pid in ALL:
        if pid in CHECKS:
            c = CHECKS[pid]
            checks.append(
                {
                    "property_id": pid,
                    "quick_cmd": f"./check {pid} --tier quick",
                    "thorough_cmd": f"./check {pid} --tier thorough",
                    "evidence_file": f"/verif/evidence/{pid}.json",
                    "replay_cmd_template": f"./check {pid} --replay {{path}}",
                    "engine": "coq-model+correspondence",
                    "level_claimed": {"category": "proof", "text": c["text"], "design_ref": c["design_ref"]},
                    "level_note": c["note"],
                    "technique": c["technique"],
                }
            )
    man = {
        "version": 1,
        "setup_cmd": "./setup.sh",
        "hooks": {
            "guard": "YNCA_VERIF",
            "enable": "no source hooks: checks import /repo's working tree (PYTHONPATH=/repo) and instrument it from outside",
            "baseline_off_cmd": "cd /repo && /venv/bin/python -m pytest -ra -q -p no:cacheprovider --timeout=900 --continue-on-collection-errors",
            "source_commits": [],
            "add_only": True,
        },
        "engines": [
            {
                "name": "coq-model+correspondence",
                "path": "/verif/coq, /verif/vlib",
                "serves_properties": sorted(CHECKS),
                "kind_free_text": "Coq 8.16 models and theorems; tables regenerated from /repo by a translator; hand-written logic tied by differential correspondence (vm_compute vs the real code)",
            }
        ],
        "checks": checks,
        "not_applicable": [{"property_id": p, "reason": PENDING_REASON} for p in ALL if p not in CHECKS],
        "notes": "See DESIGN.md.  KNOWN_FINDINGS.json lists recorded defects; seeded/ holds validated breaking changes.",
    }
    with open(os.path.join(VERIF, "MANIFEST.json"), "w") as f:
        json.dump(man, f, indent=1)


if __name__ == "__main__":
    main()
