"""Scenario generation, implementation monitors and model comparison shared by the connection
properties C01, C08, C12, C13, C20."""
from __future__ import annotations

import random
import re

from . import conntrace as CT
from . import dsim
from .translate import recordings, split_sfv

PROBE = "@SYS:MODELNAME=?"
SPACING = 100000  # the minimum the statement of C08 requires
KEEPALIVE = 30000000  # the interval the statement of C12 names


def code_spacing():
    """COMMAND_SPACING of the code under test (regenerated), for rules that speak of 'one command spacing'"""
    from .common import gen_params

    return gen_params().get("p_spacing", SPACING)


def code_keepalive():
    from .common import gen_params

    return gen_params().get("p_keepalive", KEEPALIVE)

_REC = None


def rec_lines():
    global _REC
    if _REC is None:
        sends = sorted({l for _, es in recordings() for d, l in es if d == "Send"})
        recv = sorted({l for _, es in recordings() for d, l in es if d == "Received"})
        _REC = (sends, recv)
    return _REC


def gen_text(rng):
    r = rng.random()
    if r < 0.5:
        return rng.choice(rec_lines()[0])
    return rng.choice(
        ["@MAIN:VOL=Up", "@MAIN:ZONENAME=Zoné ß", "@ZONE2:INP=\U0001f600", "", "_EXIT", "_KEEP_ALIVE", "@SYS:MODELNAME=?", "@A:B=c=d:e", "@@", "hello", "@MAIN:VOL=" + "9" * rng.randrange(1, 60), "0", " ", "@SYS:VERSION=?", "@MAIN:PWR=On"]
    )


def gen_op(rng, idle_ok=True):
    r = rng.random()
    if r < 0.3:
        return ("put", rng.choice(["MAIN", "ZONE2", "SYS", "TUN", "é"]), rng.choice(["VOL", "INP", "PWR", "ZONENAME", "X"]), rng.choice(["-30.5", "On", "", "a=b", "Üñï", "?"]))
    if r < 0.5:
        return ("get", rng.choice(["MAIN", "ZONE3", "SYS", "NETRADIO"]), rng.choice(["VOL", "BASIC", "MODELNAME", "VERSION", "AVAIL"]))
    if r < 0.8:
        return ("raw", gen_text(rng))
    if r < 0.97 or not idle_ok:
        return ("sleep", rng.choice([0, 0.01, 0.05, 0.099, 0.1, 0.101, 0.25, 1.0]))
    return ("sleep", rng.choice([29.9, 30.0, 30.05, 31, 45, 61]))


def make_responder(rng, mode):
    recv = rec_lines()[1]

    def respond(line, idx):
        if mode == "ignore":
            return []
        if mode == "flood":
            return [rng.choice(recv) for _ in range(rng.randrange(0, 4))]
        if mode == "sleepy" and idx < 2:
            return []  # a device in standby swallows the first commands
        if mode == "lossy" and rng.random() < 0.3:
            return []
        if line == PROBE:
            return ["@SYS:MODELNAME=RX-A810"]
        t = split_sfv(line)
        if t and t[2] == "?":
            return [f"@{t[0]}:{t[1]}=val{idx}"] if rng.random() < 0.8 else ["@UNDEFINED"]
        if t:
            return [line] if rng.random() < 0.7 else (["@RESTRICTED"] if rng.random() < 0.5 else [])
        return ["@UNDEFINED"]

    return respond


def gen_scenario(rng, tier, allow_delay=True, long_idle=True, modelname_bias=False):
    n_callers = rng.randrange(1, 5)
    maxops = 10 if tier == "quick" else 40
    progs = [[gen_op(rng, long_idle) for _ in range(rng.randrange(0, maxops + 1))] for _ in range(n_callers)]
    if modelname_bias:
        for p in progs:
            for _ in range(rng.randrange(0, 3)):
                p.insert(rng.randrange(0, len(p) + 1), ("get", "SYS", "MODELNAME"))
    sc = {
        "progs": progs,
        "mode": rng.choice(["answer", "answer", "answer", "ignore", "flood", "sleepy", "lossy"]),
        "latency_us": rng.choice([0, 1000, 20000, 60000, 99000, 99999, 100000, 100001, 150000, 250000]),
        "log_size": rng.choice([0, 1, 2, 3, 5, 50, 10000]),
        "tail_idle": rng.choice([0.5, 1.0, 2.0] + ([31, 62, 95] if long_idle else [])),
        "switch_prob": rng.choice([0.05, 0.3, 0.6]),
        "delay_prob": rng.choice([0, 0, 0.01, 0.05]) if allow_delay else 0,
        "unsolicited": rng.random() < 0.3,
        "seed": rng.randrange(1 << 30),
        "read_log_midway": rng.random() < 0.3,
    }
    # a second, independent connection alive in the same process (state must not leak between objects)
    # a message callback of the application that stays busy for longer than the keep-alive interval
    sc["slow_cb"] = {"at": rng.randrange(1, 4), "sleep_s": rng.choice([31.0, 35.0, 64.0])} if (long_idle and rng.random() < 0.15) else None
    sc["decoy"] = rng.random() < 0.25
    # a second session on the same object
    sc["prior_session"] = {"close_after_s": rng.choice([0.0, 0.02, 0.06, 0.15]), "reconnect_after_s": rng.choice([0.0, 0.0, 0.01, 0.5])} if rng.random() < 0.2 else None
    # a burst far larger than anything the library itself submits ("every finite sequence of commands"): the backlog
    # grows to the length of the burst. Drawn from a generator of its own, so that the other scenarios stay as they were
    brng = random.Random(sc["seed"] ^ 0xB0057)
    if brng.random() < 0.04:
        n = brng.choice([70, 130, 300] if tier == "quick" else [70, 130, 300, 520, 1100])
        burst = []
        while len(burst) < n:
            op = gen_op(brng, False)
            if op[0] != "sleep":
                burst.append(op)
        progs[0] = burst
        sc["burst"] = n
        sc["delay_prob"] = 0
        sc["slow_cb"] = None
        sc["tail_idle"] = max(sc["tail_idle"], round(0.2 * (sum(1 for p in progs for o in p if o[0] != "sleep") + 8) + 2, 1))
    return sc


def mon_framing(s):
    """the lines the protocol handles are exactly the complete lines of the bytes read in THIS session (C02)"""
    data = b"".join(bytes(e["data"]) for e in s.sim.events if e["k"] == "Read" and e["th"] == "reader")
    want = [x.decode("utf-8", "replace") for x in data.split(b"\r\n")[:-1]]
    got = [e["text"] for e in s.sim.events if e["k"] == "Line"]
    if got != want[: len(got)] or len(got) < len(want) - 0:
        k = next((i for i, (a, b) in enumerate(zip(got, want)) if a != b), min(len(got), len(want)))
        return f"line #{k} handled by the protocol is {got[k]!r} but the bytes read in this session frame to {want[k]!r}" if k < len(got) and k < len(want) else f"{len(want)} complete lines were read in this session, {len(got)} were handled"
    return None


def mon_decoy(s, sc):
    """the two connections of one process do not influence each other (part of every connection property:
    what is submitted on one connection reaches that connection's wire, and only that)"""
    if not sc.get("decoy") or not getattr(s, "decoy_port", None):
        return None
    dw = [bytes(w[1])[:-2].decode("utf-8", "replace") for w in s.decoy_port.writes]
    own = set(s.decoy_sent) | {PROBE}
    for x in dw:
        if x not in own:
            return f"a second connection in the same process wrote {x!r}, which was never submitted on it"
    pw = [bytes(w[1])[:-2].decode("utf-8", "replace") for w in (s.port.writes if s.port else [])]
    for x in pw:
        if x.startswith("@DECOY:"):
            return f"the connection under test wrote {x!r}, which was submitted on another connection"
    want = [x for x in s.decoy_sent]
    got = [x for x in dw if x != PROBE or x in want]
    missing = [x for x in want if dw.count(x) < want.count(x)]
    if missing and not s.decoy_disconnects:
        return f"commands submitted on the second connection never reached its wire: {missing[:3]}"
    for st, sub, f, v in getattr(s, "decoy_deliveries", []):
        if sub is not None and sub != "DECOY" and not (sub == "SYS" and f == "MODELNAME"):
            return f"the second connection delivered {sub}:{f}={v!r}, a line of the connection under test"
    for t, st, sfv in s.deliveries:
        if sfv and (sfv[0] == "DECOY" or sfv[2] == "DECOY-1"):
            return f"the connection under test delivered {sfv!r}, a line the other device sent to the other connection"
    return None


def run_scenario(sc, extra_body=None):
    rng = random.Random(sc["seed"])
    s = CT.Session(sc["seed"], respond=make_responder(rng, sc["mode"]), latency_us=sc["latency_us"], log_size=sc["log_size"], switch_prob=sc["switch_prob"], delay_prob=sc["delay_prob"], max_delay_us=50000, choices=sc.get("choices"))
    s.mid_logs = []

    def body(s):
        stop_decoy = None
        if sc.get("decoy"):
            stop_decoy = s.start_decoy(random.Random(sc["seed"] + 77))
        if sc.get("prior_session"):
            # the same YncaConnection object has been through an earlier session that ended with a command just
            # written and half a line received; the session under test starts with the reconnect
            c = s.connect()
            s.sleep(0.3)
            s.dev.emit_at(s.sim.now + 1000, b"@MAIN:VOL=-30.0\r\n@MAIN:MUTE=O", cause=None)
            s.sleep(0.05)
            c.put("MAIN", "PWR", "On")
            s.sleep(sc["prior_session"]["close_after_s"])
            c.close()
            s.prior = {"last_write_us": s.port.writes[-1][0] if s.port and s.port.writes else None, "writes": len(s.port.writes) if s.port else 0}
            s.sleep(sc["prior_session"]["reconnect_after_s"])
            # threads of the earlier session that are still winding down (the old sender may sit on the write lock
            # until close() releases it) do not belong to the trace of the session under test
            for t in s.sim.threads:
                if t.name in ("sender", "reader"):
                    t.decoy = True
                    t.name += "~old"
            del s.sim.events[:]
            del s.deliveries[:]
            del s.disconnects[:]
            del s.submitted[:]
            s.t_connect = s.sim.now
            c.connect(lambda: s.disconnects.append(s.sim.now), s.log_size)
        else:
            s.t_connect = 0
            c = s.connect()
        if sc.get("slow_cb"):
            cnt = [0]

            def slow(st, sub, f, v):
                cnt[0] += 1
                if cnt[0] == sc["slow_cb"]["at"]:
                    s.sleep(sc["slow_cb"]["sleep_s"])

            c.register_message_callback(slow)
        if sc["unsolicited"]:
            recv = rec_lines()[1]
            for k in range(rng.randrange(1, 6)):
                s.dev.emit_at(rng.randrange(0, 3_000_000), (rng.choice(recv) + "\r\n").encode("utf-8"), cause=None)
        ths = s.spawn_callers(sc["progs"])
        if sc["read_log_midway"]:
            s.sleep(0.15)
            s.mid_logs.append((len(s.sim.events), c.get_communication_log_items()))
        s.join_all(ths)
        s.sleep(sc["tail_idle"])
        s.idle_done_at = s.sim.now
        s.pre_close_writes = len(s.port.writes) if s.port else 0
        s.final_log_at = len(s.sim.events)
        s.final_log = c.get_communication_log_items()
        if extra_body:
            extra_body(s)
        c.close()
        if stop_decoy:
            stop_decoy()

    s.run(body)
    return s


# ------------------------------------------------------------------------------ records derived from the trace
def enq_order(events):
    """global queue order of everything put into the send queue: (thread, text | ('KA',) | ('EXIT',))"""
    out = []
    for e in events:
        if e["k"] == "Enq":
            if e.get("marker") is None:
                out.append((e["th"], e["item"]))
            elif "KEEP_ALIVE" in e["marker"]:
                out.append((e["th"], ("KA",)))
            else:
                out.append((e["th"], ("EXIT",)))
    return out


def lines_received(events):
    return [(e["t"], e["text"]) for e in events if e["k"] == "Line"]


def nontrivial_conn(s):
    """>= 2 user commands and a caller<->sender switch while the queue was non-empty"""
    ncmd = sum(1 for th, it in enq_order(s.sim.events) if isinstance(it, str))
    inter = False
    last = None
    for e in s.sim.events:
        if e["k"] in ("Enq", "Deq") and e.get("qlen", 0) > 0:
            if last is not None and last != e["th"]:
                inter = True
            last = e["th"]
    return ncmd >= 2 and inter


# ------------------------------------------------------------------------------ monitors (from the property texts)
def mon_c08(s):
    w = s.port.writes if s.port else []
    pr = getattr(s, "prior", None)
    if pr and pr.get("last_write_us") is not None and w and w[0][0] - pr["last_write_us"] < SPACING:
        return f"the last line of the previous session on this object was written at {pr['last_write_us']} us and the first line after reconnecting at {w[0][0]} us: only {w[0][0] - pr['last_write_us']} us apart"
    for a, b in zip(w, w[1:]):
        if b[0] - a[0] < SPACING:
            return f"writes {a[1]!r} at {a[0]} us and {b[1]!r} at {b[0]} us are only {b[0] - a[0]} us apart"
    return None


def mon_c01(s, require_all=True):
    if not s.port:
        return None
    W = s.port.writes[: getattr(s, "pre_close_writes", len(s.port.writes))] if require_all else s.port.writes
    allW = s.port.writes
    E = [(th, PROBE if it == ("KA",) else it) for th, it in enq_order(s.sim.events) if it != ("EXIT",)]
    for k, (t, data, th) in enumerate(allW):
        if th != "sender":
            return f"write #{k} {data!r} was made by thread {th}"
        if k >= len(E):
            return f"write #{k} {data!r} corresponds to no submitted command or probe"
        want = E[k][1].encode("utf-8", "replace") + b"\r\n"
        if data != want:
            # classify
            texts = [x[1] for x in E]
            try:
                txt = data[:-2].decode("utf-8")
            except Exception:
                txt = None
            if not data.endswith(b"\r\n"):
                return f"write #{k} {data!r} is not terminated by CR LF"
            if txt in texts[:k]:
                return f"write #{k} {data!r}: expected {want!r} (submission #{k} by {E[k][0]}); that text was already written: duplicate or reordering"
            return f"write #{k} {data!r}: expected {want!r} (submission #{k} by {E[k][0]})"
    if require_all and not s.disconnects and not s.sim.failure:
        # every command submitted through the API while the connection was up entered the queue (per caller, in the
        # caller's order): the record of the calls made is the harness's own, the queue puts are observed
        by_th = {}
        for th, it in enq_order(s.sim.events):
            if isinstance(it, str):
                by_th.setdefault(th, []).append(it)
        sub_th = {}
        for th, text in getattr(s, "submitted", []):
            sub_th.setdefault(th, []).append(text)
        for th, texts in sub_th.items():
            got = by_th.get(th, [])
            if got != texts:
                k = next((i for i, (a, b) in enumerate(zip(got, texts)) if a != b), min(len(got), len(texts)))
                if k < len(texts):
                    return f"command #{k} submitted by {th} ({texts[k]!r}, of {len(texts)} while the connection was up) never entered the send queue: {len(got)} of them did"
        # "once the connection has stayed up and idle": nothing submitted for long enough to drain any backlog
        enqs = [e for e in s.sim.events if e["k"] == "Enq" and (e.get("marker") is None or "KEEP" in e["marker"]) and e["t"] <= getattr(s, "idle_done_at", 0)]
        if enqs:
            t_last = max(e["t"] for e in enqs)
            if getattr(s, "idle_done_at", 0) >= t_last + 2 * (len(enqs) + 2) * max(SPACING, code_spacing()) and getattr(s, "pre_close_writes", 0) < len(enqs):
                return f"after staying idle for {(s.idle_done_at - t_last) / 1e6:.1f} s, only {s.pre_close_writes} of {len(enqs)} submitted commands/probes were written"
            # the same for the caller's commands alone, when only keep-alive probes followed them: everything up to
            # the last command has long been written
            user = [i for i, e in enumerate(enqs) if e.get("marker") is None]
            if user:
                k_last = user[-1]
                t_user = enqs[k_last]["t"]
                if getattr(s, "idle_done_at", 0) >= t_user + 2 * (k_last + 3) * max(SPACING, code_spacing()) and getattr(s, "pre_close_writes", 0) <= k_last:
                    return f"{(s.idle_done_at - t_user) / 1e6:.1f} s after the last command was submitted, only {s.pre_close_writes} lines were written although that command was submission #{k_last}"
    return None


LOG_RE = re.compile(r"^(?:(\S+) )?(Send|Received): (.*)$", re.S)  # the statement fixes label and exact text, not the stamp


def mon_c20(s):
    if not s.port:
        return None
    N = s.log_size
    checks = [(getattr(s, "final_log_at", None), s.final_log)] + list(s.mid_logs)
    for upto, log in checks:
        if log is None:
            continue
        if len(log) > N:
            return f"log holds {len(log)} entries for N={N}"
        if N == 0 and log:
            return "log not empty for N=0"
        ents = []
        for item in log:
            m = LOG_RE.match(item)
            if not m:
                return f"malformed log entry {item!r}"
            ents.append((m.group(2), m.group(3), m.group(1)))
        # what the transport saw up to the moment the log was read
        evs = s.sim.events if upto is None else s.sim.events[:upto]
        sends = [bytes(e["data"])[:-2].decode("utf-8", "replace") for e in evs if e["k"] == "Write"]
        recvs = [e["text"] for e in evs if e["k"] == "Line"]
        ls = [e[1] for e in ents if e[0] == "Send"]
        lr = [e[1] for e in ents if e[0] == "Received"]
        # sends in the log: a suffix of the written texts, possibly followed by one entry not yet written
        ok = any(ls[: len(ls) - extra] == sends[len(sends) - (len(ls) - extra) :] if len(ls) - extra <= len(sends) else False for extra in (0, 1)) if ls else True
        if not ok:
            return f"Send entries {ls[-4:]!r} are not the most recent transmissions {sends[-4:]!r} in order"
        # the line that has just entered handle_line may not be logged yet
        if lr and lr != recvs[len(recvs) - len(lr) :] and lr != recvs[:-1][max(0, len(recvs) - 1 - len(lr)) :]:
            return f"Received entries {lr[-4:]!r} are not the most recent received lines {recvs[-4:]!r} in order"
        if len(ents) < min(N, len(sends) + len(recvs) - 1):
            return f"log has {len(ents)} entries although {len(sends)} lines were sent and {len(recvs)} received (N={N})"
    # causality over the whole session, from the events: a reply's Received entry after its cause's Send entry
    send_pos = {}
    pos = 0
    wi = 0
    cause_of_byte = []
    for e in s.sim.events:
        if e["k"] == "DevEmit":
            cause_of_byte += [e.get("cause")] * len(e["data"])
    consumed = 0
    logseq = []
    for e in s.sim.events:
        if e["k"] == "LogAdd":
            m = LOG_RE.match(e["text"])
            if m:
                logseq.append((m.group(2), m.group(3)))
    nsend = 0
    sends_logged_before = []
    for kind, txt in logseq:
        if kind == "Send":
            nsend += 1
        else:
            sends_logged_before.append(nsend)
    # the k-th received line consists of bytes [a, b) of the emitted stream; all their causes must be < sends logged before it
    stream = b"".join(bytes(e["data"]) for e in s.sim.events if e["k"] == "DevEmit")
    off = 0
    k = 0
    while True:
        j = stream.find(b"\r\n", off)
        if j < 0 or k >= len(sends_logged_before):
            break
        causes = [c for c in cause_of_byte[off : j + 2] if c is not None]
        if causes and max(causes) >= sends_logged_before[k]:
            return f"the reply {stream[off:j]!r} to write #{max(causes)} was logged before that write's Send entry"
        off = j + 2
        k += 1
    return None


def mon_c13(s):
    """withheld => MODELNAME reply and the sender started a probe (set the flag) after the previous
    line was received; probe written with the reader idle and its MODELNAME reply next => withheld"""
    ev = s.sim.events
    line_idx = [i for i, e in enumerate(ev) if e["k"] == "Line"]
    for n, i in enumerate(line_idx):
        end = line_idx[n + 1] if n + 1 < len(line_idx) else len(ev)
        prev = line_idx[n - 1] if n > 0 else -1
        text = ev[i]["text"]
        delivered = sum(1 for e in ev[i:end] if e["k"] == "Deliver")
        decided = any(e["k"] == "Set" and e.get("attr") == "_keep_alive_pending" and e["th"] == "reader" for e in ev[i:end]) or delivered
        t = split_sfv(text)
        is_mn = bool(t and t[0] == "SYS" and t[1] == "MODELNAME")
        if delivered > 1:
            return f"line {text!r} delivered {delivered} times"
        if delivered == 0:
            later_activity = any(e["th"] == "reader" and e["k"] in ("Read", "Line", "ReadWait") for e in ev[end:]) or any(e["th"] == "reader" and e["k"] in ("ReadWait", "Read") for e in ev[i + 1 : end])
            if not decided and not later_activity:
                continue  # processing was cut short (disconnect / end of session)
            if not is_mn:
                return f"line {text!r} was withheld although it is not a SYS:MODELNAME reply"
            # "a probe was started": the sender took a keep-alive marker off the queue (observable whatever the
            # library calls its flag), or set the flag
            probe_started = any(
                (e["k"] == "Deq" and e["th"] == "sender" and "KEEP_ALIVE" in (e.get("marker") or ""))
                or (e["k"] == "Set" and e.get("attr") == "_keep_alive_pending" and e["val"] is True and e["th"] == "sender")
                for e in ev[prev + 1 : end]
            )
            if not probe_started:
                return f"MODELNAME reply {text!r} was withheld although no probe was started since the previous line was received"
    n = len(ev)
    # converse clause
    for i, e in enumerate(ev):
        if e["k"] == "Deq" and e["th"] == "sender" and "KEEP_ALIVE" in (e.get("marker") or ""):
            # find the Write of this probe
            j = i + 1
            quiet = True
            while j < n and not (ev[j]["k"] in ("Write", "WriteErr") and ev[j]["th"] == "sender"):
                if ev[j]["th"] == "reader" and ev[j]["k"] not in ("ReadWait",):
                    quiet = False
                j += 1
            if j >= n or not quiet or ev[j]["k"] != "Write":
                continue
            # the next line the reader processes
            k = j + 1
            while k < n and ev[k]["k"] != "Line":
                if ev[k]["k"] == "Set" and ev[k].get("attr") == "_keep_alive_pending":
                    break
                k += 1
            if k < n and ev[k]["k"] == "Line":
                t = split_sfv(ev[k]["text"])
                if t and t[0] == "SYS" and t[1] == "MODELNAME":
                    # must not be delivered
                    m = k + 1
                    deliv = False
                    complete = False
                    while m < n and ev[m]["k"] != "Line":
                        if ev[m]["k"] == "Deliver":
                            deliv = True
                        if ev[m]["k"] == "Set" and ev[m].get("attr") == "_keep_alive_pending" and ev[m]["val"] is False:
                            complete = True
                        m += 1
                    if deliv:
                        return f"the reply {ev[k]['text']!r} to a probe written while the reader was idle was delivered to the callbacks"
    return None


def mon_c12(s):
    w = s.port.writes if s.port else []
    if not w:
        return None
    end = getattr(s, "idle_done_at", None)
    if len(w) >= 2:
        if not (w[0][1] == (PROBE + "\r\n").encode() and w[1][1] == (PROBE + "\r\n").encode()):
            return f"the first two transmissions after connecting are {w[0][1]!r}, {w[1][1]!r}, not two probes"
        t0 = getattr(s, "t_connect", 0)
        if w[0][0] != t0 or w[1][0] != t0 + code_spacing():
            return f"the two start-up probes were written at {w[0][0]} and {w[1][0]} us"
    else:
        return "fewer than two transmissions after connecting"
    times = [x[0] for x in w if end is None or x[0] <= end]
    for a, b in zip(times, times[1:]):
        if b - a > KEEPALIVE + code_spacing():
            return f"silent gap of {b - a} us between transmissions at {a} and {b}"
    if end is not None and times and end - times[-1] > KEEPALIVE + code_spacing():
        return f"nothing transmitted for {end - times[-1]} us before {end}"
    return None


# ------------------------------------------------------------------------------ model comparison
def compare_with_model(s, r):
    """s: session, r: parsed replay result.  Returns None or a description of the disagreement."""
    if r["refused"] is not None:
        return ("refused", r["refused"])
    W = s.port.writes if s.port else []
    mw = [(t, PROBE if k == "KA" else txt) for t, k, tid, txt in r["wire"]]
    iw = [(t, d[:-2].decode("utf-8", "replace")) for t, d, th in W]
    if mw != iw:
        return ("wire", mw[-3:], iw[-3:])
    md = r["delivered"]
    idl = [(st, sfv) for _, st, sfv in s.deliveries]
    if md != idl:
        return ("deliveries", md[-3:], idl[-3:])
    return None
