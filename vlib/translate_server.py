"""Translator, part 3: the bundled test server (ynca/server.py) and the recordings it is loaded from.

Gen/ServerTables.v : the four tables of the live module, and `gen_cfg`/`gen_json`: which of the operations
                     that can raise are guarded, read off the AST of server.py.  Fail closed: a shape that is
                     not recognised yields the value that differs from Model/Server.good_cfg.
Gen/ServerRecs.v   : every bundled recording as the raw lines fill_from_file reads, the json.loads oracle
                     instance for them (only the lines where it is not "drop the quotes"), and the table of
                     last recorded values per (subunit, function) computed by the independent reader."""
from __future__ import annotations

import ast
import inspect
import json
import os
import textwrap

from .translate import HEADER, REPO, cident, clist, comment, ct, read_recording, split_sfv


def cb(b):
    return "true" if b else "false"


# ------------------------------------------------------------------------------ AST reading
def _fn(tree, cls, name):
    for n in ast.walk(tree):
        if isinstance(n, ast.ClassDef) and n.name == cls:
            for m in n.body:
                if isinstance(m, ast.FunctionDef) and m.name == name:
                    return m
    return None


def _is_name(n, name):
    return isinstance(n, ast.Name) and n.id == name


def _is_const(n, v):
    return isinstance(n, ast.Constant) and n.value == v


def _markers(n):
    """a tuple/list of exactly the two error-marker names"""
    return isinstance(n, (ast.Tuple, ast.List)) and sorted(getattr(e, "id", None) or "?" for e in n.elts) == ["RESTRICTED", "UNDEFINED"]


def _get_guard(fn, target, key_ok):
    """`target = <x>.get(<key>, {})` -> True; a subscript or anything else -> False"""
    for n in ast.walk(fn):
        if isinstance(n, ast.Assign) and len(n.targets) == 1 and _is_name(n.targets[0], target):
            v = n.value
            if isinstance(v, ast.Call) and isinstance(v.func, ast.Attribute) and v.func.attr == "get" and len(v.args) == 2 and key_ok(v.args[0]) and isinstance(v.args[1], ast.Dict) and not v.args[1].keys:
                return True
            # the same written as `<x>.get(<key>) or {}`
            if isinstance(v, ast.BoolOp) and isinstance(v.op, ast.Or) and len(v.values) == 2 and isinstance(v.values[1], ast.Dict) and not v.values[1].keys:
                c = v.values[0]
                if isinstance(c, ast.Call) and isinstance(c.func, ast.Attribute) and c.func.attr == "get" and len(c.args) == 1 and key_ok(c.args[0]):
                    return True
            return False
    return False


class _Unrecognised(Exception):
    pass


def _eval_cond(n, env):
    """boolean structure over function == "VOL"/"ZONEBVOL" and value.startswith("Up"/"Down")"""
    if isinstance(n, ast.BoolOp):
        vals = [_eval_cond(x, env) for x in n.values]
        return all(vals) if isinstance(n.op, ast.And) else any(vals)
    if isinstance(n, ast.UnaryOp) and isinstance(n.op, ast.Not):
        return not _eval_cond(n.operand, env)
    if isinstance(n, ast.Compare) and len(n.ops) == 1 and isinstance(n.ops[0], ast.Eq) and _is_name(n.left, "function") and isinstance(n.comparators[0], ast.Constant):
        k = n.comparators[0].value
        if k == "VOL":
            return env[0]
        if k == "ZONEBVOL":
            return env[1]
        raise _Unrecognised(f"comparison with {k!r}")
    if isinstance(n, ast.Compare) and len(n.ops) == 1 and isinstance(n.ops[0], ast.In) and _is_name(n.left, "function") and isinstance(n.comparators[0], (ast.Tuple, ast.List, ast.Set)):
        ks = [getattr(e, "value", None) for e in n.comparators[0].elts]
        if all(k in ("VOL", "ZONEBVOL") for k in ks):
            return any(env[0] if k == "VOL" else env[1] for k in ks)
        raise _Unrecognised("membership")
    if isinstance(n, ast.Call) and isinstance(n.func, ast.Attribute) and n.func.attr == "startswith" and _is_name(n.func.value, "value") and len(n.args) == 1 and isinstance(n.args[0], ast.Constant):
        k = n.args[0].value
        if k == "Up":
            return env[2]
        if k == "Down":
            return env[3]
        if isinstance(k, tuple) and set(k) == {"Up", "Down"}:
            return env[2] or env[3]
        raise _Unrecognised(f"startswith {k!r}")
    raise _Unrecognised(ast.dump(n)[:80])


def _contains_call(n, names):
    return any(isinstance(x, ast.Call) and isinstance(x.func, ast.Name) and x.func.id in names for x in ast.walk(n))


def _handler_catches(h):
    """the exception names a handler catches, provided it sends an error line and returns; else []"""
    t = h.type
    names = []
    if t is None:
        return []
    if isinstance(t, ast.Name):
        names = [t.id]
    elif isinstance(t, ast.Tuple):
        names = [getattr(e, "id", "?") for e in t.elts]
    sends = any(isinstance(x, ast.Call) and isinstance(x.func, ast.Attribute) and x.func.attr == "_send_ynca_error" and len(x.args) == 1 and _is_name(x.args[0], "UNDEFINED") for b in h.body for x in ast.walk(b))
    returns = bool(h.body) and isinstance(h.body[-1], ast.Return)
    return names if (sends and returns) else []


def read_cfg():
    path = os.path.join(REPO, "ynca", "server.py")
    tree = ast.parse(open(path, encoding="utf-8").read())
    notes = []
    cfg = dict(g_inp_get=False, g_scene_get=False, g_rel=[], g_vol_try=False, g_pb_guard=False, g_err_exact=False, g_rel_exact=False, g_lenient=False, g_inp_none=False, g_scene_sent=False, g_vol_ovf=False)
    hg = _fn(tree, "YncaCommandHandler", "_handle_get")
    if hg is not None:
        cfg["g_inp_get"] = _get_guard(hg, "sys_values", lambda k: _is_const(k, "SYS"))
        cfg["g_scene_get"] = _get_guard(hg, "subunit_values", lambda k: _is_name(k, "subunit"))
        # the two self-enumerating queries: `response_sent` set only when a line was really sent, error line otherwise
        def sent_based(branch_body):
            loop = next((st for st in branch_body if isinstance(st, ast.For)), None)
            if loop is None:
                return False
            i = branch_body.index(loop)
            nxt = branch_body[i + 1] if i + 1 < len(branch_body) else None
            fallback = (
                isinstance(nxt, ast.If)
                and isinstance(nxt.test, ast.UnaryOp)
                and isinstance(nxt.test.op, ast.Not)
                and _is_name(nxt.test.operand, "response_sent")
                and len(nxt.body) == 1
                and isinstance(nxt.body[0], ast.Expr)
                and isinstance(nxt.body[0].value, ast.Call)
                and getattr(nxt.body[0].value.func, "attr", None) == "_send_ynca_error"
                and len(nxt.body[0].value.args) == 1
                and _is_name(nxt.body[0].value.args[0], "UNDEFINED")
            )
            if not fallback:
                return False
            # every `response_sent = True` in the loop sits under `if self._send_stored_value_no_error(...) is not None:`
            ok, found = True, 0

            def visit(stmts, guarded):
                nonlocal ok, found
                for st in stmts:
                    if isinstance(st, ast.Assign) and len(st.targets) == 1 and _is_name(st.targets[0], "response_sent"):
                        found += 1
                        ok = ok and guarded and _is_const(st.value, True)
                    elif isinstance(st, ast.If):
                        t = st.test
                        g = (
                            isinstance(t, ast.Compare)
                            and len(t.ops) == 1
                            and isinstance(t.ops[0], ast.IsNot)
                            and _is_const(t.comparators[0], None)
                            and isinstance(t.left, ast.Call)
                            and getattr(t.left.func, "attr", None) == "_send_stored_value_no_error"
                        )
                        # an enclosing key filter keeps the guard state; the send test establishes it
                        visit(st.body, guarded or g)
                        visit(st.orelse, guarded)
                    elif isinstance(st, ast.Expr) and isinstance(st.value, ast.Call) and getattr(st.value.func, "attr", None) == "_send_stored_value_no_error":
                        ok = False  # a send whose result is ignored
                    elif isinstance(st, (ast.For, ast.While, ast.With, ast.Try)):
                        ok = False

            visit(loop.body, False)
            return ok and found == 1

        top = hg.body
        first = next((st for st in top if isinstance(st, ast.If)), None)
        if first is not None:
            cfg["g_inp_none"] = sent_based(first.body)
            nxt = first.orelse[0] if len(first.orelse) == 1 and isinstance(first.orelse[0], ast.If) else None
            if nxt is not None:
                cfg["g_scene_sent"] = sent_based(nxt.body)
    else:
        notes.append("_handle_get not found")
    hp = _fn(tree, "YncaCommandHandler", "handle_put")
    if hp is not None:
        # the relative branch: the `if` whose body converts with float()
        rel_if = next((n for n in ast.walk(hp) if isinstance(n, ast.If) and any(_contains_call(b, {"float"}) for b in n.body)), None)
        if rel_if is None:
            notes.append("relative branch not found")
        else:
            try:
                cfg["g_rel"] = [bool(_eval_cond(rel_if.test, (bool(i & 8), bool(i & 4), bool(i & 2), bool(i & 1)))) for i in range(16)]
            except _Unrecognised as e:
                notes.append(f"relative condition not recognised: {e}")
            # every int()/float() conversion (ValueError) and the float + int addition (OverflowError) sit in a try
            # whose handlers answer an error line and return
            def covered(exc_names):
                ok = True
                found = 0

                def caught(st):
                    names = set()
                    for h in st.handlers:
                        names |= set(_handler_catches(h))
                    return bool(names & exc_names)

                def visit(stmts, guarded):
                    nonlocal ok, found
                    for st in stmts:
                        if isinstance(st, ast.Try):
                            visit(st.body, guarded or caught(st))
                            for h in st.handlers:
                                visit(h.body, guarded)
                            visit(st.orelse, guarded)
                            visit(st.finalbody, guarded)
                        elif isinstance(st, (ast.If, ast.For, ast.While, ast.With)):
                            hdr = st.test if isinstance(st, (ast.If, ast.While)) else None
                            if hdr is not None and _contains_call(hdr, {"int", "float"}):
                                found += 1
                                ok = ok and guarded
                            visit(st.body, guarded)
                            visit(getattr(st, "orelse", []), guarded)
                        else:
                            if _contains_call(st, {"int", "float", "str"}):
                                found += 1
                                ok = ok and guarded

                visit(rel_if.body, False)
                return ok and found >= 2

            cfg["g_vol_try"] = covered({"ValueError", "Exception"})
            cfg["g_vol_ovf"] = covered({"OverflowError", "ArithmeticError", "Exception"})
        # PLAYBACK: list comprehension over the input mapping
        lcs = [n for n in ast.walk(hp) if isinstance(n, ast.ListComp) and any(_is_name(g.iter, "INPUT_SUBUNITLIST_MAPPING") for g in n.generators)]
        if len(lcs) == 1:
            lc = lcs[0]
            parent_sub = any(isinstance(n, ast.Subscript) and n.value is lc for n in ast.walk(hp))
            if not parent_sub:
                for blk in ast.walk(hp):
                    body = getattr(blk, "body", None)
                    if not isinstance(body, list):
                        continue
                    for i, st in enumerate(body):
                        if isinstance(st, ast.Assign) and st.value is lc and len(st.targets) == 1 and isinstance(st.targets[0], ast.Name):
                            x = st.targets[0].id
                            nxt = body[i + 1] if i + 1 < len(body) else None
                            if isinstance(nxt, ast.If) and isinstance(nxt.test, ast.UnaryOp) and isinstance(nxt.test.op, ast.Not) and _is_name(nxt.test.operand, x) and nxt.body and isinstance(nxt.body[-1], ast.Return) and nxt.body[-1].value is None:
                                cfg["g_pb_guard"] = True
        else:
            notes.append("input mapping comprehension not found")
        # related functions: which stored values are skipped
        for n in ast.walk(hp):
            if isinstance(n, ast.For) and _is_name(n.iter, "response_functions"):
                for st in n.body:
                    if isinstance(st, ast.If) and isinstance(st.test, ast.Compare) and len(st.test.ops) == 1 and _is_name(st.test.left, "value"):
                        if isinstance(st.test.ops[0], ast.NotIn) and _markers(st.test.comparators[0]):
                            cfg["g_rel_exact"] = True
    else:
        notes.append("handle_put not found")
    ss = _fn(tree, "YncaCommandHandler", "_send_stored_value_or_error")
    if ss is not None:
        for st in ss.body:
            if isinstance(st, ast.If):
                t = st.test
                if isinstance(t, ast.Compare) and len(t.ops) == 1 and isinstance(t.ops[0], ast.In) and _is_name(t.left, "value") and _markers(t.comparators[0]):
                    cfg["g_err_exact"] = True
                break
    # every bytes.decode in the handler class (wherever the session loop keeps it) is lenient
    hcls = next((n for n in ast.walk(tree) if isinstance(n, ast.ClassDef) and n.name == "YncaCommandHandler"), None)
    if hcls is not None:
        decs = []
        for n in ast.walk(hcls):
            if isinstance(n, ast.Call) and isinstance(n.func, ast.Attribute) and n.func.attr == "decode":
                args = [getattr(a, "value", None) for a in n.args]
                kw = {k.arg: getattr(k.value, "value", None) for k in n.keywords}
                errors = args[1] if len(args) > 1 else kw.get("errors")
                decs.append((args[:1] == ["utf-8"] or kw.get("encoding") == "utf-8") and errors == "replace")
        cfg["g_lenient"] = bool(decs) and all(decs)
    # fill_from_file: JSON string lines decoded?
    ff = _fn(tree, "YncaDataStore", "fill_from_file")
    g_json = False
    if ff is not None:
        src = ast.get_source_segment(open(path, encoding="utf-8").read(), ff) or ""
        uses = any(isinstance(n, ast.Call) and isinstance(n.func, ast.Attribute) and n.func.attr == "loads" and _is_name(n.func.value, "json") for n in ast.walk(ff))
        if uses:
            # the one recognised shape (see DESIGN.md): strip, rstrip(","), quoted test, try json.loads except ValueError
            want = textwrap.dedent(
                '''
                line = line.strip()
                stripped = line.rstrip(",")
                if len(stripped) >= 2 and stripped.startswith('"') and stripped.endswith('"'):
                    try:
                        line = json.loads(stripped)
                    except ValueError:
                        line = stripped.rstrip('",')
                else:
                    line = line.rstrip('",')
                '''
            ).strip()
            norm = lambda t: ast.dump(ast.parse(textwrap.dedent(t)))  # noqa
            loop = next((n for n in ast.walk(ff) if isinstance(n, ast.For)), None)
            if loop is not None:
                stmts = []
                for st in loop.body:
                    if isinstance(st, ast.If) and _contains_name(st.test, "command"):
                        break
                    stmts.append(st)
                got = ast.dump(ast.Module(body=stmts, type_ignores=[]))
                if got == norm(want):
                    g_json = True
                else:
                    notes.append("fill_from_file uses json.loads in an unrecognised shape")
                    g_json = None
    return cfg, g_json, notes


def _contains_name(n, name):
    return any(isinstance(x, ast.Name) and x.id == name for x in ast.walk(n))


# ------------------------------------------------------------------------------ generation
def gen_tables():
    import ynca.server as S

    cfg, g_json, notes = read_cfg()
    out = [HEADER, "From Ynca Require Import Model.Server.\n"]
    out.append("Definition srv_multi : list (text * list text) :=\n  " + clist([f"({ct(k)}, {clist([ct(x) for x in v])})" for k, v in S.multiresponse_functions_table.items()]) + ".\n")
    out.append("Definition srv_related : list (text * list text) :=\n  " + clist([f"({ct(k)}, {clist([ct(x) for x in v])})" for k, v in S.related_functions_table.items()]) + ".\n")
    out.append("Definition srv_inp_map : list (text * list text) :=\n  " + clist([f"({ct(m[0].value)}, {clist([ct(x) for x in m[1]])})" for m in S.INPUT_SUBUNITLIST_MAPPING]) + ".\n")
    out.append("Definition srv_zones : list text := " + clist([ct(z) for z in S.ZONES]) + ".\n")
    for n in notes:
        out.append(comment("translator: " + n))
    out.append(
        "Definition gen_cfg : cfg :=\n  {| g_inp_get := %s; g_scene_get := %s;\n     g_rel := %s;\n     g_vol_try := %s; g_pb_guard := %s; g_err_exact := %s; g_rel_exact := %s; g_lenient := %s;\n     g_inp_none := %s; g_scene_sent := %s; g_vol_ovf := %s |}.\n"
        % (cb(cfg["g_inp_get"]), cb(cfg["g_scene_get"]), clist([cb(x) for x in cfg["g_rel"]]), cb(cfg["g_vol_try"]), cb(cfg["g_pb_guard"]), cb(cfg["g_err_exact"]), cb(cfg["g_rel_exact"]), cb(cfg["g_lenient"]), cb(cfg["g_inp_none"]), cb(cfg["g_scene_sent"]), cb(cfg["g_vol_ovf"]))
    )
    # g_json: true / false / unrecognised (then the obligation gen_json_recognised fails)
    out.append(f"Definition gen_json : bool := {cb(bool(g_json))}.\n")
    out.append(f"Definition gen_json_recognised : bool := {cb(g_json is not None)}.\n")
    # the constants of the module the model hard-codes
    consts = {"RESTRICTED": S.RESTRICTED, "UNDEFINED": S.UNDEFINED}
    out.append("Definition gen_markers : text * text := (" + ct(consts["UNDEFINED"]) + ", " + ct(consts["RESTRICTED"]) + ").\n")
    return "\n".join(out), cfg, g_json


def raw_lines(path):
    """the lines as fill_from_file's `for line in file` yields them (text mode, platform default = UTF-8 here)"""
    with open(path, encoding="utf-8") as f:
        return list(f)


def _plain(s):
    return all(32 <= ord(c) < 127 for c in s)


def cstr_line(line):
    """a line as explicit code points (numeric lists parse several times faster than string literals)"""
    return ct(line)


def json_exceptions(lines):
    """the quoted lines for which json.loads is not `drop the two quotes` (escapes, control characters)"""
    exc = []
    for line in lines:
        l1 = line.strip().rstrip(",")
        if len(l1) >= 2 and l1.startswith('"') and l1.endswith('"'):
            try:
                v = json.loads(l1)
                if not isinstance(v, str):
                    v = None
            except ValueError:
                v = None
            if v != l1[1:-1]:
                exc.append((l1, v))
    return exc


def last_values(entries):
    """independent reader: last value per (subunit, function) over the recorded lines of either direction"""
    tab = {}
    for direction, line in entries:
        t = split_sfv(line)
        if t and t[2] != "?":
            tab[(t[0], t[1])] = t[2]
    return tab


def gen_recs(g_json):
    d = os.path.join(REPO, "logs")
    out = [HEADER, "From Ynca Require Import Model.Server.\n"]
    names = []
    exc_all = {}
    for fn in sorted(os.listdir(d)):
        if not fn.endswith(".txt"):
            continue
        name = fn[:-4]
        lines = raw_lines(os.path.join(d, fn))
        for k, v in json_exceptions(lines):
            exc_all[k] = v
        entries = read_recording(os.path.join(d, fn))
        tab = last_values(entries)
        if not g_json:
            # without JSON decoding the server sees the escaped text: the independent table is then not what the receiver said
            pass
        ident = "srec_" + cident(name)
        out.append(f"Definition {ident} : list text :=\n  [" + ";\n   ".join(cstr_line(l) for l in lines) + "]%list.\n")
        items = [f"({ct(s)}, {ct(f)}, {ct(v)})" for (s, f), v in tab.items() if not v.startswith("@")]
        out.append(f"Definition slast_{cident(name)} : list (text * text * text) :=\n  [" + ";\n   ".join(items) + "].\n")
        names.append((name, ident, "slast_" + cident(name)))
    out.append("Definition srv_recordings : list (text * list text * list (text * text * text)) :=\n  " + clist([f"({ct(n)}, {i}, {t})" for n, i, t in names]) + ".\n")
    items = [f"({ct(k)}, {('Some ' + ct(v)) if v is not None else 'None'})" for k, v in sorted(exc_all.items())]
    out.append("(* json.loads on the quoted lines of the recordings: every line was evaluated by the translator; listed are those\n   for which the result is not the text between the quotes *)")
    out.append("Definition json_exceptions : list (text * option text) :=\n  [" + ";\n   ".join(items) + "].\n")
    out.append(
        "Definition rec_json (l : text) : option text :=\n"
        "  match assoc l json_exceptions with\n  | Some r => r\n  | None => Some (removelast (tl l))\n  end.\n"
    )
    return "\n".join(out)


def generate():
    tables, cfg, g_json = gen_tables()
    return {"ServerTables.v": tables, "ServerRecs.v": gen_recs(g_json)}
