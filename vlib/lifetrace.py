"""Projection of dsim traces onto the alphabet of coq/Model/Life.v and replay in the model."""
from __future__ import annotations

from . import coqio
from .common import run_cases_sharded
from .conntrace import tid_of


def project_life(events):
    acts, notes = [], []
    last_t = 0
    connected_once = False
    exited = False
    sender_done = False
    for e in events:
        k, th = e["k"], e["th"]
        out = []
        if th == "reader":
            if k == "Set" and e["attr"] == "connected":
                if e["val"] is True:
                    connected_once = True
                elif connected_once:
                    out = (["LLoopExit"] if not exited else []) + ["LSetConnFalse"]
                    exited = True
            elif not connected_once:
                continue
            elif k == "Deq" and e.get("nowait"):
                out = ["LDrainDeq"]
            elif k == "DeqEmpty" and e.get("nowait"):
                out = ["LDrainEmpty"]
            elif k == "Enq" and e.get("marker") and "EXIT" in e["marker"]:
                out = ["LEnqExit"]
            elif k == "JoinStart" and e["target"] == "sender":
                out = [f"LJoinStartA ({e['deadline']})"]
            elif k == "JoinEnd" and e["target"] == "sender":
                out = ["LJoinEnd"]
            elif k == "Get" and e["attr"] == "_disconnect_callback":
                nget = sum(1 for a in acts if a.startswith(("LGetCbA", "LGetCb2A")))
                out = [f"{'LGetCbA' if nget == 0 else 'LGetCb2A'} {'true' if e['val'] is not None else 'false'}"]
            elif k == "DisconnectCb":
                out = ["LCallCb"]
            elif k == "ThreadExit":
                out = ["LFinish"]
            elif k == "Deliver":
                out = ["LDeliver"]
            elif k == "SetClosed":
                out = ["QStart"]
            elif k == "Set" and e["attr"] == "_disconnect_callback" and e["val"] is None:
                out = ["QClrA"]
            elif k == "SetClear" and e.get("set") == "message":
                out = ["QClearCbsA"]
            elif k == "LockAcq":
                out = ["QLockA"]
            elif k == "SetAlive" and e["val"] is False:
                # ReaderThread.run sets alive False itself when the loop ends; only inside close() it is a step of close
                out = ["QStopA"] if _in_self_close(acts) else []
            elif k == "PortClose":
                out = ["QPortCloseA"]
            elif k == "LockRel":
                out = ["QUnlockA"]
            elif k == "JoinSelf":
                notes.append(("join-self", e["t"]))
        elif th == "sender":
            if k == "Write":
                out = ["LSenderWrite true"]
            elif k == "WriteErr":
                out = ["LSenderWrite false"]
            elif k == "ThreadExit":
                out = ["LSenderExit"]
                sender_done = True
            elif k == "LockAcq":
                out = ["SLockA"]
            elif k == "LockRel":
                out = ["SUnlockA"]
        elif th == "device":
            continue
        else:
            tid = tid_of(th)
            if k == "SetClosed":
                out = [f"KStart {tid}%nat"]
            elif k == "Set" and e.get("attr") == "_disconnect_callback" and e["val"] is None:
                out = [f"KClrA {tid}%nat"]
            elif k == "LockAcq":
                out = [f"KLockA {tid}%nat"]
            elif k == "SetAlive" and e["val"] is False:
                out = [f"KStopA {tid}%nat"]
            elif k == "JoinStart" and e["target"] == "reader":
                out = [f"KJoinStartA {tid}%nat ({e['deadline']})"]
            elif k == "JoinEnd" and e["target"] == "reader":
                out = [f"KJoinEndA {tid}%nat"]
            elif k == "PortClose":
                out = [f"KPortCloseA {tid}%nat"]
            elif k == "LockRel":
                out = [f"KUnlockA {tid}%nat", f"KReturn {tid}%nat"]
        if not out:
            continue
        if e["t"] > last_t:
            acts.append(f"LTick ({e['t'] - last_t})")
            last_t = e["t"]
        acts += out
    return acts, notes


def _in_self_close(acts):
    for a in reversed(acts):
        if a == "QLockA":
            return True
        if a in ("QUnlockA", "QStart"):
            return a == "QStart"
    return False


def replay_life(name, cases, join_sender_us, join_reader_us, shard=20):
    """cases: list of (cb_present, [actions]) -> parsed dicts"""

    def mk(part):
        lines = [coqio.CASES_HEADER, "From Ynca Require Import Model.Life.\nOpen Scope Z_scope.\n"]
        for i, (cb, acts) in enumerate(part):
            lines.append(f"Definition tr{i} : list laction :=\n [" + ";\n  ".join(acts) + "].\n")
        lines.append(
            "Definition b2n (b : bool) : N := if b then 1%N else 0%N.\n"
            "Definition go (cb : bool) (tr : list laction) : list N :=\n"
            f"  let '(s, d) := lrun_diag ({join_sender_us}) ({join_reader_us}) (linit cb) tr O in\n"
            "  ((match d with None => [0%N] | Some n => [1%N; N.of_nat n] end) ++\n"
            "   [N.of_nat (g_disc_calls s); b2n (l_connected s); b2n (l_open s); b2n (l_alive s); b2n (l_sender_done s);\n"
            "    (match l_rpc s with LDone => 1%N | _ => 0%N end); b2n (g_closed_returned s); N.of_nat (g_user_calls s)] ++ [END; END2])%list.\n"
        )
        lines.append("Eval vm_compute in (" + " ++ ".join(f"go {'true' if cb else 'false'} tr{i}" for i, (cb, _) in enumerate(part)) + ")%list.\n")
        return "\n".join(lines)

    ok, outs, err = run_cases_sharded(name, mk, cases, shard=shard)
    if not ok:
        return False, [], err
    res = []
    for o in outs:
        for items in coqio.parse_flat2(o):
            t = items[0]
            if t[0] == 0:
                refused, rest = None, t[1:]
            else:
                refused, rest = t[1], t[2:]
            res.append({"refused": refused, "disc_calls": rest[0], "connected": bool(rest[1]), "open": bool(rest[2]), "alive": bool(rest[3]), "sender_done": bool(rest[4]), "reader_done": bool(rest[5]), "closed_returned": bool(rest[6]), "user_calls": rest[7]})
    return True, res, None
