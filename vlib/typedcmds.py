"""Every command the library's typed API emits: all attribute writes and action methods of all subunit
classes, driven through real instances on a capturing connection."""
from __future__ import annotations

import inspect
import random


def typed_api_commands(seed=0):
    """-> sorted list of distinct wire lines '@S:F=V' (PUTs) plus the GETs of every function and group"""
    from ynca.function import Cmd, FunctionMixinBase
    from ynca.subunit import SubunitBase

    from .props.c05 import Plain, values_for
    from .props.c11 import stepped_functions
    from .subharness import class_info, make_connection

    rng = random.Random(seed)
    infos, enums = class_info()
    stepinfo = {f.name: (dec, step, special) for c, attr, f, dec, step, special in stepped_functions()}
    out = set()
    for cls, cid, funcs in infos:
        conn = make_connection()
        inst = cls(conn)
        sent = conn._protocol.sent

        def flush():
            for it in sent:
                if it[0] == "put":
                    out.add(f"@{it[1]}:{it[2]}={it[3]}")
                elif it[0] == "get":
                    out.add(f"@{it[1]}:{it[2]}=?")
                elif it[0] == "raw":
                    out.add(it[1])
            del sent[:]

        for attr, f in funcs:
            if Cmd.GET in f.cmd:
                out.add(f"@{cid}:{f.name}=?")
                if f.initializer:
                    out.add(f"@{cid}:{f.initializer}=?")
            if Cmd.PUT not in f.cmd:
                continue
            for v, exp in values_for(f, rng, enums, stepinfo):
                try:
                    setattr(inst, attr, v)
                except Exception:  # noqa
                    pass
                flush()
        base = set(dir(SubunitBase))
        for m in sorted(dir(cls)):
            if m.startswith("_") or m in base:
                continue
            raw = inspect.getattr_static(cls, m)
            if isinstance(raw, (FunctionMixinBase, property)) or not callable(getattr(cls, m)):
                continue
            params = list(inspect.signature(getattr(cls, m)).parameters.values())[1:]
            args = []
            if not params:
                args = [()]
            else:
                if params[0].default is not inspect.Parameter.empty:
                    args.append(())
                if "vol" in m:
                    cand = [0.5, 1, 2, 5, 1.0, 2.0, 5.0, 3, 10, 0, 2.5]
                elif m == "playback":
                    from ynca.enums import Playback

                    cand = list(Playback.__members__.values())
                elif m == "mem":
                    cand = [None, 1, 40, 7]
                elif m == "scene":
                    cand = [1, 12, "3", 0]
                elif m == "remotecode":
                    cand = ["7F0158A7", "12345678", "abcdefgh"]
                else:
                    cand = [1, "x"]
                args += [(a,) for a in cand]
            for a in args:
                try:
                    getattr(inst, m)(*a)
                except Exception:  # noqa
                    pass
                flush()
    return sorted(out)
