"""Harness for the bundled test server (ynca/server.py): runs the real YncaDataStore / YncaCommandHandler on
in-memory files and the Coq model (Model/Server.v) on the same inputs."""
from __future__ import annotations

import contextlib
import io
import json
import os
import re
import tempfile
from fractions import Fraction

from . import coqio
from .common import cbytes, ct

ERRS = ("@UNDEFINED", "@RESTRICTED")
WF = re.compile(r"@(.+?):(.+?)=(.*)", re.S)


def wf_line(t):
    return t in ERRS or WF.match(t) is not None


# ------------------------------------------------------------------------------ the real code
def real_fill(text):
    """YncaDataStore.fill_from_file on a file with this content -> (store, the lines as Python's file iteration yields them)"""
    import ynca.server as S

    fd, path = tempfile.mkstemp(prefix="ynca_srv_", suffix=".txt")
    try:
        with os.fdopen(fd, "w", encoding="utf-8", newline="") as f:
            f.write(text)
        st = S.YncaDataStore()
        with contextlib.redirect_stdout(io.StringIO()):
            st.fill_from_file(path)
        with open(path, encoding="utf-8") as f:
            lines = list(f)
    finally:
        os.unlink(path)
    return st, lines


def real_fill_path(path):
    import ynca.server as S

    st = S.YncaDataStore()
    with contextlib.redirect_stdout(io.StringIO()):
        st.fill_from_file(path)
    return st


def store_dict(st):
    return {s: dict(fs) for s, fs in st._store.items()}


class _TFloat(float):
    """float that remembers the exact operands of the one addition the handler performs"""

    key = None

    def __add__(self, other):
        r = _TFloat(float.__add__(self, other))  # float + int: OverflowError for a huge int, as in the code
        if self == self and self not in (float("inf"), float("-inf")):
            r.key = Fraction(float(self)) + Fraction(other)
        return r


class Oracles:
    """records float()/int()/str() as the handler uses them"""

    def __init__(self):
        self.floats = {}  # text -> Fraction | None
        self.ints = {}  # text -> int | None
        self.strs = {}  # Fraction (exact sum) -> text
        self.inconsistent = []

    def float_(self, x):
        try:
            r = float(x)
        except ValueError:
            self.floats[x] = None
            raise
        if r != r:
            self.floats[x] = "NaN"
        elif r == float("inf"):
            self.floats[x] = "PInf"
        elif r == float("-inf"):
            self.floats[x] = "NInf"
        else:
            self.floats[x] = Fraction(r)
        return _TFloat(r)

    def int_(self, x, *a):
        try:
            r = int(x, *a)
        except ValueError:
            self.ints[x] = None
            raise
        if isinstance(x, str):
            self.ints[x] = r
        return r

    def str_(self, x=""):
        r = str(x)
        if isinstance(x, _TFloat) and x.key is not None:
            if self.strs.get(x.key, r) != r:
                self.inconsistent.append((x.key, self.strs[x.key], r))
            self.strs[x.key] = r
        return r


class _Reader:
    """rfile: hands out the byte lines one by one and remembers where the output stood"""

    def __init__(self, lines, out):
        self.lines = list(lines)
        self.i = 0
        self.marks = []
        self.out = out

    def readline(self, *a):
        self.marks.append(len(self.out))
        if self.i >= len(self.lines):
            return b""
        b = self.lines[self.i]
        self.i += 1
        return b

    def close(self):
        pass

    closed = False

    def flush(self):
        pass


class _FakeSocket:
    """what socketserver.StreamRequestHandler needs from the client socket"""

    def __init__(self, lines):
        self.out = bytearray()
        self.reader = _Reader(lines, self.out)

    def settimeout(self, t):
        pass

    def setsockopt(self, *a):
        pass

    def makefile(self, mode="rb", bufsize=-1):
        if "r" in mode:
            return self.reader
        sock = self

        class W:
            closed = False

            def write(self_, data):
                sock.out += bytes(data)
                return len(data)

            def flush(self_):
                pass

            def close(self_):
                pass

            def tell(self_):
                return len(sock.out)

        return W()

    def sendall(self, data):
        self.out += bytes(data)

    def send(self, data):
        self.out += bytes(data)
        return len(data)


class _FakeServer:
    def __init__(self, store):
        self.store = store
        self.disconnect_after_receiving_num_commands = None
        self.disconnect_after_sending_num_commands = None


def real_session(store, byte_lines):
    """run a real YncaCommandHandler (constructed the way socketserver does: __init__ runs setup, handle, finish)
    on the lines (each a bytes object WITHOUT the newline).
    -> dict(outs=[[reply lines] per input line], exc=None|(type name, text, index of the line), oracles)"""
    import ynca.server as S

    sock = _FakeSocket([b + b"\n" for b in byte_lines])
    orc = Oracles()
    saved = {k: S.__dict__.get(k, None) for k in ("float", "int", "str")}
    S.float, S.int, S.str = orc.float_, orc.int_, orc.str_
    exc = None
    try:
        with contextlib.redirect_stdout(io.StringIO()):
            try:
                S.YncaCommandHandler(sock, ("sim", 0), _FakeServer(store))
            except BaseException as e:  # noqa
                exc = (type(e).__name__, str(e)[:200], sock.reader.i - 1)
    finally:
        for k, v in saved.items():
            if v is None:
                S.__dict__.pop(k, None)
            else:
                S.__dict__[k] = v
    data = bytes(sock.out)
    marks = sock.reader.marks + [len(data)]
    # marks[k] is the output position when line k was read: the replies to line k lie between marks[k] and marks[k+1]
    outs = []
    for k in range(len(byte_lines)):
        seg = data[marks[k] : marks[k + 1]] if k + 1 < len(marks) else b""
        outs.append([x.decode("utf-8", "replace") for x in seg.split(b"\r\n")[:-1]])
    return {"outs": outs, "exc": exc, "oracles": orc, "raw": data}


# ------------------------------------------------------------------------------ the model
SRV_HEADER = (
    coqio.CASES_HEADER
    + "From Ynca Require Import Base.Utf8 Model.Line Model.ServerNames Model.Server Gen.ServerTables.\n"
    + """
Definition enc_lines (ls : list text) : list N := flat_map (fun t => t ++ [END]) ls.
(* outputs of a run, line by line; stops at the line that raises: [.. replies END]* then 0 (finished) or 1 (raised) *)
Fixpoint runx (pf : text -> option fl) (pi : text -> option Z) (ps : Z * positive -> text)
              (st : store) (lines : list (list N)) : list N * store :=
  match lines with
  | [] => ([0; END2], st)
  | l :: r =>
      match srv_bytes gen_cfg srv_multi srv_related srv_inp_map srv_zones pf pi ps st l with
      | Raise => ([1; END2], st)
      | Ok (st', out) => let '(o, s) := runx pf pi ps st' r in ((enc_lines out ++ [SEP; END]) ++ o, s)%list
      end
  end.
Definition store_changes (st0 st1 : store) : list N :=
  flat_map (fun '(s, fs) => flat_map (fun '(f, v) => if teqb (get_data st0 s f) v then [] else (s ++ [SEP] ++ f ++ [SEP] ++ v ++ [END])%list) fs) st1.
Definition tab_float (t : list (text * option fl)) (x : text) : option fl :=
  match assoc x t with Some r => r | None => None end.
Definition tab_int (t : list (text * option Z)) (x : text) : option Z :=
  match assoc x t with Some r => r | None => None end.
Definition tab_str (t : list (Z * positive * text)) (q : Z * positive) : text :=
  match find (fun e => (fst q * Zpos (snd (fst e)) =? fst (fst e) * Zpos (snd q))%Z) t with
  | Some e => snd e
  | None => [63; 63; 63]
  end.
"""
)


def coq_store(d):
    return "[" + "; ".join("(%s, [%s])" % (ct(s), "; ".join(f"({ct(f)}, {ct(v)})" for f, v in fs.items())) for s, fs in d.items()) + "]"


def coq_oracles(orc):
    fl = []
    for t, r in orc.floats.items():
        if r is None:
            fl.append(f"({ct(t)}, None)")
        elif isinstance(r, str):
            fl.append(f"({ct(t)}, Some {r})")
        else:
            fl.append(f"({ct(t)}, Some (Fin ({r.numerator})%Z {r.denominator}%positive))")
    il = [f"({ct(t)}, {'None' if r is None else 'Some (%d)%%Z' % r})" for t, r in orc.ints.items()]
    sl = [f"((({k.numerator})%Z, {k.denominator}%positive), {ct(v)})" for k, v in orc.strs.items()]
    return "[" + "; ".join(fl) + "]", "[" + "; ".join(il) + "]", "[" + "; ".join(sl) + "]"


def model_session_term(store_ident, byte_lines, orc):
    fl, il, sl = coq_oracles(orc)
    lines = "[" + "; ".join(cbytes(b) for b in byte_lines) + "]"
    return (
        f"(let '(o, s) := runx (tab_float {fl}) (tab_int {il}) (tab_str {sl}) {store_ident} {lines} in "
        f"(o ++ store_changes {store_ident} s ++ [END2])%list)"
    )


def parse_runx(out, n):
    """custom parser for the runx encoding"""
    m = re.search(r"=\s*\[(.*?)\]\s*(?:%N)?\s*:\s*list N", out, re.S)
    if not m:
        raise ValueError("cannot parse cases output: " + out[-500:])
    nums = [int(x) for x in re.findall(r"\d+", m.group(1))]
    SEP, END, END2 = coqio.SEP, coqio.END, coqio.END2
    res = []
    i = 0
    for _ in range(n):
        outs, cur_line, cur = [], [], []
        raised = None
        # first group
        while True:
            x = nums[i]
            i += 1
            if x == END2:
                raised = cur == [1]
                cur = []
                break
            if x == END:
                if cur == [SEP]:
                    outs.append(cur_line)
                    cur_line = []
                else:
                    cur_line.append(coqio.txt(cur))
                cur = []
            else:
                cur.append(x)
        changes = {}
        while True:
            x = nums[i]
            i += 1
            if x == END2:
                break
            if x == END:
                a = cur.index(SEP)
                b = cur.index(SEP, a + 1)
                changes[(coqio.txt(cur[:a]), coqio.txt(cur[a + 1 : b]))] = coqio.txt(cur[b + 1 :])
                cur = []
            else:
                cur.append(x)
        res.append((outs, raised, changes))
    return res


def json_oracle_table(lines):
    """(table term, count) of the quoted lines with their json.loads result"""
    items = {}
    for line in lines:
        l1 = line.strip().rstrip(",")
        if len(l1) >= 2 and l1.startswith('"') and l1.endswith('"'):
            try:
                v = json.loads(l1)
                if not isinstance(v, str):
                    v = None
            except ValueError:
                v = None
            items[l1] = v
    term = "[" + "; ".join(f"({ct(k)}, {'None' if v is None else 'Some ' + ct(v)})" for k, v in items.items()) + "]"
    return term, len(items)


# ------------------------------------------------------------------------------ sessions on loaded recordings
def load_recordings():
    """name -> (real YncaDataStore loaded from the bundled file, path)"""
    from .translate import REPO

    d = os.path.join(REPO, "logs")
    res = {}
    for fn in sorted(os.listdir(d)):
        if fn.endswith(".txt"):
            res[fn[:-4]] = (real_fill_path(os.path.join(d, fn)), os.path.join(d, fn))
    return res


def run_sessions(name, sessions, stores):
    """sessions: list of dict(rec=<recording name>, lines=[bytes]); stores: name -> ordered dict store.
    Runs the real handler on a copy of the store and the model on the same lines.
    -> (results, broken) where results[i] = dict(real=..., model=(outs, raised, changes) | None, changes=real store changes)"""
    import copy

    import ynca.server as S

    from .common import run_cases_parallel

    results = []
    for se in sessions:
        st = S.YncaDataStore()
        st._store = copy.deepcopy(stores[se["rec"]])
        r = real_session(st, se["lines"])
        after = store_dict(st)
        before = stores[se["rec"]]
        ch = {}
        for s, fs in after.items():
            for f, v in fs.items():
                if before.get(s, {}).get(f, "@UNDEFINED") != v:
                    ch[(s, f)] = v
        results.append({"real": r, "changes": ch, "model": None})
    # model: one cases file per recording
    by_rec = {}
    for i, se in enumerate(sessions):
        by_rec.setdefault(se["rec"], []).append(i)
    jobs, order = [], []
    for rec, idxs in by_rec.items():
        for c0 in range(0, len(idxs), 40):
            part = idxs[c0 : c0 + 40]
            lines = [SRV_HEADER, f"Definition st0 : store := {coq_store(stores[rec])}.\n"]
            terms = [model_session_term("st0", sessions[i]["lines"], results[i]["real"]["oracles"]) for i in part]
            lines.append("Eval vm_compute in (" + "\n ++ ".join(terms) + ")%list.\n")
            jobs.append((f"{name}_{len(jobs)}", "\n".join(lines)))
            order.append(part)
    outs = run_cases_parallel(jobs)
    broken = []
    for (ok, out), part in zip(outs, order):
        if not ok:
            broken.append(out[-800:])
            continue
        try:
            parsed = parse_runx(out, len(part))
        except Exception as e:  # noqa
            broken.append(f"cannot parse model output: {e}")
            continue
        for i, m in zip(part, parsed):
            results[i]["model"] = m
    return results, broken


def compare_session(se, res):
    """None if model and implementation agree on this session, else a description"""
    m = res["model"]
    if m is None:
        return "model result missing"
    outs, raised, changes = m
    r = res["real"]
    real_raised = r["exc"] is not None
    k = r["exc"][2] if real_raised else len(se["lines"])
    if raised != real_raised:
        return f"model {'raises' if raised else 'does not raise'} but the implementation {'raised ' + r['exc'][0] + ' on line ' + repr(se['lines'][k]) if real_raised else 'did not raise'} (model answered {len(outs)} lines)"
    if len(outs) != k:
        return f"model raised on line {len(outs)} ({se['lines'][len(outs)]!r}), implementation on line {k} ({se['lines'][k]!r})"
    for j in range(k):
        if outs[j] != r["outs"][j]:
            return f"replies to line {j} {se['lines'][j]!r} differ: model {outs[j]!r}, implementation {r['outs'][j]!r}"
    if not real_raised and changes != res["changes"]:
        d = {x: (changes.get(x), res["changes"].get(x)) for x in set(changes) | set(res["changes"]) if changes.get(x) != res["changes"].get(x)}
        return f"stores differ after the session (model, implementation): {dict(list(d.items())[:3])}"
    return None
