"""Shared machinery of the checks: translator invocation, Coq builds, case evaluation,
verdict logic, evidence files, known findings."""
from __future__ import annotations

import fcntl
import glob
import hashlib
import json
import os
import re
import subprocess
import sys
import time

VERIF = os.path.dirname(os.path.dirname(os.path.abspath(__file__)))
COQ = os.path.join(VERIF, "coq")
REPO = os.environ.get("YNCA_REPO", "/repo")
BUILD = os.path.join(VERIF, "build")
PY = "/venv/bin/python"
NPROC = os.cpu_count() or 8

FORBIDDEN = re.compile(
    r"\b(Admitted|admit|Axiom|Axioms|Parameter|Parameters|Conjecture|Conjectures|Admit Obligations|bypass_check)\b"
    r"|Unset\s+Guard|Unset\s+Positivity|Unset\s+Universe|type-in-type|impredicative-set|native_compute"
)

# axioms of the standard library that a theorem may depend on (must be named in the trusted base)
STDLIB_AXIOMS = {
    "Coq.Logic.FunctionalExtensionality.functional_extensionality_dep",
    "Coq.Logic.Classical_Prop.classic",
    "Coq.Logic.ProofIrrelevance.proof_irrelevance",
    "Coq.Logic.JMeq.JMeq_eq",
    "Coq.Logic.Eqdep.Eq_rect_eq.eq_rect_eq",
}


def env_for_repo():
    e = dict(os.environ)
    e["PYTHONPATH"] = REPO + os.pathsep + VERIF
    e["PYTHONHASHSEED"] = "0"
    e["YNCA_REPO"] = REPO
    e["YNCA_VERIF"] = "1"
    return e


class BuildLock:
    def __enter__(self):
        os.makedirs(BUILD, exist_ok=True)
        self.f = open(os.path.join(BUILD, "lock"), "w")
        fcntl.flock(self.f, fcntl.LOCK_EX)
        return self

    def __exit__(self, *a):
        fcntl.flock(self.f, fcntl.LOCK_UN)
        self.f.close()


def run_translator():
    """Regenerate coq/Gen from the working tree.  Returns (ok, summary-or-error)."""
    p = subprocess.run(
        [PY, "-m", "vlib.translate", os.path.join(COQ, "Gen")],
        cwd=VERIF,
        env=env_for_repo(),
        capture_output=True,
        text=True,
        timeout=300,
    )
    lines = [l for l in p.stdout.splitlines() if l.startswith("{")]
    if p.returncode != 0 or not lines:
        return False, (p.stdout + p.stderr)[-4000:]
    return True, json.loads(lines[-1])


def coq_sources():
    out = []
    for d in ("Base", "Model", "Gen", "Proofs", "Properties"):
        out += sorted(glob.glob(os.path.join(COQ, d, "*.v")))
    return [os.path.relpath(p, COQ) for p in out]


def ensure_makefile():
    srcs = coq_sources()
    proj = os.path.join(COQ, "_CoqProject")
    base = "-Q . Ynca\n-arg -w -arg -notation-overridden,-deprecated-hint-without-locality,-deprecated-instance-without-locality,-unused-pattern-matching-variable\n"
    want = base + "\n".join(srcs) + "\n"
    cur = open(proj).read() if os.path.exists(proj) else ""
    mk = os.path.join(COQ, "Makefile")
    conf = os.path.join(COQ, "Makefile.conf")
    conf_txt = open(conf).read() if os.path.exists(conf) else ""
    if cur != want or not os.path.exists(mk) or any(src not in conf_txt for src in srcs):
        with open(proj, "w") as f:
            f.write(want)
        subprocess.run(["coq_makefile", "-f", "_CoqProject", "-o", "Makefile"], cwd=COQ, check=True, capture_output=True)


def coq_make(targets, timeout=900):
    """Build .vo targets (paths relative to coq/).  Returns (ok, log)."""
    ensure_makefile()
    cmd = ["timeout", str(timeout), "make", "-j", str(NPROC), "-k"] + list(targets)
    p = subprocess.run(cmd, cwd=COQ, capture_output=True, text=True)
    log = p.stdout + p.stderr
    return p.returncode == 0, log


def failing_files(log):
    """Coq files whose compilation failed, with the error text."""
    res = []
    for m in re.finditer(r'File "\./([^"]+)", line (\d+), characters [\d-]+:\nError:(.*?)(?=\n(?:make|File|COQC|coqc)|\Z)', log, re.S):
        res.append({"file": m.group(1), "line": int(m.group(2)), "error": " ".join(m.group(3).split())[:600]})
    if not res and "Error" in log:
        res.append({"file": "?", "line": 0, "error": log[-800:]})
    return res


def grep_forbidden():
    hits = []
    for rel in coq_sources():
        txt = open(os.path.join(COQ, rel), encoding="utf-8").read()
        # strip comments (non-nested is enough for our sources; nested handled by loop)
        prev = None
        while prev != txt:
            prev = txt
            txt = re.sub(r"\(\*(?:(?!\(\*|\*\)).)*\*\)", " ", txt, flags=re.S)
        for m in FORBIDDEN.finditer(txt):
            hits.append(f"{rel}: {m.group(0)}")
    return hits


def print_assumptions(prop_file):
    """Compile the property file on its own and collect Print Assumptions output.
    Returns (ok, [ {theorem, text} ], raw)."""
    p = subprocess.run(
        ["timeout", "600", "coqc", "-Q", ".", "Ynca", prop_file], cwd=COQ, capture_output=True, text=True
    )
    raw = p.stdout + p.stderr
    src = open(os.path.join(COQ, prop_file), encoding="utf-8").read()
    asked = re.findall(r"Print Assumptions\s+([A-Za-z0-9_']+)\s*\.", src)
    blocks = []
    # coqc prints one block per Print Assumptions, in order
    parts = re.split(r"(?m)^(?=Closed under the global context|Axioms:)", p.stdout)
    parts = [x.strip() for x in parts if x.strip().startswith(("Closed under", "Axioms:"))]
    for name, txt in zip(asked, parts):
        blocks.append({"theorem": name, "assumptions": txt})
    ok = p.returncode == 0 and len(parts) == len(asked)
    return ok, blocks, raw


def axioms_of(blocks):
    ax = set()
    for b in blocks:
        if b["assumptions"].startswith("Axioms:"):
            for m in re.finditer(r"(?m)^([A-Za-z0-9_.']+)\s*:", b["assumptions"][len("Axioms:") :]):
                ax.add(m.group(1))
    return sorted(ax)


def run_cases(name, vtext, timeout=900):
    """Compile one generated cases file (evaluates the model by vm_compute).  Returns (ok, stdout)."""
    d = os.path.join(COQ, "Cases")
    os.makedirs(d, exist_ok=True)
    path = os.path.join(d, name + ".v")
    with open(path, "w", encoding="utf-8") as f:
        f.write(vtext)
    p = subprocess.run(
        ["bash", "-c", "ulimit -s unlimited 2>/dev/null; exec timeout %d coqc -Q . Ynca %s" % (timeout, os.path.join("Cases", name + ".v"))],
        cwd=COQ,
        capture_output=True,
        text=True,
    )
    for ext in (".vo", ".vok", ".vos", ".glob"):
        try:
            os.remove(os.path.join(d, name + ext))
        except FileNotFoundError:
            pass
    return p.returncode == 0, p.stdout + ("" if p.returncode == 0 else p.stderr)


def run_cases_parallel(jobs, timeout=900):
    """jobs: list of (name, vtext).  Runs up to NPROC coqc processes.  Returns list of (ok, out)."""
    from concurrent.futures import ThreadPoolExecutor

    with ThreadPoolExecutor(max_workers=min(6, NPROC)) as ex:
        return list(ex.map(lambda j: run_cases(j[0], j[1], timeout), jobs))


def run_cases_sharded(name, make_file, items, shard=400, timeout=900):
    """Split `items` into shards, build one cases file per shard with make_file(list_of_items) and
    evaluate them in parallel.  Returns (ok, [stdout per shard], first_error)."""
    jobs = []
    for i in range(0, max(len(items), 1), shard):
        part = items[i : i + shard]
        if not part and i > 0:
            break
        jobs.append((f"{name}_{i // shard}", make_file(part)))
    res = run_cases_parallel(jobs, timeout)
    err = next((o for ok, o in res if not ok), None)
    return all(ok for ok, _ in res), [o for _, o in res], err


def parse_coq_list_output(out):
    """Parse the result of `Eval vm_compute in <list of N / text / bool>` loosely: returns the
    text between '= ' and the final ': type'."""
    m = re.search(r"=\s*(.*)\n\s*:\s", out, re.S)
    return m.group(1) if m else None


def ct(s: str) -> str:
    if s == "":
        return "([]:text)"
    return "[" + ";".join(str(ord(c)) for c in s) + "]%N"


def cbytes(b: bytes) -> str:
    if len(b) == 0:
        return "([]:list N)"
    return "[" + ";".join(str(x) for x in b) + "]%N"


def coq_text_to_str(s: str) -> str:
    """Inverse of the compact printer used in cases: '65,66,67' -> 'ABC'."""
    s = s.strip()
    if not s:
        return ""
    return "".join(chr(int(x)) for x in s.split(","))


def sha(obj) -> str:
    return hashlib.sha1(json.dumps(obj, sort_keys=True, default=str).encode()).hexdigest()


# ------------------------------------------------------------------------------ known findings
def load_known_findings(prop):
    p = os.path.join(VERIF, "KNOWN_FINDINGS.json")
    if not os.path.exists(p):
        return []
    data = json.load(open(p))
    return [e for e in data.get("findings", []) if e.get("property") == prop]


# ------------------------------------------------------------------------------ the check object
class Check:
    def __init__(self, prop, tier, seed):
        self.prop = prop
        self.tier = tier
        self.seed = seed
        self.t0 = time.time()
        self.violations = []  # dicts: {key, what, replay(dict)}
        self.broken = []  # proof obligations / correspondence cases that no longer check
        self.cov = {
            "evaluations": 0,
            "distinct_nontrivial": 0,
            "rule": "",
            "samples": [],
            "obligations": 0,
            "discharged": 0,
            "checker_cmd": "",
            "trusted_base": [],
            "traces_validated_against_impl": 0,
        }
        self.assumptions = []
        self.notes = {}
        self._distinct = set()
        self.known = load_known_findings(prop)
        self.known_hit = {}
        for old in glob.glob(os.path.join(VERIF, "replays", f"{prop}-*.json")):
            try:
                os.remove(old)
            except OSError:
                pass

    # --- counting
    def count_case(self, case, nontrivial: bool):
        self.cov["evaluations"] += 1
        if nontrivial:
            h = sha(case)
            if h not in self._distinct:
                self._distinct.add(h)
                self.cov["distinct_nontrivial"] = len(self._distinct)

    def sample(self, s, limit=3):
        if len(self.cov["samples"]) < limit:
            self.cov["samples"].append(s)

    # --- results
    def violation(self, key, what, replay):
        """A concrete failing input.  `key` identifies the input / call site / schedule shape and is
        matched against open entries of KNOWN_FINDINGS.json."""
        if "wall-clock timeout of the simulation" in what:
            # a thread of the code under test sat in something the harness does not simulate (real time passed, no
            # simulated step): that says the harness cannot follow this code, not that the property fails
            if not any(b["obligation"] == "simulation harness" for b in self.broken):
                self.obligation_broken("simulation harness", "a session did not finish in wall-clock time: a thread blocked on a primitive the harness does not simulate; " + what[:200])
            return
        for e in self.known:
            if e.get("status") == "open" and re.fullmatch(e["key"], key):
                self.known_hit.setdefault(e["key"], (e, what))
                return
        if any(v["key"] == key for v in self.violations):
            self.notes["more_violations_same_key"] = self.notes.get("more_violations_same_key", 0) + 1
            return
        self.violations.append({"key": key, "what": what, "replay": replay})

    def obligation_broken(self, name, detail):
        self.broken.append({"obligation": name, "detail": detail})

    # --- build + proofs
    def build(self, prop_file, extra_targets=()):
        """Translate, build the cone of the property file, collect assumptions.  (Once per run: a second call for the
        same file returns the first result.)"""
        memo = self.__dict__.setdefault("_built", {})
        if prop_file in memo:
            return memo[prop_file]
        memo[prop_file] = r = self._build(prop_file, extra_targets)
        return r

    def _build(self, prop_file, extra_targets=()):
        with BuildLock():
            ok, summ = run_translator()
            self.notes["translator"] = summ
            if not ok:
                self.obligation_broken("translator", str(summ)[-1500:])
                return False
            ensure_makefile()
            # models and generated tables first (the cases need them even if a proof breaks)
            model_targets = [re.sub(r"\.v$", ".vo", s) for s in coq_sources() if s.startswith(("Base/", "Model/", "Gen/"))]
            okm, logm = coq_make(model_targets)
            if not okm:
                for f in failing_files(logm):
                    self.obligation_broken("compile " + f["file"], f"line {f['line']}: {f['error']}")
            target = re.sub(r"\.v$", ".vo", prop_file)
            okp, logp = coq_make([target] + list(extra_targets))
            if not okp:
                for f in failing_files(logp):
                    self.obligation_broken("proof " + f["file"], f"line {f['line']}: {f['error']}")
            bad = grep_forbidden()
            if bad:
                self.obligation_broken("forbidden-token", "; ".join(bad[:10]))
            src = open(os.path.join(COQ, prop_file), encoding="utf-8").read()
            theorems = re.findall(r"(?m)^\s*(?:Theorem|Corollary)\s+([A-Za-z0-9_']+)", src)
            self.cov["obligations"] = len(theorems)
            self.cov["checker_cmd"] = f"cd coq && make -j{NPROC} {target} && coqc -Q . Ynca {prop_file}  (Coq 8.16.1)"
            if okp and okm:
                oka, blocks, raw = print_assumptions(prop_file)
                self.notes["print_assumptions"] = blocks
                if not oka:
                    self.obligation_broken("print-assumptions " + prop_file, raw[-800:])
                else:
                    named = {b["theorem"] for b in blocks}
                    self.cov["discharged"] = len([t for t in theorems if t in named])
                    missing = [t for t in theorems if t not in named]
                    if missing:
                        self.obligation_broken("print-assumptions", "no Print Assumptions for " + ",".join(missing))
                    ax = axioms_of(blocks)
                    self.notes["axioms"] = ax
                    alien = [a for a in ax if a not in STDLIB_AXIOMS and not a.startswith("Coq.")]
                    if alien:
                        self.obligation_broken("axioms", "non-stdlib axioms: " + ",".join(alien))
            return okp and okm and not bad

    # --- finish
    def finish(self, level="proof", trusted=(), assumptions=()):
        os.makedirs(os.path.join(VERIF, "evidence"), exist_ok=True)
        os.makedirs(os.path.join(VERIF, "replays"), exist_ok=True)
        rc = 0
        lines = []
        for e, what in self.known_hit.values():
            lines.append(f"KNOWN-FINDING: property={self.prop} {e.get('description', what)}")
        for v in self.violations[:20]:
            h = sha(v["replay"])[:12]
            path = os.path.join(VERIF, "replays", f"{self.prop}-{h}.json")
            with open(path, "w") as f:
                json.dump({"property": self.prop, "key": v["key"], "what": v["what"], "replay": v["replay"]}, f, indent=1, default=str)
            lines.append(f"VIOLATION property={self.prop} replay={path}")
            rc = 1
        if not self.violations and self.broken:
            h = sha(self.broken)[:12]
            path = os.path.join(VERIF, "replays", f"{self.prop}-broken-{h}.json")
            with open(path, "w") as f:
                json.dump(
                    {
                        "property": self.prop,
                        "kind": "proof-or-correspondence-broken",
                        "no_longer_checks": self.broken,
                        "note": "no concrete failing input was found by the targeted search",
                    },
                    f,
                    indent=1,
                    default=str,
                )
            lines.append(f"VIOLATION property={self.prop} replay={path} no-failing-input-found")
            rc = 1
        ax = self.notes.get("axioms", [])
        tb = [
            "Coq 8.16.1 kernel + vm_compute (no native_compute)",
            "Print Assumptions: " + ("Closed under the global context" if not ax else "axioms: " + ", ".join(ax)),
            "translator vlib/translate.py (generated tables coq/Gen/*.v)",
        ] + list(trusted)
        self.cov["trusted_base"] = tb
        if self.broken:
            self.cov["broken_obligations"] = self.broken[:20]
            if self.cov["discharged"] >= self.cov["obligations"] and self.cov["obligations"] > 0:
                self.cov["discharged"] = self.cov["obligations"] - 1
        ev = {
            "property_id": self.prop,
            "tier": self.tier,
            "seed": self.seed,
            "level": level,
            "coverage": self.cov,
            "assumptions": list(assumptions),
            "wall_s": round(time.time() - self.t0, 2),
            "violations": len(self.violations) + (1 if (self.broken and not self.violations) else 0),
            "known_findings_reproduced": [e["key"] for e, _ in self.known_hit.values()],
            "notes": self.notes,
        }
        with open(os.path.join(VERIF, "evidence", f"{self.prop}.json"), "w") as f:
            json.dump(ev, f, indent=1, default=str)
        for l in lines:
            print(l)
        print(
            f"[{self.prop}] tier={self.tier} seed={self.seed} obligations={self.cov['discharged']}/{self.cov['obligations']} "
            f"evaluations={self.cov['evaluations']} distinct_nontrivial={self.cov['distinct_nontrivial']} "
            f"validated={self.cov['traces_validated_against_impl']} violations={len(self.violations)} broken={len(self.broken)} "
            f"wall={ev['wall_s']}s -> exit {rc}"
        )
        return rc


def gen_params():
    """the timing constants the translator regenerated from /repo (coq/Gen/Params.v), in microseconds"""
    txt = open(os.path.join(COQ, "Gen", "Params.v"), encoding="utf-8").read()
    return {m.group(1): int(m.group(2)) for m in re.finditer(r"Definition (p_\w+) : Z := (-?\d+)\.", txt)}
