"""Deterministic simulation of the real ynca / pyserial threads.

Real Python threads are serialised by a baton: exactly one simulated thread runs at a time.  All
blocking primitives and the clock the code uses are replaced (in the namespaces of the modules under
test only) by simulated ones living in virtual time (integer microseconds).  Every access to shared
state is a scheduling point and an event.  The schedule is a sequence of choices drawn from one
PRNG or supplied explicitly, so every run is replayable.

Nothing in /repo is modified: names `threading`, `queue`, `time` inside ynca.connection,
ynca.subunit, ynca.api and serial.threaded are rebound for the duration of a `Sim` run, and
threading.Thread.start/join/is_alive are patched.
"""
from __future__ import annotations

import dis
import heapq
import queue as _real_queue
import random
import sys
import threading as _real_threading
import time as _real_time
import types

US = 1_000_000


def usec(seconds) -> int:
    from fractions import Fraction

    r = int(round(Fraction(str(seconds)) * US))
    # a positive wait shorter than the clock's resolution still lets time pass (a polling loop around a clock read
    # would otherwise spin for ever at one virtual instant)
    return 1 if r == 0 and seconds > 0 else r


class Deadlock(Exception):
    pass


class SimAbort(BaseException):
    """raised inside simulated threads when the simulation is torn down"""


class SThread:
    def __init__(self, sim, name, pythread=None):
        self.sim = sim
        self.name = name
        self.py = pythread
        self.baton = _real_threading.Semaphore(0)
        self.state = "new"  # new | runnable | blocked | done
        self.wake_pred = None
        self.deadline = None
        self.timed_out = False
        self.exc = None


class Sim:
    """One simulated execution."""

    wall_timeouts = 0

    def __init__(self, seed=0, switch_prob=0.3, max_events=120000, choices=None, delay_prob=0.0, max_delay_us=0):
        self.rng = random.Random(seed)
        # the order in which a set hands out its members is arbitrary (CPython: by object address, different in
        # every process): the simulation fixes it per seed, so that executions repeat exactly
        self.order_rng = random.Random((seed if isinstance(seed, int) else 0) * 7919 + 13)
        self.switch_prob = switch_prob
        self.now = 0
        self.decoy_events = []
        self.events = []
        self.threads = []
        self.cur = None
        self.timers = []  # heap of (time, seq, fn)
        self._seq = 0
        self.max_events = max_events
        self.choices = list(choices) if choices is not None else None
        self.choice_log = []
        self.delay_prob = delay_prob
        self.max_delay_us = max_delay_us
        self.aborting = False
        self.by_py = {}
        self.driver_lock = _real_threading.Semaphore(0)
        self.failure = None
        self.n_switch = 0

    # ------------------------------------------------------------------ events
    def abort(self, reason):
        """give up on this execution: unwind every simulated thread"""
        if self.failure is None:
            self.failure = Deadlock(reason)
        self.aborting = True
        for t in self.threads:
            if t.state in ("blocked", "runnable"):
                t.state = "runnable"
        raise SimAbort()

    def ev(self, kind, **kw):
        if len(self.events) > self.max_events and not self.aborting:
            self.abort("event budget exhausted (livelock at virtual time %d us?)" % self.now)
        e = {"t": self.now, "th": self.cur.name if self.cur else "-", "k": kind}
        e.update(kw)
        # events of a second, independent connection ("decoy": its threads, and other threads while they
        # operate on it) are kept apart: the trace of the connection under test must not contain them
        if self.cur is not None and (getattr(self.cur, "decoy", False) or getattr(self.cur, "decoy_depth", 0) > 0):
            e["decoy"] = True
            self.decoy_events.append(e)
            return e
        self.events.append(e)
        return e

    def decoy(self):
        """context manager: the current thread operates on the decoy connection"""
        sim = self

        class _Ctx:
            def __enter__(self_):
                if sim.cur is not None:
                    sim.cur.decoy_depth = getattr(sim.cur, "decoy_depth", 0) + 1

            def __exit__(self_, *a):
                if sim.cur is not None:
                    sim.cur.decoy_depth = getattr(sim.cur, "decoy_depth", 0) - 1
                return False

        return _Ctx()

    def primary(self):
        """context manager: the current thread, although it belongs to the second connection (e.g. its reader thread
        inside a callback), acts for the connection under test for a while: its events are recorded in the main trace"""
        sim = self

        class _Ctx:
            def __enter__(self_):
                me = sim.cur
                self_.me = me
                self_.saved = (getattr(me, "decoy", False), getattr(me, "decoy_depth", 0))
                me.decoy, me.decoy_depth = False, 0

            def __exit__(self_, *a):
                self_.me.decoy, self_.me.decoy_depth = self_.saved
                return False

        return _Ctx()

    # ------------------------------------------------------------------ scheduling core
    def _runnable(self):
        return [t for t in self.threads if t.state == "runnable"]

    def _choose(self, cands, prefer_current=True):
        """pick the thread to run next among candidates"""
        if len(cands) == 1:
            return cands[0]
        if self.choices is not None:
            if self.choices:
                c = self.choices.pop(0)
                pick = cands[c % len(cands)]
                self.choice_log.append(c % len(cands))
                return pick
            pick = cands[0]
            self.choice_log.append(0)
            return pick
        if prefer_current and self.cur in cands and self.rng.random() >= self.switch_prob:
            self.choice_log.append(cands.index(self.cur))
            return self.cur
        i = self.rng.randrange(len(cands))
        self.choice_log.append(i)
        return cands[i]

    def _advance_time(self):
        """no thread runnable: jump to the earliest deadline or timer"""
        nxt = None
        for t in self.threads:
            if t.state == "blocked" and t.deadline is not None:
                nxt = t.deadline if nxt is None else min(nxt, t.deadline)
        if self.timers:
            nxt = self.timers[0][0] if nxt is None else min(nxt, self.timers[0][0])
        if nxt is None:
            return False
        if nxt > self.now:
            self.now = nxt
        # fire timers that are due
        while self.timers and self.timers[0][0] <= self.now:
            _, _, fn = heapq.heappop(self.timers)
            fn()
        self._wake_ready()
        return True

    def _wake_ready(self):
        for t in self.threads:
            if t.state == "blocked":
                if t.wake_pred is not None and t.wake_pred():
                    t.state = "runnable"
                    t.timed_out = False
                elif t.deadline is not None and t.deadline <= self.now:
                    t.state = "runnable"
                    t.timed_out = True

    def _dispatch(self):
        """called by the current thread when it stops running (blocked, yielded or done): hand the baton on"""
        if self.aborting:
            live = [t for t in self.threads if t.state != "done"]
            if not live:
                self.cur = None
                self.driver_lock.release()
                return None
            for t in live:
                t.state = "runnable"
            return live[0]
        while True:
            # timers due now
            while self.timers and self.timers[0][0] <= self.now:
                _, _, fn = heapq.heappop(self.timers)
                fn()
            self._wake_ready()
            cands = self._runnable()
            if cands:
                break
            if not self._advance_time():
                # nothing can ever run again
                live = [t for t in self.threads if t.state != "done"]
                if not live:
                    self.cur = None
                    self.driver_lock.release()
                    return None
                self.failure = Deadlock("deadlock: " + ", ".join(f"{t.name}:{t.state}" for t in live))
                self.aborting = True
                for t in live:
                    t.state = "runnable"
                cands = self._runnable()
                break
        nxt = self._choose(cands)
        return nxt

    def _switch_from(self, me):
        nxt = self._dispatch()
        if nxt is None:
            return
        if nxt is not me:
            self.n_switch += 1
            self.cur = nxt
            nxt.baton.release()
            if me is not None and me.state != "done":
                me.baton.acquire()
                self.cur = me
        if self.aborting and me is not None and me.state != "done":
            raise SimAbort()

    def yield_point(self):
        """a scheduling point: another runnable thread may be chosen to continue"""
        me = self.cur
        if me is None or self.aborting:
            return
        # optional injected stall (legitimate for lower-bound / ordering properties only)
        if self.delay_prob and self.rng.random() < self.delay_prob:
            d = self.rng.randrange(1, self.max_delay_us + 1)
            self.ev("Stall", d=d)
            self.block(None, self.now + d)
            return
        others = [t for t in self._runnable() if t is not me]
        if not others:
            return
        self._switch_from(me)

    def block(self, pred, deadline=None):
        """block the current thread until pred() or the deadline; returns True if pred held"""
        me = self.cur
        if self.aborting:
            raise SimAbort()
        if pred is not None and pred():
            return True
        if deadline is not None and deadline <= self.now and pred is None:
            return False
        me.state = "blocked"
        me.wake_pred = pred
        me.deadline = deadline
        me.timed_out = False
        self._switch_from(me)
        me.wake_pred = None
        me.deadline = None
        return not me.timed_out

    def poll_tick(self):
        """a thread polling (zero-length waits) over and over at one virtual instant: polling takes time too, so after
        a few rounds the clock moves on by one tick (a loop around a clock read would otherwise spin for ever)"""
        me = self.cur
        if me is None or self.aborting:
            return
        if getattr(me, "poll_at", None) == self.now:
            me.polls += 1
        else:
            me.poll_at, me.polls = self.now, 1
        if me.polls >= 3:
            me.polls = 0
            self.block(None, self.now + 1)

    def at(self, t, fn):
        self._seq += 1
        heapq.heappush(self.timers, (max(int(t), self.now), self._seq, fn))

    # ------------------------------------------------------------------ threads
    def register_thread(self, pythread, name):
        st = SThread(self, name, pythread)
        self.threads.append(st)
        self.by_py[pythread] = st
        return st

    def sthread_of(self, pythread):
        return self.by_py.get(pythread)

    def current_py(self):
        return self.cur.py if self.cur else None

    def _thread_main(self, st, run):
        st.baton.acquire()
        self.cur = st
        try:
            if not self.aborting:
                if getattr(self, "trace_modules", None):
                    # every source line of the named (small, lock-free) modules is a scheduling point for this thread:
                    # a thread switch between two plain statements, which the primitives alone cannot produce
                    sys.settrace(self._tracer)
                run()
        except SimAbort:
            pass
        except BaseException as e:  # noqa: unhandled exception in a thread: the thread dies
            st.exc = e
            self.ev("ThreadDied", exc=type(e).__name__, msg=str(e)[:120])
        finally:
            st.state = "done"
            if not self.aborting:
                self.ev("ThreadExit")
            self._switch_from(st)

    def _tracer(self, frame, event, arg):
        if event == "call" and frame.f_globals.get("__name__") in self.trace_modules:
            return self._line_tracer
        return None

    def _line_tracer(self, frame, event, arg):
        if event == "line" and not self.aborting and self.cur is not None and self.by_py.get(_real_threading.current_thread()) is self.cur:
            self.n_line_points = getattr(self, "n_line_points", 0) + 1
            self.yield_point()
        return self._line_tracer

    def spawn(self, fn, name):
        """start a caller thread running fn() under the simulation"""
        th = _real_threading.Thread(target=lambda: None, name=name, daemon=True)
        st = self.register_thread(th, name)
        st.state = "runnable"
        th.run = lambda: self._thread_main(st, fn)
        _REAL["start"](th)
        return th

    # ------------------------------------------------------------------ driver
    def run(self, main_fn, timeout_s=30):
        """run main_fn as thread 'main' under the simulation until every thread is done"""
        with Patched(self):
            self.spawn(main_fn, "main")
            first = self.threads[0]
            self.cur = first
            first.baton.release()
            # a thread stuck on a primitive the harness does not simulate burns real time: after two such sessions
            # the remaining ones of this process get a short leash
            if Sim.wall_timeouts >= 2:
                timeout_s = min(timeout_s, 3)
            ok = self.driver_lock.acquire(timeout=timeout_s)
            if not ok:
                Sim.wall_timeouts += 1
                self.failure = Deadlock("wall-clock timeout of the simulation")
                self.aborting = True
                for t in self.threads:
                    if t.state != "done":
                        t.baton.release()
                _real_time.sleep(0.05)
        return self


# ---------------------------------------------------------------------- simulated primitives
class SimQueue:
    Empty = _real_queue.Empty

    def __init__(self, sim, maxsize=0):
        self.sim = sim
        self.items = []
        self.maxsize = maxsize

    def put(self, item, block=True, timeout=None):
        s = self.sim
        s.yield_point()
        if self.maxsize and len(self.items) >= self.maxsize:
            s.ev("EnqBlocked")
            dl = None if timeout is None else s.now + usec(timeout)
            if not block or not s.block(lambda: len(self.items) < self.maxsize, dl):
                raise _real_queue.Full
        self.items.append(item)
        s.ev("Enq", item=_item_repr(item), marker=_marker(item), qlen=len(self.items))

    def get(self, block=True, timeout=None):
        s = self.sim
        s.yield_point()
        if not self.items:
            if not block:
                s.ev("DeqEmpty", nowait=True)
                d = getattr(s, "stall_after_empty_us", 0)
                if d and s.cur is not None and s.cur.name == "reader":
                    # targeted delay: the thread that has just found the queue empty (connection_lost's drain) is
                    # descheduled for a while before it goes on (legitimate: any thread can be preempted anywhere)
                    s.ev("Stall", d=d)
                    s.block(None, s.now + d)
                raise _real_queue.Empty
            dl = None if timeout is None else s.now + usec(timeout)
            s.ev("GetWait", deadline=dl)
            while not self.items:
                if not s.block(lambda: bool(self.items), dl) and not self.items:
                    s.ev("DeqEmpty", nowait=False)
                    raise _real_queue.Empty
        item = self.items.pop(0)
        s.ev("Deq", item=_item_repr(item), marker=_marker(item), qlen=len(self.items), nowait=not block)
        return item

    def get_nowait(self):
        return self.get(False)

    def put_nowait(self, item):
        return self.put(item, False)

    def qsize(self):
        return len(self.items)

    def empty(self):
        return not self.items


def _marker(item):
    """None for data (a str); the marker's name for the queue's control objects"""
    if isinstance(item, str):
        return None
    return str(getattr(item, "name", type(item).__name__))


def _item_repr(item):
    if isinstance(item, str):
        return item
    return "<" + type(item).__name__ + ":" + str(getattr(item, "name", getattr(item, "__name__", id(item)))) + ">" if not isinstance(item, (int, float)) else repr(item)


class SimEvent:
    _n = 0

    def __init__(self, sim):
        self.sim = sim
        self.flag = False
        SimEvent._n += 1
        self.id = SimEvent._n

    def set(self):
        self.sim.yield_point()
        self.flag = True
        self.sim.ev("EvSet", e=self.id)

    def clear(self):
        self.sim.yield_point()
        self.flag = False
        self.sim.ev("EvClear", e=self.id)

    def is_set(self):
        return self.flag

    def wait(self, timeout=None):
        s = self.sim
        s.yield_point()
        dl = None if timeout is None else s.now + usec(timeout)
        s.ev("EvWaitStart", e=self.id, deadline=dl, timeout_us=None if timeout is None else usec(timeout))
        r = s.block(lambda: self.flag, dl)
        s.ev("EvWaitEnd", e=self.id, result=bool(r))
        if not r and dl is not None and dl <= s.now:
            s.poll_tick()
        return bool(r)


class SimLock:
    def __init__(self, sim):
        self.sim = sim
        self.owner = None

    def acquire(self, blocking=True, timeout=-1):
        s = self.sim
        s.yield_point()
        if self.owner is not None:
            if not blocking:
                return False
            s.ev("LockWait")
            while self.owner is not None:
                s.block(lambda: self.owner is None, None)
        self.owner = s.cur
        s.ev("LockAcq")
        return True

    def release(self):
        self.owner = None
        self.sim.ev("LockRel")
        self.sim.yield_point()

    def __enter__(self):
        self.acquire()
        return self

    def __exit__(self, *a):
        self.release()

    def locked(self):
        return self.owner is not None


class _ThreadingShim:
    """what the modules under test see as `threading`"""

    def __init__(self, sim):
        self._sim = sim
        self.Thread = _real_threading.Thread

    def Event(self):
        return SimEvent(self._sim)

    def Lock(self):
        return SimLock(self._sim)

    def current_thread(self):
        return self._sim.current_py()

    def __getattr__(self, n):
        return getattr(_real_threading, n)


class _QueueShim:
    Empty = _real_queue.Empty
    Full = _real_queue.Full

    def __init__(self, sim):
        self._sim = sim

    def Queue(self, maxsize=0):
        return SimQueue(self._sim, maxsize)

    def SimpleQueue(self):
        # same unbounded FIFO contract (queue.SimpleQueue has no task_done/join, which the library does not use)
        return SimQueue(self._sim, 0)

    def __getattr__(self, n):
        return getattr(_real_queue, n)


class _TimeShim:
    def __init__(self, sim):
        self._sim = sim

    def sleep(self, d):
        s = self._sim
        s.yield_point()
        s.ev("SleepStart", d=usec(d))
        s.block(None, s.now + usec(d))
        s.ev("Wake")

    def perf_counter(self):
        return self._sim.now / US

    def monotonic(self):
        return self._sim.now / US

    def time(self):
        return self._sim.now / US

    # every clock the standard library offers reads the same virtual time
    def monotonic_ns(self):
        return self._sim.now * 1000

    def perf_counter_ns(self):
        return self._sim.now * 1000

    def time_ns(self):
        return self._sim.now * 1000

    def process_time(self):
        return self._sim.now / US

    def __getattr__(self, n):
        return getattr(_real_time, n)


# ---------------------------------------------------------------------- the simulated port and device
class SimPort:
    """stands in for the object returned by serial.serial_for_url"""

    def __init__(self, sim, device, open_error=None):
        import serial

        self.sim = sim
        self.device = device
        self.is_open = True
        self.rx = bytearray()
        self.eof = False
        self.err = None
        self.cancelled = False
        self.timeout = None
        self.writes = []  # (t, bytes, thread)
        self.write_error_at = None  # index of the write that fails
        self._serial = serial
        self.closed_at = None
        device.attach(self)

    @property
    def in_waiting(self):
        if not self.is_open:
            raise self._serial.PortNotOpenError()
        return len(self.rx)

    def read(self, size=1):
        s = self.sim
        s.yield_point()
        if not self.is_open:
            s.ev("ReadErr", why="closed")
            raise self._serial.PortNotOpenError()
        if not self.rx and not self.eof and self.err is None and not self.cancelled:
            s.ev("ReadWait")
            s.block(lambda: bool(self.rx) or self.eof or self.err is not None or self.cancelled or not self.is_open, None)
        if self.rx:
            n = min(size, len(self.rx))
            data = bytes(self.rx[:n])
            del self.rx[:n]
            s.ev("Read", data=list(data))
            return data
        if self.cancelled:
            self.cancelled = False
            s.ev("ReadCancelled")
            return b""
        if self.err is not None:
            s.ev("ReadErr", why="io")
            raise self._serial.SerialException(self.err)
        if self.eof:
            # socket:// ports raise on EOF ("socket disconnected")
            s.ev("ReadEof")
            raise self._serial.SerialException("socket disconnected")
        s.ev("ReadErr", why="closed")
        raise self._serial.PortNotOpenError()

    def write(self, data):
        s = self.sim
        s.yield_point()
        if not self.is_open:
            s.ev("WriteErr", why="closed", data=list(data))
            raise self._serial.PortNotOpenError()
        idx = len(self.writes)
        once = getattr(self, "write_fail_once_at", None)
        if once is not None and idx >= once:
            # a transient failure: this one write fails after its first bytes went out, later ones work again
            self.write_fail_once_at = None
            s.ev("WriteErr", why="io-once", data=list(data))
            raise self._serial.SerialException("write failed")
        if self.write_error_at is not None and idx >= self.write_error_at:
            s.ev("WriteErr", why="io", data=list(data))
            raise self._serial.SerialException("write failed")
        self.writes.append((s.now, bytes(data), s.cur.name))
        s.ev("Write", data=list(data), idx=idx)
        self.device.on_write(bytes(data), idx)
        return len(data)

    def cancel_read(self):
        self.sim.ev("CancelRead")
        self.cancelled = True

    def close(self):
        self.sim.yield_point()
        if self.is_open:
            self.is_open = False
            self.closed_at = self.sim.now
        self.sim.ev("PortClose")

    def flush(self):
        pass


class Device:
    """Scripted device.  respond(line:str, idx) -> list of reply lines (str) or bytes chunks.
    latency_us: delay between a write and its replies; per-reply extra via `gap_us`."""

    def __init__(self, sim, respond=None, latency_us=20000, gap_us=1000, chunker=None, decoy=False):
        self.sim = sim
        self.decoy = decoy
        self.respond = respond or (lambda line, idx: [])
        self.latency_us = latency_us
        self.gap_us = gap_us
        self.port = None
        self.dead = False
        self.silent_after_replies = None
        self.n_replies = 0
        self.eof_after_bytes = None
        self.n_bytes = 0
        self.chunker = chunker
        self.rxlines = []  # every complete line emitted (str) with time and cause
        self.last_emit = 0

    gen = 0

    def attach(self, port):
        # a new session on the same device: replies still in flight to the previous port are dropped
        if self.port is not None:
            self.gen += 1
        self.port = port

    def on_write(self, data, idx):
        if self.dead:
            return
        try:
            line = data.decode("utf-8", "replace")
        except Exception:
            line = ""
        line = line[:-2] if line.endswith("\r\n") else line
        replies = self.respond(line, idx)
        lat = self.latency_us(line, idx) if callable(self.latency_us) else self.latency_us
        t = max(self.sim.now + lat, self.last_emit)
        for r in replies:
            if self.silent_after_replies is not None and self.n_replies >= self.silent_after_replies:
                return
            self.n_replies += 1
            b = (r.encode("utf-8") + b"\r\n") if isinstance(r, str) else r
            self.emit_at(t, b, cause=idx)
            t += self.gap_us

    def emit_at(self, t, b, cause=None):
        t = max(int(t), self.sim.now)
        self.last_emit = max(self.last_emit, t)

        gen = self.gen

        def fire():
            if self.dead or self.port is None or gen != self.gen:
                return
            data = b
            if self.eof_after_bytes is not None:
                room = self.eof_after_bytes - self.n_bytes
                if room <= 0:
                    data = b""
                else:
                    data = data[:room]
            before = self.n_bytes
            self.n_bytes += len(data)
            if data:
                (self.sim.decoy_events if self.decoy else self.sim.events).append({"t": self.sim.now, "th": "device", "k": "DevEmit", "data": list(data), "cause": cause})
                h = getattr(self, "hold", None)
                if h is not None and h.get("until") is None and before < h["after_bytes"] <= self.n_bytes:
                    # the reader (or the OS) stalls in the middle of a line: what follows reaches the port in one burst
                    cut = h["after_bytes"] - before
                    self.port.rx.extend(data[:cut])
                    h["until"] = self.sim.now + h["for_us"]
                    h["buf"] = bytearray(data[cut:])
                    port = self.port

                    def release():
                        if gen == self.gen and not self.dead:
                            port.rx.extend(bytes(h["buf"]))
                            (self.sim.decoy_events if self.decoy else self.sim.events).append({"t": self.sim.now, "th": "device", "k": "DevRelease", "n": len(h["buf"])})
                        h["buf"] = bytearray()
                        h["done"] = True

                    self.sim.at(h["until"], release)
                elif h is not None and h.get("until") is not None and not h.get("done"):
                    h["buf"].extend(data)
                else:
                    self.port.rx.extend(data)
            if self.eof_after_bytes is not None and self.n_bytes >= self.eof_after_bytes:
                self.fault("eof")

        self.sim.at(t, fire)

    def fault(self, kind="eof"):
        if self.dead:
            return
        self.dead = True
        (self.sim.decoy_events if self.decoy else self.sim.events).append({"t": self.sim.now, "th": "device", "k": "DevFault", "kind": kind})
        if kind == "eof":
            self.port.eof = True
        else:
            self.port.err = "device reports readiness to read but returned no data"

    def fault_at(self, t, kind="eof"):
        self.sim.at(t, lambda: self.fault(kind))


# ---------------------------------------------------------------------- instrumented sets and attributes
def _cb_label(x):
    """small stable label of a callback object for the trace"""
    lab = getattr(x, "_cbid", None)
    if lab is not None:
        return lab
    f = getattr(x, "__func__", None)
    owner = getattr(x, "__self__", None)
    if f is not None and owner is not None:
        return getattr(owner, "_cbid", None) or (type(owner).__name__ + "." + f.__name__)
    return getattr(x, "__name__", type(x).__name__)


class SimSet(set):
    """a set whose mutation and iteration are scheduling points; iteration follows CPython's
    'changed size during iteration' rule; `list(s)` / `set(s)` / `s.copy()` are atomic (as under the GIL)."""

    _sim = None
    _label = "set"

    def add(self, x):
        s = self._sim
        if s is not None and s.cur is not None:
            s.yield_point()
            s.ev("SetAdd", set=self._label, item=_cb_label(x), present=set.__contains__(self, x))
        set.add(self, x)

    def discard(self, x):
        s = self._sim
        if s is not None and s.cur is not None:
            s.yield_point()
            s.ev("SetDiscard", set=self._label, item=_cb_label(x), present=set.__contains__(self, x))
        set.discard(self, x)

    def __contains__(self, x):
        s = self._sim
        r = set.__contains__(self, x)
        if s is not None and s.cur is not None and not s.aborting:
            s.yield_point()
            r = set.__contains__(self, x)
            s.ev("SetContains", set=self._label, item=_cb_label(x), result=r)
        return r

    def remove(self, x):
        s = self._sim
        if s is not None and s.cur is not None:
            s.yield_point()
            s.ev("SetRemove", set=self._label, item=_cb_label(x), present=set.__contains__(self, x))
        set.remove(self, x)

    def clear(self):
        s = self._sim
        if s is not None and s.cur is not None:
            s.yield_point()
            s.ev("SetClear", set=self._label)
        set.clear(self)

    def __iter__(self):
        s = self._sim
        if s is None or s.cur is None:
            return set.__iter__(self)
        fr = sys._getframe(1)
        op = dis.opname[fr.f_code.co_code[fr.f_lasti]]
        if op.startswith("CALL") or op in ("LIST_EXTEND", "SET_UPDATE", "UNPACK_SEQUENCE", "CONTAINS_OP"):
            s.yield_point()
            items = self._ordered()
            s.ev("SetSnapshot", set=self._label, n=len(items), items=[_cb_label(x) for x in items])
            return iter(items)
        return self._gen()

    def _ordered(self):
        items = list(set.__iter__(self))
        items.sort(key=lambda x: str(_cb_label(x)))
        self._sim.order_rng.shuffle(items)
        return items

    def _gen(self):
        s = self._sim
        items = self._ordered()
        n0 = len(self)
        s.yield_point()
        s.ev("IterStart", set=self._label, n=n0)
        i = 0
        while True:
            s.yield_point()
            if len(self) != n0:
                s.ev("IterRaise", set=self._label)
                raise RuntimeError("Set changed size during iteration")
            if i >= len(items):
                s.ev("IterEnd", set=self._label)
                return
            x = items[i]
            i += 1
            if not set.__contains__(self, x):
                continue
            s.ev("IterNext", set=self._label)
            yield x


_REAL = {}
HOOKED_PROTOCOL_ATTRS = ("_keep_alive_pending", "connected", "_disconnect_callback", "_message_callback")


class Patched:
    """context manager installing the simulation into the modules under test"""

    def __init__(self, sim):
        self.sim = sim
        self.saved = []

    def _set(self, obj, name, val):
        self.saved.append((obj, name, obj.__dict__.get(name, _MISSING) if hasattr(obj, "__dict__") else getattr(obj, name, _MISSING)))
        setattr(obj, name, val)

    def __enter__(self):
        import serial
        import serial.threaded
        import ynca.api
        import ynca.connection
        import ynca.subunit

        sim = self.sim
        patched = self
        th, qu, ti = _ThreadingShim(sim), _QueueShim(sim), _TimeShim(sim)
        for mod in (ynca.connection, ynca.subunit, ynca.api, serial.threaded):
            if hasattr(mod, "threading"):
                self._set(mod, "threading", th)
            if hasattr(mod, "queue"):
                self._set(mod, "queue", qu)
            if hasattr(mod, "time"):
                self._set(mod, "time", ti)

        # synchronisation objects created at import time (class or module level) are real ones and
        # would block the process: substitute simulated ones for the duration of the run
        import inspect
        import pkgutil
        import ynca.subunits

        mods = [ynca.connection, ynca.subunit, ynca.api]
        for mi in pkgutil.iter_modules(ynca.subunits.__path__):
            try:
                mods.append(__import__("ynca.subunits." + mi.name, fromlist=["x"]))
            except Exception:  # noqa
                pass
        real_lock_types = (type(_real_threading.Lock()), type(_real_threading.RLock()))

        def sub(val):
            if isinstance(val, _real_threading.Event):
                e = SimEvent(sim)
                e.flag = val.is_set()
                return e
            if isinstance(val, real_lock_types):
                return SimLock(sim)
            if isinstance(val, _real_queue.Queue):
                return SimQueue(sim)
            return None

        for mod in mods:
            holders = [mod] + [c for _, c in inspect.getmembers(mod, inspect.isclass) if getattr(c, "__module__", None) == mod.__name__]
            for h in holders:
                for name, val in list(vars(h).items()):
                    r = sub(val)
                    if r is not None:
                        self._set(h, name, r)

        T = _real_threading.Thread
        if not _REAL:
            _REAL.update(start=T.start, join=T.join, is_alive=T.is_alive)

        def start(pt):
            if pt in sim.by_py:  # spawned by sim.spawn
                return _REAL["start"](pt)
            name = "reader" if isinstance(pt, serial.threaded.ReaderThread) else ("sender" if getattr(pt, "_target", None) is not None and getattr(pt._target, "__name__", "") == "_send_handler" else pt.name)
            st = sim.register_thread(pt, name)
            if sim.cur is not None and (getattr(sim.cur, "decoy", False) or getattr(sim.cur, "decoy_depth", 0) > 0):
                st.decoy = True
                st.name = name + "~"
            orig_run = pt.run
            pt.run = lambda: sim._thread_main(st, orig_run)
            sim.yield_point()
            st.state = "runnable"
            sim.ev("ThreadStart", target=name)
            pt.daemon = True
            _REAL["start"](pt)

        def join(pt, timeout=None):
            st = sim.by_py.get(pt)
            if st is None:
                return _REAL["join"](pt, timeout)
            if sim.cur is not None and pt is sim.cur.py:
                sim.ev("JoinSelf")
                raise RuntimeError("cannot join current thread")
            sim.yield_point()
            dl = None if timeout is None else sim.now + usec(timeout)
            sim.ev("JoinStart", target=st.name, deadline=dl)
            r = sim.block(lambda: st.state == "done", dl)
            sim.ev("JoinEnd", target=st.name, finished=bool(r))

        def is_alive(pt):
            st = sim.by_py.get(pt)
            if st is None:
                return _REAL["is_alive"](pt)
            return st.state in ("runnable", "blocked")

        self._set(T, "start", start)
        self._set(T, "join", join)
        self._set(T, "is_alive", is_alive)

        # protocol subclass with hooked shared attributes
        Base = ynca.connection.YncaProtocol

        class SimProtocol(Base):
            def __getattribute__(self, name):
                if name in HOOKED_PROTOCOL_ATTRS and sim.cur is not None and not sim.aborting:
                    sim.yield_point()
                    v = object.__getattribute__(self, name)
                    sim.ev("Get", attr=name, val=_attr_val(v))
                    return v
                return object.__getattribute__(self, name)

            def __setattr__(self, name, value):
                if name in HOOKED_PROTOCOL_ATTRS and sim.cur is not None and not sim.aborting:
                    sim.yield_point()
                    object.__setattr__(self, name, value)
                    sim.ev("Set", attr=name, val=_attr_val(value))
                    return
                object.__setattr__(self, name, value)

            def handle_line(self, line):
                if sim.cur is not None and not sim.aborting:
                    sim.yield_point()
                    sim.ev("Line", text=line)
                return Base.handle_line(self, line)

        _orig_init = Base.__init__

        def _init(self_, message_callback=None, disconnect_callback=None, communication_log_size=0, *more, **kwmore):
            cb = message_callback
            if cb is not None:
                def wrapped(status, subunit, function, value):
                    sim.ev("Deliver", status=status.name, sfv=None if subunit is None and function is None and value is None else [subunit, function, value])
                    try:
                        return cb(status, subunit, function, value)
                    finally:
                        if not sim.aborting:
                            sim.ev("DeliverEnd")
                message_callback = wrapped
            dcb = disconnect_callback
            if dcb is not None:
                def dwrapped():
                    sim.ev("DisconnectCb")
                    return dcb()
                disconnect_callback = dwrapped
            _orig_init(self_, message_callback, disconnect_callback, communication_log_size, *more, **kwmore)
            buf = object.__getattribute__(self_, "_communication_log_buffer")
            add0 = buf.add

            def add(item):
                if sim.cur is not None and not sim.aborting:
                    sim.yield_point()
                    sim.ev("LogAdd", text=item)
                return add0(item)

            buf.add = add

        SimProtocol.__init__ = _init
        SimProtocol.__name__ = "YncaProtocol"
        self._set(ynca.connection, "YncaProtocol", SimProtocol)

        # callback sets
        conn_init = ynca.connection.YncaConnection.__init__

        def conn_init2(self_, *a, **k):
            conn_init(self_, *a, **k)
            if type(self_.__dict__.get("_message_callbacks")) is set:  # another container type is left alone
                ss = SimSet(self_.__dict__["_message_callbacks"])
                ss._sim = sim
                ss._label = "message"
                object.__setattr__(self_, "_message_callbacks", ss)
            else:
                # not an attribute of the instance: a container on the class is SHARED by all connections, and stays so
                cls_ = type(self_)
                shared = cls_.__dict__.get("_message_callbacks")
                if type(shared) is set:
                    ss = SimSet(shared)
                    ss._sim = sim
                    ss._label = "message"
                    patched._set(cls_, "_message_callbacks", ss)

        self._set(ynca.connection.YncaConnection, "__init__", conn_init2)

        def conn_setattr(self_, name, value):
            if name == "_closed" and value is True and sim.cur is not None and not sim.aborting:
                sim.yield_point()
                object.__setattr__(self_, name, value)
                sim.ev("SetClosed")
                return
            if name == "_closed" and value is False and self_.__dict__.get("_closed") is True and sim.cur is not None and not sim.aborting:
                # connect() on an object that has been closed: the flag is re-armed
                sim.yield_point()
                object.__setattr__(self_, name, value)
                sim.ev("ClosedReset")
                return
            if name == "_message_callbacks" and "_message_callbacks" in self_.__dict__ and sim.cur is not None and not sim.aborting:
                # the container is REPLACED (copy-on-write style): a scheduling point, and the new one is instrumented too
                sim.yield_point()
                if type(value) is set:
                    ss = SimSet(value)
                    ss._sim = sim
                    ss._label = "message"
                    value = ss
                sim.ev("SetReplace", set="message", items=sorted(str(_cb_label(x)) for x in (set.__iter__(value) if isinstance(value, set) else value)) if isinstance(value, (set, frozenset, list, tuple, dict)) else None)
            object.__setattr__(self_, name, value)

        self._set(ynca.connection.YncaConnection, "__setattr__", conn_setattr)

        def conn_getattribute(self_, name):
            if name == "_message_callbacks" and sim.cur is not None and not sim.aborting:
                sim.yield_point()  # reading the container and using it are two steps for another thread to get between
            return object.__getattribute__(self_, name)

        self._set(ynca.connection.YncaConnection, "__getattribute__", conn_getattribute)

        SB = ynca.subunit.SubunitBase

        def sb_setattr(self_, name, value):
            if name == "_update_callbacks" and type(value) is set:
                ss = SimSet(value)
                ss._sim = sim
                ss._label = "update:" + f"{getattr(self_, 'id', '?')}"
                if "_update_callbacks" in self_.__dict__ and sim.cur is not None and not sim.aborting:
                    sim.yield_point()
                    sim.ev("SetClear", set=ss._label)  # close(): the set is replaced by an empty one
                value = ss
            if name == "_initialized" and sim.cur is not None and not sim.aborting:
                sim.yield_point()
                object.__setattr__(self_, name, value)
                sim.ev("SetInit", sub=f"{self_.id}", val=bool(value))
                return
            object.__setattr__(self_, name, value)

        def sb_getattribute(self_, name):
            if name == "_update_callbacks" and sim.cur is not None and not sim.aborting:
                sim.yield_point()
            if name == "_initialized" and sim.cur is not None and not sim.aborting:
                sim.yield_point()
                v = object.__getattribute__(self_, name)
                sim.ev("GetInit", sub=f"{object.__getattribute__(self_, 'id')}", val=bool(v))
                return v
            return object.__getattribute__(self_, name)

        self._set(SB, "__setattr__", sb_setattr)
        self._set(SB, "__getattribute__", sb_getattribute)
        pmr = SB._protocol_message_received

        def pmr2(self_, status, subunit, function_name, value_str):
            if sim.cur is not None and not sim.aborting:
                sim.ev("CbEnter", set="message", item=_cb_label(getattr(self_, "_protocol_message_received")))
            return pmr(self_, status, subunit, function_name, value_str)

        pmr2.__name__ = "_protocol_message_received"
        self._set(SB, "_protocol_message_received", pmr2)

        RT = serial.threaded.ReaderThread

        def rt_setattr(self_, name, value):
            if name == "alive" and sim.cur is not None and not sim.aborting:
                sim.yield_point()
                object.__setattr__(self_, name, value)
                sim.ev("SetAlive", val=bool(value))
                return
            object.__setattr__(self_, name, value)

        self._set(RT, "__setattr__", rt_setattr)
        return self

    def __exit__(self, *a):
        for obj, name, old in reversed(self.saved):
            if old is _MISSING:
                try:
                    delattr(obj, name)
                except Exception:
                    pass
            else:
                setattr(obj, name, old)
        return False


_MISSING = object()


def _attr_val(v):
    if v is None or isinstance(v, (bool, int, str)):
        return v
    return "<obj>"


def install_port(sim, make_port):
    """patch serial.serial_for_url for the duration of a run (call inside main_fn or before run)"""
    import serial

    orig = serial.serial_for_url

    def fake(url, *a, **k):
        return make_port(url)

    serial.serial_for_url = fake
    return lambda: setattr(serial, "serial_for_url", orig)
