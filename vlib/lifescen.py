"""Scenarios and monitors for the life-cycle properties C15 (unexpected disconnect) and C16 (close)."""
from __future__ import annotations

import random

from . import connscen as CS
from . import conntrace as CT
from . import dsim


def gen_life_scenario(rng, tier, kind):
    sc = CS.gen_scenario(rng, tier, allow_delay=True, long_idle=False)
    sc["kind"] = kind
    sc["disc_cb"] = rng.random() < 0.85
    sc["tail_idle"] = rng.choice([0.3, 1.0, 3.0])
    if kind == "fault":
        sc["fault"] = {"at_us": rng.choice([0, 1, 50_000, 100_000, 150_000, rng.randrange(0, 2_500_000)]), "kind": rng.choice(["eof", "err"])}
        if rng.random() < 0.3:
            sc["fault"] = {"after_writes": rng.randrange(0, 8), "kind": rng.choice(["eof", "err"])}
        if "at_us" in sc["fault"] and rng.random() < 0.25:
            sc["fault"]["write_error"] = True
        sc["post_ops"] = [CS.gen_op(rng, False) for _ in range(rng.randrange(0, 5))]
        # the link drops in the middle of a line: bytes received, no CR LF yet
        sc["partial_before_fault"] = rng.random() < 0.3
        # the reader is descheduled right after its drain found the queue empty, while callers keep submitting
        sc["stall_after_drain_us"] = rng.choice([0, 0, 0, 2000, 30000, 60000])
        sc["close_after"] = rng.random() < 0.5
        sc["disc_closes"] = rng.random() < 0.2  # the disconnect callback itself calls close()
    else:
        # close scenarios: who closes, when, how often
        n = len(sc["progs"])
        closers = []
        for _ in range(rng.randrange(1, 4)):
            closers.append({"thread": rng.randrange(0, n + 1), "at": rng.randrange(0, len(sc["progs"][0]) + 1) if sc["progs"][0] else 0, "repeat": rng.choice([1, 1, 2, 3])})
        sc["closers"] = closers
        sc["cb_close_at"] = rng.choice([None, None, 1, 2, 4])  # close() inside the k-th message callback
        sc["second_cb"] = rng.random() < 0.5
        sc["fault"] = None
        if rng.random() < 0.15:
            sc["fault"] = {"at_us": rng.randrange(0, 1_500_000), "kind": "eof"}
        sc["post_ops"] = [CS.gen_op(rng, False) for _ in range(rng.randrange(0, 4))]
        sc["never_connected"] = rng.random() < 0.05
        sc["early_closer"] = rng.random() < 0.2  # a thread that calls close() while connect() may still be in progress
        if rng.random() < 0.15:
            # state "already lost": the link drops first, every close() comes afterwards
            sc["closers"] = []
            sc["cb_close_at"] = None
            sc["early_closer"] = False
            sc["never_connected"] = False
            sc["fault"] = {"at_us": rng.randrange(0, 800_000), "kind": rng.choice(["eof", "err"])}
            sc["lost_first"] = True
    # the same connection object has already been through a complete, planned session (connect, close)
    sc["prior_session"] = rng.random() < 0.2 and not sc.get("early_closer") and not sc.get("never_connected")
    return sc


def run_life_scenario(sc):
    rng = random.Random(sc["seed"])
    s = CT.Session(sc["seed"], respond=CS.make_responder(rng, sc["mode"]), latency_us=sc["latency_us"], log_size=sc["log_size"], switch_prob=sc["switch_prob"], delay_prob=sc["delay_prob"], max_delay_us=50000, choices=sc.get("choices"))
    s.sim.stall_after_empty_us = sc.get("stall_after_drain_us", 0)
    s.close_calls = []  # dict(thread, start_idx, end_idx, exc)
    s.user_cb = []  # (event index, kind)
    s.connected_reads = []
    s.mid_logs = []

    def do_close(c):
        rec = {"thread": s.sim.cur.name, "start_idx": len(s.sim.events), "end_idx": None, "exc": None, "after_connect": bool(getattr(s, "connect_returned", False))}
        s.close_calls.append(rec)
        try:
            c.close()
        except dsim.SimAbort:
            raise
        except BaseException as e:  # noqa
            rec["exc"] = f"{type(e).__name__}: {e}"
        rec["end_idx"] = len(s.sim.events)

    def body(s):
        from ynca.connection import YncaConnection

        c = YncaConnection("sim://")
        s.conn = c
        ndeliv = [0]

        def cb1(st, sub, f, v):
            s.user_cb.append((len(s.sim.events), "message1"))
            s.deliveries.append((s.sim.now, st.name, None if sub is None and f is None and v is None else (sub, f, v)))
            ndeliv[0] += 1
            if sc.get("cb_close_at") and ndeliv[0] == sc["cb_close_at"]:
                do_close(c)

        def cb2(st, sub, f, v):
            s.user_cb.append((len(s.sim.events), "message2"))

        def dcb():
            s.user_cb.append((len(s.sim.events), "disconnect"))
            s.disconnects.append(s.sim.now)
            if sc.get("disc_closes"):
                do_close(c)

        c.register_message_callback(cb1)
        if sc.get("second_cb"):
            c.register_message_callback(cb2)
        if sc.get("never_connected"):
            do_close(c)
            c.put("MAIN", "VOL", "Up")
            return
        if sc.get("prior_session"):
            # an earlier, planned session on the same object; the trace of the session under test starts afterwards
            c.connect(dcb if sc["disc_cb"] else None, sc["log_size"])
            s.sleep(0.7)
            c.close()
            s.sleep(0.3)
            s.prior = {"disconnects": len(s.disconnects), "threads_done": all(t.state == "done" for t in s.sim.threads if t.name in ("reader", "sender"))}
            del s.disconnects[:]
            del s.user_cb[:]
            del s.deliveries[:]
            del s.sim.events[:]
            ndeliv[0] = 0
        early = None
        if sc.get("early_closer"):
            early = s.sim.spawn(lambda: do_close(c), "caller9")
        try:
            c.connect(dcb if sc["disc_cb"] else None, sc["log_size"])
        except dsim.SimAbort:
            raise
        except BaseException as e:  # noqa: closed while connecting
            s.errors.append(("main", type(e).__name__, str(e)[:120]))
            if early:
                early.join()
            return
        s.connect_returned = True
        f = sc.get("fault")
        if f:
            if "at_us" in f:
                if sc.get("partial_before_fault"):
                    s.dev.emit_at(max(0, f["at_us"] - 2000), b"@MAIN:VOL=-12.5", cause=None)
                s.dev.fault_at(f["at_us"], f["kind"])
            else:
                k = f["after_writes"]
                orig = s.dev.on_write

                def on_write(data, idx, orig=orig):
                    orig(data, idx)
                    if idx + 1 >= k:
                        s.dev.fault(f["kind"])

                s.dev.on_write = on_write
            if f.get("write_error"):
                s.port.write_error_at = 10**9  # set at fault time

                def arm():
                    s.port.write_error_at = len(s.port.writes)

                s.sim.at(f.get("at_us", 0), arm)
        progs = [list(p) for p in sc["progs"]]
        for cl in sc.get("closers", []):
            if cl["thread"] >= 1:
                p = progs[cl["thread"] - 1]
                p.insert(min(cl["at"], len(p)), ("close", cl["repeat"]))

        def runprog(prog):
            for op in prog:
                if op[0] == "close":
                    for _ in range(op[1]):
                        do_close(c)
                else:
                    try:
                        s.submit(op)
                    except dsim.SimAbort:
                        raise
                    except BaseException as e:  # noqa
                        s.errors.append((s.sim.cur.name, type(e).__name__, str(e)[:120]))

        ths = [s.sim.spawn(lambda p=p: runprog(p), f"caller{i + 1}") for i, p in enumerate(progs)]
        for cl in sc.get("closers", []):
            if cl["thread"] == 0:
                s.sleep(0.05 * cl["at"])
                for _ in range(cl["repeat"]):
                    do_close(c)
        for t in ths:
            t.join()
        s.sleep(sc["tail_idle"])
        if sc["kind"] == "fault" and not s.dev.dead:
            s.dev.fault(sc["fault"]["kind"])
            s.sleep(3.0)
        s.connected_reads.append((len(s.sim.events), bool(c.connected)))
        for op in sc.get("post_ops", []):
            try:
                s.submit(op)
            except dsim.SimAbort:
                raise
            except BaseException as e:  # noqa
                s.errors.append(("post", type(e).__name__, str(e)[:120]))
        s.sleep(0.5)
        s.connected_reads.append((len(s.sim.events), bool(c.connected)))
        if sc["kind"] == "close" or sc.get("close_after"):
            do_close(c)
            do_close(c)

    s.run(body)
    return s


def _idx(ev, pred, start=0):
    for i in range(start, len(ev)):
        if pred(ev[i]):
            return i
    return None


def mon_c15(s, sc):
    ev = s.sim.events
    i_fault = _idx(ev, lambda e: e["k"] == "DevFault")
    if i_fault is None:
        return None
    first_close = min([c["start_idx"] for c in s.close_calls], default=None)
    i_lost = _idx(ev, lambda e: e["k"] == "Set" and e.get("attr") == "connected" and e["val"] is False and e["th"] == "reader", _idx(ev, lambda e: e["k"] == "Set" and e.get("attr") == "connected" and e["val"] is True) or 0)
    if i_lost is None:
        return "the reader never noticed the fault (connection_lost did not run)"
    if len(s.disconnects) > 1:
        return f"disconnect callback invoked {len(s.disconnects)} times"
    closed_before = first_close is not None and first_close < (_idx(ev, lambda e: e["k"] == "Get" and e.get("attr") == "_disconnect_callback", i_lost) or len(ev))
    if sc["disc_cb"] and not closed_before and len(s.disconnects) != 1:
        return f"disconnect callback invoked {len(s.disconnects)} times after a transport fault (expected exactly once)"
    if not sc["disc_cb"] and s.disconnects:
        return "a disconnect callback fired although none was supplied"
    for idx, val in s.connected_reads:
        if idx > i_lost and val:
            return "connected still reports True after the disconnect"
    # queued commands are discarded: once the drain has found the queue empty, the only things that can
    # still be written are the item the sender holds at that moment and items submitted afterwards
    i_drain_end = _idx(ev, lambda e: e["k"] == "DeqEmpty" and e.get("nowait") and e["th"] == "reader", i_lost)
    if i_drain_end is not None:
        pend = 0
        for e in ev[:i_drain_end]:
            if e["th"] == "sender":
                if e["k"] == "Deq" and (e.get("marker") is None or "KEEP" in e["marker"]):
                    pend = 1
                elif e["k"] in ("Write", "WriteErr"):
                    pend = 0
        # commands submitted AFTER the connection reported itself not connected are calls on a dead connection: silent
        # no-ops.  Only a call that had looked at `connected` before the loss may still get its command queued.
        inflight = 0
        for i in range(i_drain_end, len(ev)):
            e = ev[i]
            if e["k"] == "Enq" and (e.get("marker") is None or "KEEP" in (e.get("marker") or "")):
                if e["th"] in ("reader", "sender"):
                    inflight += 1  # the library's own keep-alive marker
                    continue
                look = next((j for j in range(i - 1, -1, -1) if ev[j]["th"] == e["th"] and ev[j]["k"] == "Get" and ev[j].get("attr") == "connected"), None)
                if look is not None and look < i_lost:
                    inflight += 1
        writes_after = [e for e in ev[i_drain_end:] if e["k"] == "Write"]
        if len(writes_after) > pend + inflight:
            return f"lines were written after connection_lost had emptied the queue ({len(writes_after)}) although only {pend} was in the sender's hand and {inflight} submission(s) had begun before the loss: commands queued at the loss or submitted on the dead connection were written instead of discarded"
        drained = [e["item"] for e in ev[i_lost:i_drain_end] if e["k"] == "Deq" and e.get("nowait") and e["th"] == "reader"]
        s.n_drained = len(drained)
    i_dcb = _idx(ev, lambda e: e["k"] == "DisconnectCb")
    if i_dcb is not None:
        if any(e["k"] == "Write" for e in ev[i_dcb:]):
            return "a line was written after the disconnect callback had been invoked"
        late = [k for i, k in s.user_cb if i > i_dcb and k.startswith("message")]
        if late:
            return "a message callback was invoked after the disconnect callback"
    for t in s.sim.threads:
        if t.name in ("reader", "sender") and t.state != "done":
            return f"the {t.name} thread did not terminate"
    if s.errors:
        return f"an API call on the dead connection raised: {s.errors[0]}"
    for c in s.close_calls:
        if c["exc"]:
            return f"close() raised {c['exc']}"
    return None


def mon_c16(s, sc):
    ev = s.sim.events
    for c in s.close_calls:
        if c["exc"]:
            return f"close() on thread {c['thread']} raised {c['exc']}"
    if not sc.get("fault") and s.disconnects:
        return "the disconnect callback was invoked by a planned close() on a healthy link"
    # a close() that found no reader thread yet (connect() not far enough) is a close before connecting
    returned = [c["end_idx"] for c in s.close_calls if c["end_idx"] is not None and (c.get("after_connect") or any(e["k"] == "PortClose" and e["th"] == c["thread"] for e in ev[c["start_idx"] : c["end_idx"]]))]
    if s.sim.failure is not None:
        return None
    if returned and s.port is not None:
        r0 = min(returned)
        if any(e["k"] == "Write" for e in ev[r0:]):
            return "a line was written to the device after close() had returned"
        late = [k for i, k in s.user_cb if i > r0]
        if late:
            return f"a {late[0]} callback was started after close() had returned"
        if s.port.is_open:
            return "the transport is still open after close() returned"
        for t in s.sim.threads:
            if t.name in ("reader", "sender") and t.state != "done":
                return f"the {t.name} thread did not terminate after close()"
    errs = [e for e in s.errors if e[1] not in ("YncaConnectionFailed", "YncaConnectionError")]  # connect() may fail when closed while connecting
    if errs:
        return f"an API call raised: {errs[0]}"
    return None
