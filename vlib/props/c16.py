"""C16 -- close() is safe at any time, from any thread, any number of times."""
from .. import lifescen as LS
from .life_common import replay_life, run_life_check

CORPUS = [
    # close() inside the first message callback (reader thread), a second callback registered
    {"progs": [[("get", "MAIN", "VOL"), ("get", "MAIN", "INP"), ("put", "MAIN", "VOL", "-30.0")]], "mode": "answer", "latency_us": 20000, "log_size": 0, "tail_idle": 1.0,
     "switch_prob": 0.3, "delay_prob": 0, "unsolicited": False, "seed": 5, "read_log_midway": False, "kind": "close", "disc_cb": True, "closers": [], "cb_close_at": 1,
     "second_cb": True, "fault": None, "post_ops": [("put", "MAIN", "VOL", "1")], "never_connected": False},
    # a message arrives before connect() has returned and its callback closes the connection
    {"progs": [[("get", "MAIN", "VOL")]], "mode": "flood", "latency_us": 0, "log_size": 1, "tail_idle": 3.0, "switch_prob": 0.6, "delay_prob": 0, "unsolicited": True, "seed": 161851920,
     "read_log_midway": False, "kind": "close", "disc_cb": True, "closers": [], "cb_close_at": 1, "second_cb": False, "fault": None, "post_ops": [], "never_connected": False},
    # another thread closes while connect() is in progress
    {"progs": [[("get", "MAIN", "VOL")]], "mode": "answer", "latency_us": 20000, "log_size": 0, "tail_idle": 1.0, "switch_prob": 0.6, "delay_prob": 0, "unsolicited": False, "seed": 77,
     "read_log_midway": False, "kind": "close", "disc_cb": True, "closers": [], "cb_close_at": None, "second_cb": False, "fault": None, "post_ops": [], "never_connected": False, "early_closer": True},
]


def api_close_sessions(chk):
    """YncaApi / subunit close(): concurrently from two threads, repeatedly, and from inside an update callback"""
    import random

    from .. import apiscen as AS
    from .. import dsim
    from ..subharness import class_info

    infos, _ = class_info()
    rng = random.Random(chk.seed + 1600)
    n = 40 if chk.tier == "quick" else 600
    for k in range(n):
        rx, present = AS.synthetic_receiver(random.Random(rng.randrange(1 << 30)), [x for x in infos if x[1] in ("SYS", "MAIN", "ZONE2", "TUN", "NETRADIO")])
        mode = rng.choice(["two-threads", "two-threads", "in-update-callback", "three-times", "during-init"])
        case = {"mode": mode, "seed": rng.randrange(1 << 30), "switch_prob": rng.choice([0.3, 0.6, 0.9]), "dev_seed": k}
        s = AS.ApiSession(case["seed"], rx, latency_us=20000, switch_prob=case["switch_prob"])
        errs = []
        late_cb = []

        closes = []

        def do_close(api, tag):
            live = s.port is not None and s.port.is_open  # the transport was open when this close() started
            try:
                api.close()
            except dsim.SimAbort:
                raise
            except BaseException as e:  # noqa
                errs.append((tag, type(e).__name__, str(e)[:100]))
            closes.append((tag, live, len(s.sim.events)))

        def body(s):
            api = s.make_api()
            if mode == "during-init":
                t = s.sim.spawn(lambda: (s.sleep(rng.choice([0.05, 0.7, 3.0, 8.0])), do_close(api, "other")), "caller1")
                s.call(api.initialize)
                t.join()
                do_close(api, "main")
                return
            s.call(api.initialize)
            if s.exc is not None:
                return
            closed_at = []
            if mode == "in-update-callback" and api.main is not None:
                def cb(f, v):
                    if closed_at:
                        late_cb.append((f, v))
                    do_close(api, "callback")
                    closed_at.append(s.sim.now)
                api.main.register_update_callback(cb)
                api.main.register_update_callback(lambda f, v: late_cb.append((f, v)) if closed_at else None)
                s.dev.emit_at(s.sim.now + 1000, b"@MAIN:VOL=-20.0\r\n@MAIN:MUTE=On\r\n")
                s.sleep(1.0)
                do_close(api, "main")
            elif mode == "three-times":
                for i in range(3):
                    do_close(api, f"main{i}")
            else:
                ts = [s.sim.spawn(lambda i=i: do_close(api, f"t{i}"), f"caller{i + 1}") for i in range(2)]
                for t in ts:
                    t.join()
            s.sleep(1.0)

        s.run(body)
        chk.count_case({"api_close": case}, True)
        rep = {"api_close_case": case}
        if s.sim.failure is not None:
            chk.violation("C16:api-no-termination", f"YncaApi.close() session never came to rest: {s.sim.failure}", rep)
        elif errs:
            chk.violation("C16:api-concurrent-close" if mode == "two-threads" else "C16:api-close-raised", f"YncaApi.close() ({mode}) raised: {errs[0]}", rep)
        elif s.disconnects:
            chk.violation("C16:api-disconnect-reported", f"the disconnect callback was invoked by a planned YncaApi.close() ({mode})", rep)
        elif late_cb:
            chk.violation("C16:api-callback-after-close", f"an update callback was started after close() had returned ({mode}): {late_cb[0]}", rep)
        elif any(live and any(e["k"] == "Write" for e in s.sim.events[idx:]) for tag, live, idx in closes):
            tag = next(tag for tag, live, idx in closes if live and any(e["k"] == "Write" for e in s.sim.events[idx:]))
            chk.violation("C16:api-write-after-close", f"lines were written to the device after YncaApi.close() ({mode}, called on an open transport by {tag}) had returned", rep)
        elif s.port is not None and (s.port.is_open or not s.threads_done()):
            chk.violation("C16:api-not-released", f"after YncaApi.close() ({mode}) port open={s.port.is_open}, threads={[(t.name, t.state) for t in s.sim.threads]}", rep)


def reconnect_sessions(chk):
    """close() inside a message callback, and the same object connected again before that callback has returned
    (from inside the callback, or by another thread while the callback is still busy): the old reader thread winds
    down only afterwards, and its planned end must not be reported as a disconnect of the new session"""
    import random

    from .. import connscen as CS
    from .. import conntrace as CT
    from .. import dsim

    rng = random.Random(chk.seed + 1616)
    n = 30 if chk.tier == "quick" else 500
    traces = []
    for k in range(n):
        case = {"mode": rng.choice(["connect-in-callback", "connect-by-other-thread"]), "seed": rng.randrange(1 << 30), "switch_prob": rng.choice([0.05, 0.3, 0.6]),
                "busy_s": rng.choice([0.0, 0.05, 0.5]), "latency_us": rng.choice([0, 20000, 150000]), "log_size": rng.choice([0, 5])}
        s = CT.Session(case["seed"], respond=CS.make_responder(random.Random(case["seed"]), "answer"), latency_us=case["latency_us"], switch_prob=case["switch_prob"])
        errs = []
        state = {"closed": False, "go": False, "reconnected": False}

        def body(s, case=case, errs=errs, state=state):
            from ynca.connection import YncaConnection

            c = YncaConnection("sim://")
            s.conn = c

            def dcb():
                s.disconnects.append(s.sim.now)

            def guarded(tag, fn):
                try:
                    fn()
                except dsim.SimAbort:
                    raise
                except BaseException as e:  # noqa
                    errs.append((tag, type(e).__name__, str(e)[:100]))

            def cb(st, sub, f, v):
                if state["closed"]:
                    return
                state["closed"] = True
                guarded("close-in-callback", c.close)
                if case["mode"] == "connect-in-callback":
                    guarded("connect-in-callback", lambda: c.connect(dcb, case["log_size"]))
                    state["reconnected"] = True
                else:
                    state["go"] = True
                    s.sleep(case["busy_s"] + 0.01)

            def other():
                while not state["go"]:
                    s.sleep(0.005)
                guarded("connect-by-other-thread", lambda: c.connect(dcb, case["log_size"]))
                state["reconnected"] = True

            c.register_message_callback(cb)
            c.connect(dcb, case["log_size"])
            t = s.sim.spawn(other, "caller1") if case["mode"] == "connect-by-other-thread" else None
            c.get("MAIN", "VOL")
            s.sleep(2.0)
            if t is not None:
                state["go"] = True
                t.join()
            s.sleep(1.0)
            state["connected_after"] = bool(c.connected)
            guarded("final-close", c.close)
            s.sleep(0.5)

        s.run(body)
        chk.count_case({"reconnect": case}, True)
        rep = {"reconnect_case": case}
        if s.sim.failure is None:
            traces.append((case, project_reconnect(s.sim.events), len(s.disconnects)))
        if s.sim.failure is not None:
            chk.violation("C16:reconnect-no-termination", f"close() in a callback followed by connect() ({case['mode']}) never came to rest: {s.sim.failure}", rep)
        elif [e for e in errs if "close" in e[0]]:
            chk.violation("C16:reconnect-close-raised", f"close() raised ({case['mode']}): {[e for e in errs if 'close' in e[0]][0]}", rep)
        elif s.disconnects:
            chk.violation("C16:reconnect-disconnect-reported", f"the disconnect callback was invoked {len(s.disconnects)} time(s) although the link was healthy throughout: a planned close() inside a message callback, then connect() on the same object ({case['mode']}) before the callback returned", rep)
        elif any(t.state != "done" for t in s.sim.threads):
            chk.violation("C16:reconnect-not-released", f"after the final close() threads are still running: {[(t.name, t.state) for t in s.sim.threads if t.state != 'done']}", rep)


    return traces


def other_connection_sessions(chk):
    """a connection with message callbacks is closed; afterwards ANOTHER connection of the same process is opened and its
    device talks: none of the closed connection's callbacks may be started (and nothing it registered may have gone lost
    on the other one)"""
    import random

    from .. import connscen as CS
    from .. import conntrace as CT

    rng = random.Random(chk.seed + 1617)
    for k in range(12 if chk.tier == "quick" else 200):
        case = {"seed": rng.randrange(1 << 30), "switch_prob": rng.choice([0.05, 0.3, 0.6]), "close_in_callback": rng.random() < 0.4, "latency_us": rng.choice([0, 20000, 150000])}
        s = CT.Session(case["seed"], respond=CS.make_responder(random.Random(case["seed"]), "answer"), latency_us=case["latency_us"], switch_prob=case["switch_prob"])
        calls = []
        state = {"closed_at": None}

        def body(s, case=case, calls=calls, state=state):
            c = s.connect()

            def cb(st, sub, f, v):
                calls.append((len(s.sim.events), sub, f, v))
                if case["close_in_callback"] and state["closed_at"] is None:
                    c.close()
                    state["closed_at"] = len(calls)

            c.register_message_callback(cb)
            c.get("MAIN", "VOL")
            s.sleep(1.0)
            if state["closed_at"] is None:
                c.close()
                state["closed_at"] = len(calls)
            s.sleep(0.3)
            stop = s.start_decoy(random.Random(case["seed"] + 1))
            s.sleep(3.0)
            stop()

        s.run(body)
        chk.count_case({"other_connection": case}, True)
        rep = {"other_connection_case": case}
        if s.sim.failure is not None:
            chk.violation("C16:other-connection-no-termination", f"the session never came to rest: {s.sim.failure}", rep)
        elif state["closed_at"] is not None and len(calls) > state["closed_at"]:
            late = calls[state["closed_at"]]
            chk.violation("C16:callback-after-close", f"a message callback of a connection was started after its close() had returned: it was invoked with {late[1:]!r}, a line another connection of the process received later", rep)
        elif getattr(s, "decoy_sent", None) and not getattr(s, "decoy_deliveries", None):
            chk.violation("C16:close-damaged-other-connection", "after close() of one connection, another connection opened later delivered nothing to its own callback although its device answered", rep)


def project_reconnect(events):
    """the steps of Model/Reconnect.v in a recorded session: close() of the first session (the flag set), connect()
    re-arming the flag, the OLD reader's connection_lost reading the protocol's callback and calling it; up to the final
    close() of the second session"""
    acts, seen_close, old_read, got = [], 0, False, None
    for e in events:
        k = e["k"]
        if k == "SetClosed":
            seen_close += 1
            if seen_close > 1:
                break
            acts.append("RClose")
        elif k == "ClosedReset":
            acts.append("RConnect")
        elif k == "Get" and e.get("attr") == "_disconnect_callback" and e["th"].startswith("reader") and seen_close and not old_read:
            old_read = True
            got = e.get("val") is not None
            acts += ["ROldRead", "ROldCall"]
        elif k == "DisconnectCb" and old_read:
            acts.append("ROldWrapper")
    return acts, got


def reconnect_correspondence(chk, traces):
    """replay the recorded two-session traces in Model/Reconnect.v with the regenerated flags"""
    from .. import coqio
    from ..common import run_cases

    if not traces or any(b["obligation"].startswith(("translator", "compile", "proof")) for b in chk.broken):
        return 0
    lines = [coqio.CASES_HEADER, "From Ynca Require Import Model.Reconnect Proofs.ReconnectFacts.\nOpen Scope nat_scope.\n"]
    for i, (case, (acts, got), ndisc) in enumerate(traces):
        lines.append(f"Definition tr{i} : list ract := [" + "; ".join(acts) + "].")
    lines.append(
        "Definition go (tr : list ract) : list N :=\n"
        "  let '(s, d) := rrun_diag gen_rcfg rinit tr O in\n"
        "  ((match d with None => [0%N] | Some n => [1%N; N.of_nat n] end) ++ [N.of_nat (r_user_calls s); (if r_old_cb s then 1%N else 0%N)] ++ [END; END2])%list.\n"
    )
    lines.append("Eval vm_compute in (" + " ++ ".join(f"go tr{i}" for i in range(len(traces))) + ")%list.\n")
    ok, out = run_cases("c16_reconnect", "\n".join(lines))
    if not ok:
        chk.obligation_broken("cases c16_reconnect", out[-800:])
        return 0
    res = coqio.parse_flat2(out)
    good = 0
    nb = 0
    for (case, (acts, got), ndisc), items in zip(traces, res):
        t = items[0]
        d = None
        if t[0] != 0:
            d = f"the model refuses step #{t[1]} of {acts}"
            rest = t[2:]
        else:
            rest = t[1:]
        if d is None and rest[0] != ndisc:
            d = f"user disconnect callbacks: model {rest[0]} vs implementation {ndisc} for {acts}"
        if d is None and got is not None and bool(rest[1]) != got:
            d = f"the old protocol's callback when its reader ended: model {'set' if rest[1] else 'cleared'} vs implementation {'set' if got else 'cleared'} for {acts}"
        if d is None:
            good += 1
        else:
            nb += 1
            if nb <= 3:
                chk.obligation_broken(f"correspondence reconnect replay (seed {case['seed']})", d[:500])
    chk.cov["reconnect_traces_validated"] = good
    return good


def run(chk):
    chk.build("Properties/C16.v")  # the two-session traces below are replayed in the compiled model
    api_close_sessions(chk)
    other_connection_sessions(chk)
    tr = reconnect_sessions(chk)
    reconnect_correspondence(chk, tr)
    return run_life_check(
        chk, "C16", "Properties/C16.v", "close", LS.mon_c16, 400, 8000,
        "states x calling thread x repetitions x schedules: close() from the main thread and from 1-4 caller threads at random points of a command burst, 1-3 times each, concurrently; "
        "close() inside the k-th message callback (reader thread) with a second callback registered; never-connected connections; occasionally a transport fault as well; further API calls afterwards. "
        "distinct by scenario; non-trivial = at least one close() call and more than 30 events.",
        corpus=CORPUS,
        assumptions=["user callbacks return promptly (no virtual time passes inside them), so a join of the reader thread succeeds before its 2 s time-out"],
    )


def replay(path):
    return replay_life(path, LS.mon_c16)
