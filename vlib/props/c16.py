"""C16 -- close() is safe at any time, from any thread, any number of times."""
from .. import lifescen as LS
from .life_common import replay_life, run_life_check

CORPUS = [
    # close() inside the first message callback (reader thread), a second callback registered
    {"progs": [[("get", "MAIN", "VOL"), ("get", "MAIN", "INP"), ("put", "MAIN", "VOL", "-30.0")]], "mode": "answer", "latency_us": 20000, "log_size": 0, "tail_idle": 1.0,
     "switch_prob": 0.3, "delay_prob": 0, "unsolicited": False, "seed": 5, "read_log_midway": False, "kind": "close", "disc_cb": True, "closers": [], "cb_close_at": 1,
     "second_cb": True, "fault": None, "post_ops": [("put", "MAIN", "VOL", "1")], "never_connected": False},
    # a message arrives before connect() has returned and its callback closes the connection
    {"progs": [[("get", "MAIN", "VOL")]], "mode": "flood", "latency_us": 0, "log_size": 1, "tail_idle": 3.0, "switch_prob": 0.6, "delay_prob": 0, "unsolicited": True, "seed": 161851920,
     "read_log_midway": False, "kind": "close", "disc_cb": True, "closers": [], "cb_close_at": 1, "second_cb": False, "fault": None, "post_ops": [], "never_connected": False},
    # another thread closes while connect() is in progress
    {"progs": [[("get", "MAIN", "VOL")]], "mode": "answer", "latency_us": 20000, "log_size": 0, "tail_idle": 1.0, "switch_prob": 0.6, "delay_prob": 0, "unsolicited": False, "seed": 77,
     "read_log_midway": False, "kind": "close", "disc_cb": True, "closers": [], "cb_close_at": None, "second_cb": False, "fault": None, "post_ops": [], "never_connected": False, "early_closer": True},
]


def run(chk):
    return run_life_check(
        chk, "C16", "Properties/C16.v", "close", LS.mon_c16, 400, 8000,
        "states x calling thread x repetitions x schedules: close() from the main thread and from 1-4 caller threads at random points of a command burst, 1-3 times each, concurrently; "
        "close() inside the k-th message callback (reader thread) with a second callback registered; never-connected connections; occasionally a transport fault as well; further API calls afterwards. "
        "distinct by scenario; non-trivial = at least one close() call and more than 30 events.",
        corpus=CORPUS,
        assumptions=["user callbacks return promptly (no virtual time passes inside them), so a join of the reader thread succeeds before its 2 s time-out"],
    )


def replay(path):
    return replay_life(path, LS.mon_c16)
