"""C16 -- close() is safe at any time, from any thread, any number of times."""
from .. import lifescen as LS
from .life_common import replay_life, run_life_check

CORPUS = [
    # close() inside the first message callback (reader thread), a second callback registered
    {"progs": [[("get", "MAIN", "VOL"), ("get", "MAIN", "INP"), ("put", "MAIN", "VOL", "-30.0")]], "mode": "answer", "latency_us": 20000, "log_size": 0, "tail_idle": 1.0,
     "switch_prob": 0.3, "delay_prob": 0, "unsolicited": False, "seed": 5, "read_log_midway": False, "kind": "close", "disc_cb": True, "closers": [], "cb_close_at": 1,
     "second_cb": True, "fault": None, "post_ops": [("put", "MAIN", "VOL", "1")], "never_connected": False},
    # a message arrives before connect() has returned and its callback closes the connection
    {"progs": [[("get", "MAIN", "VOL")]], "mode": "flood", "latency_us": 0, "log_size": 1, "tail_idle": 3.0, "switch_prob": 0.6, "delay_prob": 0, "unsolicited": True, "seed": 161851920,
     "read_log_midway": False, "kind": "close", "disc_cb": True, "closers": [], "cb_close_at": 1, "second_cb": False, "fault": None, "post_ops": [], "never_connected": False},
    # another thread closes while connect() is in progress
    {"progs": [[("get", "MAIN", "VOL")]], "mode": "answer", "latency_us": 20000, "log_size": 0, "tail_idle": 1.0, "switch_prob": 0.6, "delay_prob": 0, "unsolicited": False, "seed": 77,
     "read_log_midway": False, "kind": "close", "disc_cb": True, "closers": [], "cb_close_at": None, "second_cb": False, "fault": None, "post_ops": [], "never_connected": False, "early_closer": True},
]


def api_close_sessions(chk):
    """YncaApi / subunit close(): concurrently from two threads, repeatedly, and from inside an update callback"""
    import random

    from .. import apiscen as AS
    from .. import dsim
    from ..subharness import class_info

    infos, _ = class_info()
    rng = random.Random(chk.seed + 1600)
    n = 40 if chk.tier == "quick" else 600
    for k in range(n):
        rx, present = AS.synthetic_receiver(random.Random(rng.randrange(1 << 30)), [x for x in infos if x[1] in ("SYS", "MAIN", "ZONE2", "TUN", "NETRADIO")])
        mode = rng.choice(["two-threads", "two-threads", "in-update-callback", "three-times", "during-init"])
        case = {"mode": mode, "seed": rng.randrange(1 << 30), "switch_prob": rng.choice([0.3, 0.6, 0.9]), "dev_seed": k}
        s = AS.ApiSession(case["seed"], rx, latency_us=20000, switch_prob=case["switch_prob"])
        errs = []
        late_cb = []

        closes = []

        def do_close(api, tag):
            live = s.port is not None and s.port.is_open  # the transport was open when this close() started
            try:
                api.close()
            except dsim.SimAbort:
                raise
            except BaseException as e:  # noqa
                errs.append((tag, type(e).__name__, str(e)[:100]))
            closes.append((tag, live, len(s.sim.events)))

        def body(s):
            api = s.make_api()
            if mode == "during-init":
                t = s.sim.spawn(lambda: (s.sleep(rng.choice([0.05, 0.7, 3.0, 8.0])), do_close(api, "other")), "caller1")
                s.call(api.initialize)
                t.join()
                do_close(api, "main")
                return
            s.call(api.initialize)
            if s.exc is not None:
                return
            closed_at = []
            if mode == "in-update-callback" and api.main is not None:
                def cb(f, v):
                    if closed_at:
                        late_cb.append((f, v))
                    do_close(api, "callback")
                    closed_at.append(s.sim.now)
                api.main.register_update_callback(cb)
                api.main.register_update_callback(lambda f, v: late_cb.append((f, v)) if closed_at else None)
                s.dev.emit_at(s.sim.now + 1000, b"@MAIN:VOL=-20.0\r\n@MAIN:MUTE=On\r\n")
                s.sleep(1.0)
                do_close(api, "main")
            elif mode == "three-times":
                for i in range(3):
                    do_close(api, f"main{i}")
            else:
                ts = [s.sim.spawn(lambda i=i: do_close(api, f"t{i}"), f"caller{i + 1}") for i in range(2)]
                for t in ts:
                    t.join()
            s.sleep(1.0)

        s.run(body)
        chk.count_case({"api_close": case}, True)
        rep = {"api_close_case": case}
        if s.sim.failure is not None:
            chk.violation("C16:api-no-termination", f"YncaApi.close() session never came to rest: {s.sim.failure}", rep)
        elif errs:
            chk.violation("C16:api-concurrent-close" if mode == "two-threads" else "C16:api-close-raised", f"YncaApi.close() ({mode}) raised: {errs[0]}", rep)
        elif s.disconnects:
            chk.violation("C16:api-disconnect-reported", f"the disconnect callback was invoked by a planned YncaApi.close() ({mode})", rep)
        elif late_cb:
            chk.violation("C16:api-callback-after-close", f"an update callback was started after close() had returned ({mode}): {late_cb[0]}", rep)
        elif any(live and any(e["k"] == "Write" for e in s.sim.events[idx:]) for tag, live, idx in closes):
            tag = next(tag for tag, live, idx in closes if live and any(e["k"] == "Write" for e in s.sim.events[idx:]))
            chk.violation("C16:api-write-after-close", f"lines were written to the device after YncaApi.close() ({mode}, called on an open transport by {tag}) had returned", rep)
        elif s.port is not None and (s.port.is_open or not s.threads_done()):
            chk.violation("C16:api-not-released", f"after YncaApi.close() ({mode}) port open={s.port.is_open}, threads={[(t.name, t.state) for t in s.sim.threads]}", rep)


def run(chk):
    api_close_sessions(chk)
    return run_life_check(
        chk, "C16", "Properties/C16.v", "close", LS.mon_c16, 400, 8000,
        "states x calling thread x repetitions x schedules: close() from the main thread and from 1-4 caller threads at random points of a command burst, 1-3 times each, concurrently; "
        "close() inside the k-th message callback (reader thread) with a second callback registered; never-connected connections; occasionally a transport fault as well; further API calls afterwards. "
        "distinct by scenario; non-trivial = at least one close() call and more than 30 events.",
        corpus=CORPUS,
        assumptions=["user callbacks return promptly (no virtual time passes inside them), so a join of the reader thread succeeds before its 2 s time-out"],
    )


def replay(path):
    return replay_life(path, LS.mon_c16)
