"""C02 -- received bytes are framed and parsed identically however they are chunked."""
from __future__ import annotations

import itertools
import json
import random

from .. import coqio
from ..common import Check, cbytes, run_cases_sharded
from ..translate import recordings

PROP_FILE = "Properties/C02.v"


def impl_run(chunks):
    """Feed chunks to a real YncaProtocol (no threads); returns (deliveries, remaining buffer) or ('raise', name)."""
    from ynca.connection import YncaProtocol

    got = []
    p = YncaProtocol(message_callback=lambda st, s, f, v: got.append((st.name, None if s is None and f is None and v is None else (s, f, v))))
    try:
        for c in chunks:
            p.data_received(c)
    except Exception as e:  # noqa
        return ("raise", type(e).__name__, got)
    return ("ok", got, bytes(p.buffer))


def reference(stream: bytes):
    """Three-line reference splitter from the property text: complete lines and the trailing rest."""
    parts = stream.split(b"\r\n")
    return parts[:-1], parts[-1]


def expected_for(line_text: str):
    """What the property prescribes for a line, or None where it prescribes nothing."""
    if line_text == "@UNDEFINED":
        return ("UNDEFINED", None)
    if line_text == "@RESTRICTED":
        return ("RESTRICTED", None)
    if line_text.startswith("@"):
        i = line_text.find(":")
        if i >= 2:
            j = line_text.find("=", i + 1)
            if j >= i + 2:
                return ("OK", (line_text[1:i], line_text[i + 1 : j], line_text[j + 1 :]))
    return None


def partitions_random(rng, stream, n):
    res = []
    L = len(stream)
    for _ in range(n):
        k = rng.choice([1, 2, 3, 5, 8, max(1, L // 3)])
        cuts = sorted(set(rng.randrange(0, L + 1) for _ in range(k))) if L else []
        prev, chunks = 0, []
        for c in cuts + [L]:
            chunks.append(stream[prev:c])
            prev = c
        res.append([c for c in chunks])
    # a few bytes first, the whole rest in ONE large read (a slow start followed by a burst)
    if L > 12:
        k = rng.randrange(1, 12)
        res.append([stream[:k], stream[k:]])
    # cuts inside every CR LF and inside multi-byte characters
    cuts = [i + 1 for i in range(L - 1) if stream[i : i + 2] == b"\r\n"] + [i for i in range(L) if 0x80 <= stream[i] < 0xC0]
    if cuts:
        cuts = sorted(set(cuts))
        prev, chunks = 0, []
        for c in cuts + [L]:
            chunks.append(stream[prev:c])
            prev = c
        res.append(chunks)
    res.append([stream[i : i + 1] for i in range(L)])  # all singletons
    res.append([stream])  # one chunk
    return res


def gen_line(rng, recorded):
    r = rng.random()
    if r < 0.35 and recorded:
        return rng.choice(recorded).encode("utf-8"), "recorded"
    if r < 0.75:
        S = rng.choice(["MAIN", "SYS", "ZONE2", "TUN", "A", "Z9", "NETRADIO", "é", "名"])
        F = rng.choice(["VOL", "INP", "ZONENAME", "SONG", "X", "3DCINEMA", "F:G", "ü"])
        V = rng.choice(
            ["", "?", "-30.5", "On", "a=b", "a:b=c:d", "=", ":", "@x:y=z", "Zone2   ß", "\U0001f600 music", "日本語", "tab\there", "a\nb", "\n", "a\rb", "x" * rng.randrange(0, 300), "y" * rng.choice([0, 700, 1100, 1500, 2600]), " lead", "trail ", "@UNDEFINED"]
        )
        return f"@{S}:{F}={V}".encode("utf-8"), "sfv"
    if r < 0.82:
        return rng.choice([b"@UNDEFINED", b"@RESTRICTED", b"@UNDEFINED ", b"@undefined", b"@RESTRICTED:"]), "error"
    if r < 0.92:
        return rng.choice([b"", b"hello", b"@", b"@:", b"@A", b"@A:", b"@A:B", b"@A:=1", b"@:B=1", b"@A:B=", b"A:B=1", b"@@A:B=C", b"\r", b"\n", b"\n\r", b"@A:B=\r", b"\r@A:B=1"]), "junk"
    # invalid UTF-8
    bad = bytes(rng.choice([0x80, 0xBF, 0xC0, 0xC1, 0xC3, 0xE0, 0xE2, 0xED, 0xF0, 0xF4, 0xF5, 0xFF, 0x41, 0x3D, 0x3A, 0xA0, 0x9F, 0x90, 0x8F]) for _ in range(rng.randrange(1, 8)))
    return rng.choice([b"@MAIN:SONG=", b"@", b""]) + bad, "invalid-utf8"


def run(chk: Check):
    rng = random.Random(chk.seed)
    chk.build(PROP_FILE)
    recorded = sorted({line for _, entries in recordings() for d, line in entries if d == "Received"})
    n_streams = 2000 if chk.tier == "quick" else 40000
    dist = {"recorded": 0, "sfv": 0, "error": 0, "junk": 0, "invalid-utf8": 0, "partitions": 0, "streams": 0}
    model_cases = []  # (chunks, impl_result)

    def judge(stream, chunks, res, tag):
        """monitor: the statement itself"""
        lines, rest = reference(stream)
        key = None
        if res[0] != "ok":
            chk.violation(f"rx:{tag}:raises", f"data_received raised {res[1]} on stream {stream!r}", {"stream": list(stream), "chunks": [list(c) for c in chunks]})
            return
        got, buf = res[1], res[2]
        if len(got) != len(lines):
            chk.violation(f"rx:{tag}:count", f"{len(got)} notifications for {len(lines)} complete lines, stream {stream!r} chunks {[bytes(c) for c in chunks]!r}", {"stream": list(stream), "chunks": [list(c) for c in chunks]})
            return
        if buf != rest:
            chk.violation(f"rx:{tag}:rest", f"buffer {buf!r} instead of incomplete line {rest!r}", {"stream": list(stream), "chunks": [list(c) for c in chunks]})
        for ln, g in zip(lines, got):
            try:
                t = ln.decode("utf-8")
            except UnicodeDecodeError:
                continue  # the statement speaks about UTF-8 text
            exp = expected_for(t)
            if exp is not None and g != exp:
                what = "lf-in-value" if exp[1] and "\n" in "".join(exp[1]) else "parse"
                chk.violation(f"rx:{what}", f"line {t!r} reported as {g!r}, required {exp!r}", {"stream": list(stream), "chunks": [list(c) for c in chunks], "line": t})

    for si in range(n_streams):
        nl = rng.randrange(1, 31) if rng.random() < 0.7 else rng.randrange(1, 4)
        parts = []
        for _ in range(nl):
            b, kind = gen_line(rng, recorded)
            dist[kind] += 1
            parts.append(b)
        stream = b"\r\n".join(parts) + (b"\r\n" if rng.random() < 0.6 else b"")
        dist["streams"] += 1
        plist = partitions_random(rng, stream, 5)
        results = []
        for chunks in plist:
            res = impl_run(chunks)
            dist["partitions"] += 1
            results.append(res)
            nontrivial = len(reference(stream)[0]) >= 1 and any(0 < sum(len(c) for c in chunks[:k]) < len(stream) and not stream[: sum(len(c) for c in chunks[:k])].endswith(b"\r\n") for k in range(1, len(chunks)))
            chk.count_case(["stream", list(stream), [len(c) for c in chunks]], nontrivial)
            judge(stream, chunks, res, "random")
        # chunk independence across the partitions of this stream
        base = results[-1]
        for chunks, res in zip(plist, results):
            if res[:3] != base[:3]:
                chk.violation("rx:chunk-dependence", f"stream {stream!r}: chunks {[bytes(c) for c in chunks]!r} give {res!r}, single chunk gives {base!r}", {"stream": list(stream), "chunks": [list(c) for c in chunks]})
        if si < (250 if chk.tier == "quick" else 1500) and len(stream) < 1500:
            model_cases.append((plist[0], results[0]))
            model_cases.append((plist[-2] if len(stream) < 200 else plist[1], results[-2] if len(stream) < 200 else results[1]))

    # exhaustive small streams over a critical alphabet, all partitions
    alpha = [0x40, 0x3A, 0x3D, 0x41, 0x0D, 0x0A, 0xC3, 0xA9]
    maxlen = 4 if chk.tier == "quick" else 5
    n_ex = 0
    for L in range(0, maxlen + 1):
        for tup in itertools.product(alpha, repeat=L):
            stream = bytes(tup)
            base = impl_run([stream])
            judge(stream, [stream], base, "exhaustive")
            for mask in range(1, 1 << max(L - 1, 0)):
                chunks, prev = [], 0
                for i in range(L - 1):
                    if mask >> i & 1:
                        chunks.append(stream[prev : i + 1])
                        prev = i + 1
                chunks.append(stream[prev:])
                res = impl_run(chunks)
                n_ex += 1
                chk.cov["evaluations"] += 1
                if res != base:
                    chk.violation("rx:chunk-dependence", f"stream {stream!r}: chunks {chunks!r} give {res!r}, single chunk gives {base!r}", {"stream": list(stream), "chunks": [list(c) for c in chunks]})
            if L >= 3 and rng.random() < (0.02 if chk.tier == "quick" else 0.01):
                model_cases.append(([stream[:1], stream[1:]], impl_run([stream[:1], stream[1:]])))
    dist["exhaustive_partition_runs"] = n_ex

    # the same on a live connection: what the protocol handles is the framing of the bytes read in this session,
    # also when the object has been through an earlier session that ended in the middle of a line
    from .. import connscen as CS

    n_live = 40 if chk.tier == "quick" else 600
    dist["live_sessions"] = n_live
    for k in range(n_live):
        sc = CS.gen_scenario(rng, chk.tier, allow_delay=False, long_idle=False)
        sc["prior_session"] = {"close_after_s": rng.choice([0.0, 0.05, 0.2]), "reconnect_after_s": rng.choice([0.0, 0.01, 0.3])} if k % 2 == 0 else None
        sc["unsolicited"] = True
        s = CS.run_scenario(sc)
        chk.count_case({"live": sc}, True)
        if s.sim.failure is not None:
            chk.violation("rx:live-no-termination", f"live session never came to rest: {s.sim.failure}", {"scenario": sc})
            continue
        why = CS.mon_framing(s)
        if why:
            chk.violation("rx:live-framing", why, {"scenario": sc})

    # ------------------------------------------------------------ model correspondence
    validated = 0
    if not any(b["obligation"].startswith(("translator", "compile")) for b in chk.broken):

        def mk(part):
            lines = [coqio.CASES_HEADER, "From Ynca Require Import Model.Framing Model.Line Model.Reader.\n"]
            items = ["[" + "; ".join(cbytes(bytes(c)) for c in chunks) + "]" for chunks, _ in part]
            lines.append("Definition cases : list (list (list N)) :=\n [" + ";\n  ".join(items) + "].\n")
            lines.append(
                "Definition run1 (chunks : list (list N)) : list N :=\n"
                "  let '(s, ds) := rx_run rx_init chunks in\n"
                "  (flat_map show_msg ds ++ (9 :: r_buf s) ++ [END; END2])%list.\n"
            )
            lines.append("Eval vm_compute in flat_map run1 cases.\n")
            return "\n".join(lines)

        ok, outs, err = run_cases_sharded("c02", mk, model_cases, shard=150)
        if not ok:
            chk.obligation_broken("cases c02", err[-800:])
        else:
            res = [c for o in outs for c in coqio.parse_flat2(o)]
            if len(res) != len(model_cases):
                chk.obligation_broken("cases c02", f"{len(res)} results for {len(model_cases)} cases")
            nbad = 0
            for (chunks, impl), items in zip(model_cases, res):
                msgs = [coqio.decode_msg(t) for t in items[:-1]]
                rest = bytes(items[-1][1:])
                if impl[0] == "ok" and msgs == impl[1] and rest == impl[2]:
                    validated += 1
                else:
                    nbad += 1
                    if nbad <= 5:
                        chk.obligation_broken(f"correspondence rx_run chunks={[bytes(c) for c in chunks]!r}"[:400], f"model {msgs!r} rest {rest!r} vs implementation {impl!r}"[:600])
            if nbad > 5:
                chk.obligation_broken("correspondence rx_run", f"{nbad} disagreements in total")
    chk.cov["traces_validated_against_impl"] = validated
    chk.cov["rule"] = (
        "streams of 1-30 lines drawn from recorded lines, generated @S:F=V with separators/Unicode/astral/LF/CR/long values, error lines, junk, invalid UTF-8; "
        "each stream fed to the real YncaProtocol.data_received under 5 random partitions, the partition cutting inside every CR LF and multi-byte character, "
        "all-singletons and single-chunk; plus ALL partitions of ALL streams up to length %d over the alphabet {@ : = A CR LF C3 A9}. "
        "distinct by (stream, chunk lengths); non-trivial = at least one complete line and a cut that is not at a line boundary." % maxlen
    )
    chk.cov["input_distribution"] = dist
    if model_cases:
        c, r = model_cases[0]
        chk.sample({"chunks": [bytes(x).decode("latin-1") for x in c][:6], "implementation": repr(r)[:300]})
    return chk.finish(
        trusted=[
            "correspondence: the real YncaProtocol.data_received (pyserial Packetizer/LineReader + handle_line) is fed directly, no threads, and compared with rx_run evaluated by vm_compute",
            "modelled, not verified: bytearray.split, bytes.decode('utf-8','replace'), the re module on the one pattern",
        ],
        assumptions=["no keep-alive probe outstanding (flag clear); C13 covers the flag", "for lines that are not @UNDEFINED/@RESTRICTED/@S:F=V with non-empty S and F the statement only requires one notification per line"],
    )


def replay(path):
    d = json.load(open(path))
    r = d.get("replay", {})
    chunks = [bytes(c) for c in r.get("chunks", [])]
    print("chunks:", chunks)
    print("implementation:", impl_run(chunks))
    lines, rest = reference(b"".join(chunks))
    print("required: one notification per complete line", lines, "rest", rest)
    return 0
