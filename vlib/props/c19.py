"""C19 -- no client command can make the test server drop the session."""
from __future__ import annotations

import json
import random

from .. import srvharness as SH
from ..common import Check
from ..typedcmds import typed_api_commands

PROP_FILE = "Properties/C19.v"
PROBE = b"@SYS:MODELNAME=?"
SPECIAL_F = {"PWR", "PLAYBACK", "MEM", "VOL", "ZONEBVOL", "SOUNDPRG", "PUREDIRMODE", "STRAIGHT", "DIRMODE", "REMOTECODE"}


def hostile_lines(rng, store, n):
    """generated client lines: unknown names, group names on unknown subunits, Up/Down variants, malformed text,
    invalid UTF-8; mostly well-formed commands on stored keys"""
    subs = list(store)
    keys = [(s, f) for s, fs in store.items() for f in fs]
    out = []
    rel = ["Up", "Down", "Up 1 dB", "Down 1 dB", "Up 2 dB", "Down 5 dB", "Up x dB", "Down y", "Up  2", "Down  5 dB", "Upside", "Downtown", "Up 1e3", "Down -2 dB", "Up 2", "Down 0x10 dB", "Up ٣ dB", "up", "DOWN", "Up 1" + "0" * 400 + " dB", "Down 1" + "0" * 320]
    while len(out) < n:
        r = rng.random()
        if r < 0.25:
            s, f = rng.choice(keys)
            v = rng.choice(rel)
            w = v.replace("Up", "Down") if v.startswith("Up") else v.replace("Down", "Up")
            out += [f"@{s}:{f}={v}".encode(), f"@{s}:{f}=?".encode(), f"@{s}:{f}={w}".encode(), f"@{s}:{f}=?".encode()]
        elif r < 0.35:
            s = rng.choice(subs + ["FOO", "ZONE4", "ZONE3", "SYS", "MAIN", "", " ", "Z:Z"])
            f = rng.choice(["VOL", "ZONEBVOL", "PRESET", "INP", "SCENE", "MAXVOL"])
            out.append(f"@{s}:{f}={rng.choice(rel)}".encode())
        elif r < 0.5:
            s = rng.choice(subs + ["FOO", "NOPE", "ZONE9", "sys", "", "A:B"])
            f = rng.choice(["SCENENAME", "INPNAME", "BASIC", "METAINFO", "RDSINFO", "DIRMODE", "STRAIGHT", "PWR", "AVAIL", "NOPE", "INPNAMEHDMI1", "SCENE1NAME", "PLAYBACK", "PLAYBACKINFO", "MEM", "REMOTECODE"])
            v = rng.choice(["?", "?", "?", "On", "Play", "Stop", "Pause", "Skip Fwd", "Standby", "1", "", "7F0158A7", "1234"])
            out.append(f"@{s}:{f}={v}".encode())
        elif r < 0.55:
            # the same multi-value query repeated with the direct modes switched in between (what two start-ups of a
            # client with an assignment in between produce)
            z = rng.choice(["MAIN", "ZONE2", "ZONE3", "ZONE4"])
            f = rng.choice(["DIRMODE", "PUREDIRMODE", "STRAIGHT"])
            out += [f"@{z}:BASIC=?".encode(), f"@{z}:{f}=On".encode(), f"@{z}:BASIC=?".encode(), f"@{z}:BASIC=?".encode(), f"@{z}:{f}=Off".encode(), f"@{z}:BASIC=?".encode()]
        elif r < 0.6:
            z = rng.choice(["MAIN", "ZONE2", "ZONE3", "ZONE4"])
            inp = rng.choice(["HDMI1", "AV1", "TUNER", "NET RADIO", "Spotify", "USB", "AUDIO1", "Bluetooth", "SERVER", "nonsense", ""])
            out += [f"@{z}:INP={inp}".encode(), f"@{z}:PLAYBACK={rng.choice(['Play', 'Pause', 'Stop', 'Skip Fwd'])}".encode()]
        elif r < 0.7:
            out.append(rng.choice([b"", b"@", b"@:", b"@A:=", b"@=:", b"no at sign", b"@@S:F=V", b"@S:F", b"@S:F=", b":=", b"@S:F=V=W:X", b"  @MAIN:VOL=?  ", b"\t@MAIN:PWR=?\t", b"@MAIN:VOL=?\r", b"x@MAIN:VOL=?", b"@MAIN:VOL=" + b"9" * 400, b"@MAIN:VOL=nan", b"@MAIN:VOL=-inf", b"@MAIN:VOL=1e308", b"@MAIN:VOL=Up 1" + b"0" * 308 + b" dB", b"@" + b"S" * 300 + b":F=?", b"@MAIN:ZONENAME=a\rb", b"@SYS:PWR=On", b"@SYS:PWR=Standby", b"@MAIN:PWR=On", b"@ZONE2:PWR=Standby"]))
        elif r < 0.82:
            bad = rng.choice([b"\xff", b"\xfe\xff", b"\x80", b"\xc0\xaf", b"\xed\xa0\x80", b"\xf4\x90\x80\x80", b"\xe2\x82", b"\xf0\x9f\x98", b"\xc3", b"\xc3\x28", b"caf\xe9"])
            tmpl = rng.choice([b"@MAIN:ZONENAME=%s", b"@MAIN:%s=?", b"@%s:VOL=?", b"%s", b"@MAIN:VOL=Up %s dB", b"@SYS:INPNAMEHDMI1=%s"])
            out.append(tmpl % bad)
        elif r < 0.9:
            s, f = rng.choice(keys)
            out.append(f"@{s}:{f}={rng.choice(['@UNDEFINED', '@RESTRICTED', '@foo', '@', 'a=b', 'x:y', 'Zoné ß', '', ' ', '?x'])}".encode())
            out.append(f"@{s}:{f}=?".encode())
        else:
            s, f = rng.choice(keys)
            out.append(f"@{s}:{f}=?".encode())
    return out[:n]


def line_key(b):
    t = b.decode("utf-8", "replace")
    i, j = t.find(":"), t.find("=")
    f = t[i + 1 : j] if 0 <= i < j else "?"
    return f if f in ("VOL", "ZONEBVOL", "SCENENAME", "INPNAME", "PLAYBACK", "PRESET") else ("non-utf8" if "�" in t else "other")


def monitor(se, res, store0):
    """the statement, judged on the real run"""
    r = res["real"]
    if r["exc"] is not None:
        ln = se["lines"][r["exc"][2]]
        return ("raised:%s:%s" % (r["exc"][0], line_key(ln)), f"the request handler raised {r['exc'][0]} ({r['exc'][1]}) on the client line {ln!r}: the session is dropped")
    # the session goes on: the final probe is answered
    want = store0.get("SYS", {}).get("MODELNAME")
    wrote = any(b"SYS:MODELNAME=" in b and not b.rstrip().endswith(b"=?") for b in se["lines"])
    if se["lines"][-1] == PROBE and wrote and not (len(r["outs"][-1]) == 1 and r["outs"][-1][0].startswith("@SYS:MODELNAME=")):
        return ("stopped-answering", f"after the session's lines the server answered the final {PROBE!r} with {r['outs'][-1]!r}")
    if se["lines"][-1] == PROBE and not wrote and want is not None and want not in SH.ERRS and r["outs"][-1] != [f"@SYS:MODELNAME={want}"]:
        return ("stopped-answering", f"after the session's lines the server answered the final {PROBE!r} with {r['outs'][-1]!r}")
    # relative values: arithmetic only for the volume functions, otherwise stored like any other value, for Up as for Down
    dec = [b.decode("utf-8", "replace").strip() for b in se["lines"]]
    for k in range(len(dec) - 1):
        m = SH.WF.match(dec[k]) if dec[k].startswith("@") else None
        if not m or m.group(3) == "?" or dec[k + 1] != f"@{m.group(1)}:{m.group(2)}=?":
            continue
        S, F, V = m.group(1), m.group(2), m.group(3)
        if (V.startswith("Up") or V.startswith("Down")) and F not in SPECIAL_F and not (S == "SYS" and F == "INPNAME") and F != "SCENENAME" and F not in ("BASIC", "METAINFO", "RDSINFO"):
            if store0.get(S, {}).get(F) is not None and "�" not in dec[k]:
                if r["outs"][k + 1] != [f"@{S}:{F}={V}"]:
                    return ("relative-on-non-volume", f"PUT {dec[k]!r} on a non-volume function was not stored like any other value: the following GET answered {r['outs'][k + 1]!r}")
    # unrelated stored values unchanged
    touched = set()
    pwr = False
    for t in dec:
        m = SH.WF.search(t)
        if m and m.group(3) != "?":
            touched.add((m.group(1), m.group(2)))
            pwr = pwr or m.group(2) == "PWR"
    for (S, F), v in res["changes"].items():
        if (S, F) in touched or (pwr and F in ("PWR", "PWRB")):
            continue
        return ("unrelated-changed", f"stored value {S}:{F} changed to {v!r} although no line of the session wrote it")
    return None


def run(chk: Check):
    rng = random.Random(chk.seed + 19)
    chk.build(PROP_FILE)
    recs = SH.load_recordings()
    stores = {n: SH.store_dict(st) for n, (st, p) in recs.items()}
    # the same receivers after a session in which PLAYBACK was used on the zones (fill_from_file also stores the
    # values of recorded PUTs): stores the bundled recordings alone do not produce
    import copy

    for base in ("RX-A810", "RX-V475"):
        d = copy.deepcopy(stores[base])
        for z in ("MAIN", "ZONE2"):
            if z in d:
                d[z]["PLAYBACK"] = "Stop"
        stores[base + "+playback"] = d
    typed = [t.encode("utf-8") for t in typed_api_commands()]
    sessions = []
    n_host = 300 if chk.tier == "quick" else 6000
    dist = {"recordings": len(stores), "typed_api_commands": len(typed), "hostile_lines_per_recording": n_host, "sessions": 0, "lines": 0, "invalid_utf8_lines": 0}
    for name in sorted(stores):
        cmds = list(typed)
        rng.shuffle(cmds)
        for c0 in range(0, len(cmds), 160):
            sessions.append({"rec": name, "kind": "typed", "lines": cmds[c0 : c0 + 160] + [PROBE]})
        host = hostile_lines(rng, stores[name], n_host)
        for c0 in range(0, len(host), 60):
            sessions.append({"rec": name, "kind": "hostile", "lines": host[c0 : c0 + 60] + [PROBE]})
    results, broken = SH.run_sessions("c19", sessions, stores)
    for b in broken:
        chk.obligation_broken("cases c19", b)
    validated = 0
    nb = 0
    for se, res in zip(sessions, results):
        dist["sessions"] += 1
        dist["lines"] += len(se["lines"])
        for b in se["lines"]:
            try:
                b.decode("utf-8")
            except UnicodeDecodeError:
                dist["invalid_utf8_lines"] += 1
        chk.count_case({"rec": se["rec"], "lines": [x.hex() for x in se["lines"][:3]]}, True)
        v = monitor(se, res, stores[se["rec"]])
        if v:
            k = res["real"]["exc"][2] if res["real"]["exc"] else len(se["lines"]) - 1
            chk.violation("C19:" + v[0], v[1] + f" (server loaded from {se['rec']})", {"recording": se["rec"], "lines_hex": [x.hex() for x in se["lines"][: k + 1]], "lines": [x.decode("utf-8", "replace") for x in se["lines"][: k + 1]][-6:]})
        if res["real"]["oracles"].inconsistent:
            chk.obligation_broken("oracle str(float)", repr(res["real"]["oracles"].inconsistent[:2]))
        if res["model"] is not None:
            why = SH.compare_session(se, res)
            if why is None:
                validated += 1
            else:
                nb += 1
                if nb <= 4:
                    chk.obligation_broken(f"correspondence handler ({se['rec']}, {se['kind']})", why[:700])
    chk.cov["traces_validated_against_impl"] = validated
    chk.cov["rule"] = (
        f"each of the 12 bundled recordings (plus two of them extended with a stored PLAYBACK value on the zones) loaded by the real YncaDataStore.fill_from_file; the real YncaCommandHandler.handle (rfile/wfile replaced by buffers) is fed every command the typed API "
        f"emits ({len(typed)} distinct wire lines from real subunit instances: every writable attribute with every member / boundary text / grid and off-grid number, every action method with its argument kinds, every GET and group GET) "
        f"and {n_host} generated lines per recording (unknown subunits and functions, group names on unknown subunits, Up/Down variants on volume and non-volume functions each followed by a GET, PLAYBACK on zones "
        "with inputs that have no source subunit, malformed lines, '@'-prefixed values, invalid UTF-8 at the byte level); sessions of 60-160 lines end with a probe that must be answered; "
        "every session is also evaluated by the model (vm_compute) with the float()/int()/str() oracles the run observed."
    )
    chk.cov["input_distribution"] = dist
    se, res = sessions[0], results[0]
    chk.sample({"recording": se["rec"], "first_lines": [x.decode("utf-8", "replace") for x in se["lines"][:4]], "first_replies": res["real"]["outs"][:4]})
    return chk.finish(
        trusted=[
            "translator: the guard flags and the truth table of the relative-volume condition are read off the AST of ynca/server.py (vlib/translate_server.py, fail closed); the four tables come from the live module",
            "correspondence: real YncaCommandHandler.handle on in-memory files vs Model/Server.srv_bytes line by line (replies, raising line, final store)",
            "oracles float()/int()/str(float) are universally quantified in the theorems; in the correspondence they are the values the real run observed (hooks injected into the ynca.server module namespace by the harness)",
            "socketserver: that an exception escaping handle() closes the client socket is read from the standard library, not modelled",
        ],
        assumptions=["bytes.strip / bytes.decode(utf-8, replace) as modelled in Base/Utf8.v (validated by C02's correspondence and here on invalid sequences)"],
    )


def replay(path):
    d = json.load(open(path))
    rp = d["replay"]
    recs = SH.load_recordings()
    import copy

    import ynca.server as S

    st = S.YncaDataStore()
    base = rp["recording"].split("+")[0]
    st._store = copy.deepcopy(SH.store_dict(recs[base][0]))
    if rp["recording"].endswith("+playback"):
        for z in ("MAIN", "ZONE2"):
            if z in st._store:
                st._store[z]["PLAYBACK"] = "Stop"
    lines = [bytes.fromhex(x) for x in rp["lines_hex"]]
    r = SH.real_session(st, lines)
    for b, o in list(zip(lines, r["outs"]))[-6:]:
        print(repr(b), "->", o)
    print("exception:", r["exc"])
    return 0
