"""C13 -- keep-alive traffic is invisible and swallows nothing else."""
from .. import connscen as CS
from .conn_common import replay_scenario, run_conn_check

MON = [("suppression", CS.mon_c13)]


def run(chk):
    return run_conn_check(
        chk, "C13", "Properties/C13.v", MON, dict(allow_delay=True, long_idle=True, modelname_bias=True), 400, 8000,
        "start-up and idle probes, user MODELNAME queries, other commands, unsolicited lines and reply latencies from 0 to 2.5 x spacing (incl. 99.999/100/100.001 ms), "
        "random preemption so that reader steps fall between the sender's flag write and its port write. "
        "distinct by scenario; non-trivial = a reader step between some flag set and the next flag clear, or at least 2 commands interleaved with the sender.",
        nontrivial=lambda s: CS.nontrivial_conn(s) or any(e["k"] == "Line" for e in s.sim.events),
        assumptions=["'the library has started sending a probe' = the sender thread set the keep-alive flag; 'since the previous line was received' = since the flag was last cleared"],
    )


def replay(path):
    return replay_scenario(path, MON)
