"""C20 -- the communication log is a faithful, bounded record of the wire."""
from .. import connscen as CS
from .conn_common import replay_scenario, run_conn_check

MON = [("log", CS.mon_c20)]


def log_race_sessions(chk):
    """the sender logging a line it is about to write and the reader logging a line that arrives at that very instant:
    in these sessions every source line of ynca/helpers.py (the ring buffer) is a scheduling point, so the two threads
    interleave statement by statement inside the buffer; the log must stay bounded by N and hold the most recent lines"""
    import random

    from .. import conntrace as CT

    rng = random.Random(chk.seed + 2020)
    for k in range(25 if chk.tier == "quick" else 400):
        case = {"seed": rng.randrange(1 << 30), "N": rng.choice([1, 2, 3, 4, 6]), "switch_prob": rng.choice([0.3, 0.6, 0.9]), "n_cmds": rng.randrange(4, 12)}
        s = CT.Session(case["seed"], respond=lambda line, idx: [], latency_us=0, log_size=case["N"], switch_prob=case["switch_prob"])
        s.sim.trace_modules = {"ynca.helpers"}
        sizes = []

        def body(s, case=case, sizes=sizes):
            c = s.connect()
            s.sleep(0.25)
            t0 = s.sim.now
            # the device reports something at exactly the instants at which the sender gets to its next command
            for i in range(case["n_cmds"] + 2):
                s.dev.emit_at(t0 + i * 100_000, f"@MAIN:VOL=-{30 + i}.0\r\n".encode(), cause=None)
            for i in range(case["n_cmds"]):
                c.put("MAIN", "MUTE", "On" if i % 2 else "Off")
            for _ in range(6):
                s.sleep(0.25)
                sizes.append(len(c.get_communication_log_items()))
            s.final = c.get_communication_log_items()
            c.close()

        s.run(body)
        chk.count_case({"log_race": case}, True)
        rep = {"log_race_case": case}
        if s.sim.failure is not None:
            chk.violation("C20:log-race-no-termination", f"the session never came to rest: {s.sim.failure}", rep)
        elif sizes and max(sizes) > case["N"]:
            chk.violation("C20:log-unbounded", f"the log was created with room for {case['N']} entries and returned {max(sizes)} (sender and reader logging at the same instant)", rep)
        elif any(e["k"] == "ThreadDied" for e in s.sim.events):
            d = next(e for e in s.sim.events if e["k"] == "ThreadDied")
            chk.violation("C20:log-race-thread-died", f"a library thread died while both threads were logging: {d.get('exc')}: {d.get('msg')}", rep)
        chk.cov["log_race_line_points"] = chk.cov.get("log_race_line_points", 0) + getattr(s.sim, "n_line_points", 0)


def api_log_sessions(chk):
    """the same log read through YncaApi.get_communication_log_items(): repeated reads with device lines and
    keep-alive traffic in between, no new user command"""
    import random

    from .. import apiscen as AS
    from ..subharness import class_info

    infos, _ = class_info()
    rng = random.Random(chk.seed + 2000)
    n = 10 if chk.tier == "quick" else 150
    for k in range(n):
        rx, present = AS.synthetic_receiver(random.Random(rng.randrange(1 << 30)), [x for x in infos if x[1] in ("SYS", "MAIN", "ZONE2")])
        N = rng.choice([3, 10, 50, 1000])
        s = AS.ApiSession(rng.randrange(1 << 30), rx, latency_us=20000, switch_prob=rng.choice([0.05, 0.3]), log_size=N)
        reads = []

        def body(s):
            api = s.make_api()
            s.call(api.initialize)
            if s.exc is not None:
                return
            for step in range(4):
                reads.append((list(api.get_communication_log_items()), list(api._connection.get_communication_log_items())))
                what = rng.choice(["unsolicited", "idle", "raw"])
                if what == "unsolicited":
                    s.dev.emit_at(s.sim.now + 1000, b"@MAIN:VOL=-25.5\r\n")
                    s.sleep(0.2)
                elif what == "idle":
                    s.sleep(31.0)  # a keep-alive probe and its reply pass
                else:
                    api.send_raw("@MAIN:MUTE=?")
                    s.sleep(0.5)
            reads.append((list(api.get_communication_log_items()), list(api._connection.get_communication_log_items())))
            api.close()

        s.run(body)
        chk.count_case({"api_log": k, "N": N}, True)
        if s.sim.failure is not None:
            chk.violation("C20:api-no-termination", f"session never came to rest: {s.sim.failure}", {"api_log_case": k})
            continue
        for i, (via_api, via_conn) in enumerate(reads):
            if via_api != via_conn:
                miss = [x for x in via_conn if x not in via_api][:3]
                chk.violation("C20:api-log-stale", f"read #{i} of the log through YncaApi returns {len(via_api)} entries, the connection's log (checked against the wire by the other scenarios) has {len(via_conn)}; missing e.g. {miss!r}", {"api_log_case": k, "N": N})
                break
            if len(via_api) > N:
                chk.violation("C20:api-log-bound", f"the log returned {len(via_api)} entries for N={N}", {"api_log_case": k, "N": N})
                break


def run(chk):
    log_race_sessions(chk)
    api_log_sessions(chk)
    return run_conn_check(
        chk, "C20", "Properties/C20.v", MON, dict(allow_delay=True, long_idle=True), 300, 6000,
        "C01/C13 scenarios with N in {0,1,2,3,5,50,10000}; the log is read from a caller thread during the burst and after idling and compared with the port's own record of writes "
        "and the lines handed to handle_line (order, labels, exact text, time-stamp format, bound N, causality via the device's cause tags). "
        "distinct by scenario; non-trivial = at least 2 user commands and a caller/sender interleaving while the queue is non-empty.",
    )


def replay(path):
    return replay_scenario(path, MON)
