"""C20 -- the communication log is a faithful, bounded record of the wire."""
from .. import connscen as CS
from .conn_common import replay_scenario, run_conn_check

MON = [("log", CS.mon_c20)]


def run(chk):
    return run_conn_check(
        chk, "C20", "Properties/C20.v", MON, dict(allow_delay=True, long_idle=True), 300, 6000,
        "C01/C13 scenarios with N in {0,1,2,3,5,50,10000}; the log is read from a caller thread during the burst and after idling and compared with the port's own record of writes "
        "and the lines handed to handle_line (order, labels, exact text, time-stamp format, bound N, causality via the device's cause tags). "
        "distinct by scenario; non-trivial = at least 2 user commands and a caller/sender interleaving while the queue is non-empty.",
    )


def replay(path):
    return replay_scenario(path, MON)
