"""C20 -- the communication log is a faithful, bounded record of the wire."""
from .. import connscen as CS
from .conn_common import replay_scenario, run_conn_check

MON = [("log", CS.mon_c20)]


def api_log_sessions(chk):
    """the same log read through YncaApi.get_communication_log_items(): repeated reads with device lines and
    keep-alive traffic in between, no new user command"""
    import random

    from .. import apiscen as AS
    from ..subharness import class_info

    infos, _ = class_info()
    rng = random.Random(chk.seed + 2000)
    n = 10 if chk.tier == "quick" else 150
    for k in range(n):
        rx, present = AS.synthetic_receiver(random.Random(rng.randrange(1 << 30)), [x for x in infos if x[1] in ("SYS", "MAIN", "ZONE2")])
        N = rng.choice([3, 10, 50, 1000])
        s = AS.ApiSession(rng.randrange(1 << 30), rx, latency_us=20000, switch_prob=rng.choice([0.05, 0.3]), log_size=N)
        reads = []

        def body(s):
            api = s.make_api()
            s.call(api.initialize)
            if s.exc is not None:
                return
            for step in range(4):
                reads.append((list(api.get_communication_log_items()), list(api._connection.get_communication_log_items())))
                what = rng.choice(["unsolicited", "idle", "raw"])
                if what == "unsolicited":
                    s.dev.emit_at(s.sim.now + 1000, b"@MAIN:VOL=-25.5\r\n")
                    s.sleep(0.2)
                elif what == "idle":
                    s.sleep(31.0)  # a keep-alive probe and its reply pass
                else:
                    api.send_raw("@MAIN:MUTE=?")
                    s.sleep(0.5)
            reads.append((list(api.get_communication_log_items()), list(api._connection.get_communication_log_items())))
            api.close()

        s.run(body)
        chk.count_case({"api_log": k, "N": N}, True)
        if s.sim.failure is not None:
            chk.violation("C20:api-no-termination", f"session never came to rest: {s.sim.failure}", {"api_log_case": k})
            continue
        for i, (via_api, via_conn) in enumerate(reads):
            if via_api != via_conn:
                miss = [x for x in via_conn if x not in via_api][:3]
                chk.violation("C20:api-log-stale", f"read #{i} of the log through YncaApi returns {len(via_api)} entries, the connection's log (checked against the wire by the other scenarios) has {len(via_conn)}; missing e.g. {miss!r}", {"api_log_case": k, "N": N})
                break
            if len(via_api) > N:
                chk.violation("C20:api-log-bound", f"the log returned {len(via_api)} entries for N={N}", {"api_log_case": k, "N": N})
                break


def run(chk):
    api_log_sessions(chk)
    return run_conn_check(
        chk, "C20", "Properties/C20.v", MON, dict(allow_delay=True, long_idle=True), 300, 6000,
        "C01/C13 scenarios with N in {0,1,2,3,5,50,10000}; the log is read from a caller thread during the burst and after idling and compared with the port's own record of writes "
        "and the lines handed to handle_line (order, labels, exact text, time-stamp format, bound N, causality via the device's cause tags). "
        "distinct by scenario; non-trivial = at least 2 user commands and a caller/sender interleaving while the queue is non-empty.",
    )


def replay(path):
    return replay_scenario(path, MON)
