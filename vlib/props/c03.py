"""C03 -- an attribute always reads the decoding of the last value the device reported."""
from __future__ import annotations

import json
import random

from .. import subcases as SC
from ..common import Check
from ..subharness import canon_value, class_info, deliver, make_connection, typed_decoding

PROP_FILE = "Properties/C03.v"


def reference(cls, cid, funcs, h):
    """Independent reference from the property text: per function the decoding (by the function's own
    converter) of the most recent decodable value reported for exactly (id, function)."""
    ref = {f.name: ("absent",) for _, f in funcs}
    byname = {f.name: f for _, f in funcs}
    for m in h:
        if m[0] != "OK" or m[1] is None:
            continue
        S, F, V = m[1]
        if S == cid and F in byname:
            try:
                ref[F] = canon_value(typed_decoding(byname[F].converter, V))
            except Exception:  # noqa: undecodable: the previous value stays (C10)
                pass
    return ref


def write_values(f):
    """a few valid values to assign to a function"""
    from ynca import converters as C

    cv = f.converter
    parts = cv._converters if type(cv) is C.MultiConverter else [cv]
    out = []
    for p in parts:
        if type(p) is C.EnumConverter:
            out += [m for n, m in p.datatype.__members__.items() if n != "UNKNOWN"][:3]
        elif type(p) is C.StrConverter:
            out += ["Written"]
        elif type(p) in (C.IntConverter, C.IntOrNoneConverter):
            out += [4]
        elif type(p) is C.FloatConverter:
            out += [-42.5, 5.0]
    return out


def run(chk: Check):
    rng = random.Random(chk.seed)
    chk.build(PROP_FILE)
    infos, enums = class_info()
    rec_by = SC.recorded_values()
    all_ids = [cid for _, cid, _ in infos]
    per_class = 40 if chk.tier == "quick" else 600
    cases = []
    impl = []
    dist = {"messages": 0, "own": 0, "histories": 0}
    for cls, cid, funcs in infos:
        for k in range(per_class):
            n = rng.choice([0, 1, 3, 10, 30, 80, 200]) if chk.tier == "thorough" else rng.choice([0, 1, 3, 10, 30, 60])
            h = SC.gen_history(rng, cid, funcs, all_ids, rec_by, n)
            ini = rng.random() < 0.5
            dist["histories"] += 1
            dist["messages"] += len(h)
            dist["own"] += sum(1 for m in h if m[1] and m[1][0] == cid)
            # implementation, checking after EVERY message
            conn = make_connection()
            inst = cls(conn)
            inst._initialized = ini
            ref_hist = []
            bad = False
            # another object of the same class, for another receiver, alive in the same process: created before,
            # or in the middle of, this history and told different things; neither may show in the other
            sib = None
            sib_at = rng.randrange(0, len(h) + 1) if (h and rng.random() < 0.3) else None
            sib_hist = []
            for i, m in enumerate(h):
                if sib_at is not None and i == sib_at:
                    sconn = make_connection()
                    sib = cls(sconn)
                    sib._initialized = True
                if sib is not None and rng.random() < 0.6:
                    sm = SC.gen_history(rng, cid, funcs, all_ids, rec_by, 1)
                    for x in sm:
                        try:
                            deliver(sconn, x)
                            sib_hist.append(x)
                        except Exception:  # noqa: judged on the primary path
                            pass
                if rng.random() < 0.08:
                    # the application WRITES one of the attributes between two reports: what attributes read is still
                    # the last REPORTED value (the device may refuse, round or ignore what was written)
                    from ynca.function import Cmd as _Cmd

                    wr = [(a, f) for a, f in funcs if _Cmd.PUT in f.cmd and _Cmd.GET in f.cmd]
                    if wr:
                        a, f = rng.choice(wr)
                        cur = getattr(inst, a)
                        cand = [x for x in write_values(f) if x != cur]
                        if cand:
                            try:
                                setattr(inst, a, rng.choice(cand))
                                dist["writes_between_reports"] = dist.get("writes_between_reports", 0) + 1
                            except Exception:  # noqa: C05's matter
                                pass
                try:
                    deliver(conn, m)
                except Exception as e:  # noqa
                    chk.violation(
                        f"{cls.__name__}:raises",
                        f"{cls.__name__}: delivering {m!r} raised {type(e).__name__}: {e}",
                        {"class": cls.__name__, "history": h[: i + 1]},
                    )
                    bad = True
                    break
                ref_hist.append(m)
                if i % 7 == 0 or i == len(h) - 1:
                    ref = reference(cls, cid, funcs, ref_hist)
                    sent0 = len(conn._protocol.sent)
                    for attr, f in funcs:
                        from ynca.function import Cmd

                        if Cmd.GET not in f.cmd:
                            continue
                        got = canon_value(getattr(inst, attr))
                        exp = ref[f.name]
                        if got != exp:
                            chk.violation(
                                f"{cls.__name__}.{attr}:stale-or-foreign",
                                f"{cls.__name__}.{attr} reads {got!r} after {len(ref_hist)} messages; last reported decodes to {exp!r}",
                                {"class": cls.__name__, "attr": attr, "history": ref_hist},
                            )
                            bad = True
                    if len(conn._protocol.sent) != sent0:
                        chk.violation(f"{cls.__name__}:read-transmits", f"reading attributes of {cls.__name__} transmitted {conn._protocol.sent[sent0:]!r}", {"class": cls.__name__, "history": ref_hist})
            if sib is not None and not bad:
                dist["with_second_object"] = dist.get("with_second_object", 0) + 1
                sref = reference(cls, cid, funcs, sib_hist)
                for attr, f in funcs:
                    from ynca.function import Cmd

                    if Cmd.GET not in f.cmd:
                        continue
                    got = canon_value(getattr(sib, attr))
                    if got != sref[f.name]:
                        chk.violation(
                            f"{cls.__name__}.{attr}:two-objects",
                            f"a second {cls.__name__} object (another receiver) reads {attr} = {got!r}; the last value reported to IT decodes to {sref[f.name]!r}",
                            {"class": cls.__name__, "attr": attr, "history": ref_hist, "second_object_history": sib_hist, "second_object_created_at": sib_at},
                        )
                        bad = True
                        break
            chk.count_case(["hist", cid, ini, h], any(m[1] and m[1][0] == cid for m in h) and len(h) >= 3)
            if not bad:
                final = [(name, canon_value(hd.value)) for name, hd in inst.function_handlers.items()]
                cases.append((cid, ini, h))
                impl.append(final)
    # whole recordings into every class (thorough)
    if chk.tier == "thorough":
        for rname, entries in SC.recordings():
            h = []
            for direction, line in entries:
                if direction == "Received":
                    t = SC.split_sfv(line)
                    h.append(("OK", t) if t else (("UNDEFINED", None) if line == "@UNDEFINED" else ("RESTRICTED", None) if line == "@RESTRICTED" else ("OK", None)))
            for cls, cid, funcs in infos:
                r = SC.run_impl_history(cls, h, True)
                if r["error"]:
                    chk.violation(f"{cls.__name__}:raises", f"recording {rname} message {h[r['error'][0]]!r} raised {r['error'][1]}", {"class": cls.__name__, "recording": rname, "index": r["error"][0]})
                    continue
                ref = reference(cls, cid, funcs, h)
                for name, got in r["final"]:
                    if got != ref[name]:
                        chk.violation(f"{cls.__name__}.{name}:stale-or-foreign", f"after recording {rname}: {name} reads {got!r}, expected {ref[name]!r}", {"class": cls.__name__, "recording": rname})
                chk.count_case(["recording", rname, cid], True)

    # end to end: the same histories as BYTES from the device, through the real connection (reader thread, framing,
    # keep-alive handling) under the deterministic harness, to real instances; attributes read when the device is done
    from . import c09 as _c09

    erng = random.Random(chk.seed * 131 + 3)
    for _ in range(60 if chk.tier == "quick" else 1500):
        sc = _c09.gen_scenario(erng, chk.tier, infos, rec_by)
        sc["cb_actions"] = []
        sc["thread_actions"] = []
        s = _c09.run_scenario(sc, infos)
        dist["end_to_end_sessions"] = dist.get("end_to_end_sessions", 0) + 1
        if s.sim.failure is not None or not getattr(s, "insts", None):
            chk.violation("end-to-end:no-termination", f"the session never came to rest: {s.sim.failure}", {"scenario": sc})
            continue
        for (iid, finals), idx in zip(s.insts, sc["subs"]):
            cls, cid, funcs = infos[idx]
            ref = reference(cls, cid, funcs, sc["history"])
            for name, got in finals:
                if cid == "SYS" and name == "MODELNAME":
                    continue  # the one line the connection may withhold (C13)
                if name in ref and got != ref[name]:
                    chk.violation(
                        f"{cls.__name__}.{name}:end-to-end",
                        f"after the device had sent its {len(sc['history'])} lines over a live connection, {cls.__name__}.{name} holds {got!r}; the last value it reported decodes to {ref[name]!r}",
                        {"scenario": sc, "class": cls.__name__},
                    )
                    break
        chk.count_case(["e2e", sc["seed"]], len(sc["history"]) >= 3)

    validated = 0
    if not any(b["obligation"].startswith(("translator", "compile")) for b in chk.broken):
        sel = list(range(len(cases)))
        if chk.tier == "quick" and len(sel) > 500:
            sel = sorted(rng.sample(sel, 500))
        ok, res, err = SC.model_histories("c03", [cases[i] for i in sel])
        if not ok:
            chk.obligation_broken("cases c03", (err or "")[-800:])
        else:
            nbad = 0
            for i, r in zip(sel, res):
                if r is None or r == "noclass":
                    nbad += 1
                    chk.obligation_broken(f"correspondence run {cases[i][0]}", f"model: {r}")
                    continue
                finals, _ = r
                if finals == [c for _, c in impl[i]]:
                    validated += 1
                else:
                    nbad += 1
                    if nbad <= 5:
                        diff = [(n, a, b) for (n, a), b in zip(impl[i], finals) if a != b]
                        chk.obligation_broken(f"correspondence run {cases[i][0]} history#{i}", f"(function, implementation, model) differ: {diff[:4]!r}; history {cases[i][2][-3:]!r}"[:700])
    chk.cov["traces_validated_against_impl"] = validated
    chk.cov["rule"] = (
        f"for each of the {len(infos)} subunit classes {per_class} histories of 0-200 messages (60% own functions with recorded/valid/odd values, 20% other subunits "
        "incl. same function names and look-alike ids, 10% unknown functions, 10% error or junk lines) delivered through a real YncaConnection to a real instance; "
        "all readable attributes compared with an independent last-value reference during and after the history; final caches compared with the Coq model; "
        "in addition sessions in which the device sends such histories as bytes over a live connection (reader thread, framing, keep-alive handling) under the deterministic harness. "
        "distinct by (class, initialised, history); non-trivial = at least 3 messages and at least one for this subunit."
    )
    chk.cov["input_distribution"] = dist
    if cases:
        chk.sample({"class_id": cases[0][0], "initialized": cases[0][1], "history": cases[0][2][:5]})
    return chk.finish(
        trusted=[
            "correspondence: real subunit instances fed through a real YncaConnection (recording protocol below it) vs Subunit.run evaluated by vm_compute",
            "modelled, not verified: dict lookup by function name, descriptor protocol; float()/int() outside the plain grammars are oracles (observed results)",
        ],
        assumptions=["'the most recent value' means the most recent value that decodes for the function's type; an undecodable value leaves the previous one (C10)"],
    )


def replay(path):
    d = json.load(open(path))
    r = d["replay"]
    infos, _ = class_info()
    if "scenario" in r:
        from . import c09 as _c09

        sc = r["scenario"]
        sc["history"] = [(m[0], tuple(m[1]) if m[1] else None) for m in sc["history"]]
        s = _c09.run_scenario(sc, infos)
        for (iid, finals), idx in zip(s.insts, sc["subs"]):
            cls, cid, funcs = infos[idx]
            ref = reference(cls, cid, funcs, sc["history"])
            print(cls.__name__, "implementation:", [x for x in finals if x[1] != ("absent",)])
            print(cls.__name__, "required      :", {k: v for k, v in ref.items() if v != ("absent",)})
        return 0
    for cls, cid, funcs in infos:
        if cls.__name__ == r.get("class") and "history" in r:
            h = [(m[0], tuple(m[1]) if m[1] else None) for m in r["history"]]
            res = SC.run_impl_history(cls, h, False)
            print("implementation:", res["error"] or [x for x in res["final"] if x[1] != ("absent",)])
            print("required      :", {k: v for k, v in reference(cls, cid, funcs, h).items() if v != ("absent",)})
    return 0
