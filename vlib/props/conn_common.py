"""Driver shared by the connection-machine properties (C01, C08, C12, C13, C20)."""
from __future__ import annotations

import json
import random

from .. import connscen as CS
from .. import conntrace as CT
from ..common import Check


def strip_log(items):
    out = []
    for it in items:
        m = CS.LOG_RE.match(it)
        out.append((m.group(2), m.group(3)) if m else ("?", it))
    return out


def run_conn_check(chk: Check, prop, prop_file, monitors, gen_kwargs, n_quick, n_thorough, rule_text, nontrivial=None, corpus=(), trusted_extra=(), assumptions=()):
    rng = random.Random(chk.seed * 7919 + hash(prop) % 1000)
    chk.build(prop_file)
    n = n_quick if chk.tier == "quick" else n_thorough
    scenarios = [dict(c) for c in corpus] + [CS.gen_scenario(rng, chk.tier, **gen_kwargs) for _ in range(n)]
    sessions = []
    dist = {"sessions": 0, "events": 0, "writes": 0, "lines_received": 0, "callers": {}, "modes": {}, "latencies": {}, "log_sizes": {}, "context_switches": 0, "sim_failures": 0}
    for sc in scenarios:
        s = CS.run_scenario(sc)
        try:
            s.end_log = s.conn.get_communication_log_items() if s.conn else []
        except Exception:  # noqa
            s.end_log = []
        sessions.append((sc, s))
        dist["sessions"] += 1
        dist["events"] += len(s.sim.events)
        dist["writes"] += len(s.port.writes) if s.port else 0
        dist["lines_received"] += len(CS.lines_received(s.sim.events))
        dist["context_switches"] += s.sim.n_switch
        for k, v in (("callers", len(sc["progs"])), ("modes", sc["mode"]), ("latencies", sc["latency_us"]), ("log_sizes", sc["log_size"])):
            dist[k][str(v)] = dist[k].get(str(v), 0) + 1
        nt = nontrivial(s) if nontrivial else CS.nontrivial_conn(s)
        chk.count_case({"scenario": sc}, nt)
        if s.sim.failure is not None:
            dist["sim_failures"] += 1
            chk.violation(f"{prop}:harness-deadlock", f"simulation did not terminate: {s.sim.failure}", {"scenario": sc})
            continue
        if s.errors:
            chk.violation(f"{prop}:api-raised", f"an API call raised: {s.errors[0]}", {"scenario": sc})
        for name, mon in monitors:
            why = mon(s)
            if why:
                chk.violation(f"{prop}:{name}", why, {"scenario": sc, "monitor": name})
        why = CS.mon_decoy(s, sc)
        if why:
            chk.violation(f"{prop}:two-connections", why, {"scenario": sc, "monitor": "two-connections"})
        dist["with_second_connection"] = dist.get("with_second_connection", 0) + (1 if sc.get("decoy") else 0)

    # ---------------------------------------------------------------- model replay
    validated = 0
    if not any(b["obligation"].startswith(("translator", "compile")) for b in chk.broken):
        sel = [i for i, (sc, s) in enumerate(sessions) if s.sim.failure is None and len(s.sim.events) < 6000]
        cap_n = 60 if chk.tier == "quick" else 600
        if len(sel) > cap_n:
            sel = sel[: len(corpus)] + sorted(rng.sample(sel[len(corpus) :], cap_n - len(corpus)))
        cases = []
        for i in sel:
            sc, s = sessions[i]
            acts, notes = CT.project(s.sim.events)
            cases.append((sc["log_size"] if sc["log_size"] <= 1000 else 10000, acts))
            for nt in notes:
                if nt[0] == "bad-log-entry":
                    if prop == "C20":
                        chk.violation(f"{prop}:log-entry-format", f"log entry {nt[1]!r} is not labelled Send or Received", {"scenario": sc})
                    else:
                        chk.obligation_broken("trace projection (log entry)", f"log entry {nt[1]!r} is not labelled Send or Received")
        ok, res, err = CT.replay_cases(prop.lower() + "_replay", cases, CS.code_spacing(), CS.code_keepalive())
        if not ok:
            chk.obligation_broken(f"cases {prop.lower()}_replay", (err or "")[-800:])
        else:
            nb = 0
            for i, r in zip(sel, res):
                sc, s = sessions[i]
                d = CS.compare_with_model(s, r)
                if d is None:
                    ml = r["log"]
                    il = strip_log(s.end_log)
                    if ml != il:
                        d = ("log", ml[-3:], il[-3:])
                if d is None:
                    validated += 1
                else:
                    nb += 1
                    if nb <= 4:
                        if d[0] == "refused":
                            acts = cases[sel.index(i)][1]
                            det = f"the model refuses event #{d[1]}: {acts[d[1]][:160]} after {[a[:40] for a in acts[max(0, d[1] - 3) : d[1]]]}"
                        else:
                            det = f"{d[0]}: model {d[1]!r} vs implementation {d[2]!r}"
                        chk.obligation_broken(f"correspondence trace replay (scenario seed {sc['seed']})", det[:700])
            if nb > 4:
                chk.obligation_broken("correspondence trace replay", f"{nb} sessions disagree in total")
    chk.cov["traces_validated_against_impl"] = validated
    chk.cov["rule"] = rule_text
    chk.cov["input_distribution"] = dist
    if sessions:
        sc, s = sessions[min(len(sessions) - 1, len(corpus))]
        chk.sample({"scenario": {k: (v if k != "progs" else [p[:3] for p in v]) for k, v in sc.items()}, "writes": [(t, d.decode("utf-8", "replace")) for t, d, _ in (s.port.writes[:6] if s.port else [])]})
    return chk.finish(
        trusted=[
            "correspondence: the real ynca.connection / pyserial threads run unmodified under the deterministic simulation harness (vlib/dsim.py); the recorded primitive events are "
            "projected onto the alphabet of Model/Conn.v and replayed: every event must be enabled in the model and wire, deliveries and log must be equal",
            "harness primitives (simulated FIFO queue, Event, Lock, Thread.join, sleep, clock, port) stand in for queue.Queue, threading and the OS; their contracts are modelled, not verified",
        ]
        + list(trusted_extra),
        assumptions=list(assumptions),
    )


def replay_scenario(path, monitors):
    d = json.load(open(path))
    sc = d["replay"].get("scenario")
    if not sc:
        print(json.dumps(d, indent=1)[:2000])
        return 0
    s = CS.run_scenario(sc)
    print("writes:", [(t, b) for t, b, _ in (s.port.writes if s.port else [])][:40])
    for name, mon in monitors:
        print(f"monitor {name}:", mon(s) or "ok")
    return 0
