"""C10 -- nothing the device sends can take the connection down."""
from __future__ import annotations

import enum
import json
import random

from .. import coqio
from .. import subcases as SC
from ..common import Check, cbytes, ct, run_cases_sharded
from ..subharness import canon_value, class_info, make_connection, model_value_to_canon

PROP_FILE = "Properties/C10.v"


def build_world():
    """real YncaProtocol -> real YncaConnection callbacks -> one real instance of every subunit class"""
    from ynca.connection import YncaProtocol

    infos, enums = class_info()
    conn = make_connection()
    insts = {}
    for cls, cid, funcs in infos:
        inst = cls(conn)
        inst._initialized = True
        insts[cid] = inst
    proto = YncaProtocol(message_callback=conn._call_registered_message_callbacks)
    return infos, conn, insts, proto


def type_ok(f, v):
    from ynca import converters as C

    if v is None:
        return True
    cv = f.converter
    parts = cv._converters if type(cv) is C.MultiConverter else [cv]
    for p in parts:
        if type(p) is C.EnumConverter and isinstance(v, p.datatype):
            return True
        if type(p) is C.StrConverter and type(v) is str:
            return True
        if type(p) in (C.IntConverter, C.IntOrNoneConverter) and type(v) is int:
            return True
        if type(p) is C.FloatConverter and type(v) is float:
            return True
    return False


def gen_stream(rng, infos, rec_lines, tier):
    parts = []
    kinds = {}
    n = rng.randrange(1, 25)
    for _ in range(n):
        r = rng.random()
        if r < 0.35:
            parts.append(rng.choice(rec_lines).encode("utf-8"))
            k = "recorded"
        elif r < 0.7:
            cls, cid, funcs = rng.choice(infos)
            attr, f = rng.choice(funcs)
            v = rng.choice(SC.ODD_VALUES + ["Auto Down", "Auto Up", "\x00", "a\x00b", "x" * 300])
            parts.append(f"@{cid}:{f.name}={v}".encode("utf-8"))
            k = "typed-odd"
        elif r < 0.8:
            cls, cid, funcs = rng.choice(infos)
            attr, f = rng.choice(funcs)
            bad = bytes(rng.choice([0x80, 0xBF, 0xC0, 0xC3, 0xE2, 0xED, 0xF0, 0xF5, 0xFF, 0x00]) for _ in range(rng.randrange(1, 6)))
            parts.append(f"@{cid}:{f.name}=".encode() + bad)
            k = "invalid-utf8"
        elif r < 0.9:
            parts.append(rng.choice([b"", b"@", b"@:", b"@MAIN", b"@MAIN:", b"@MAIN:VOL", b"@:VOL=1", b"@MAIN:=1", b"MAIN:VOL=1", b"@@MAIN:VOL=1", b"\x00\x00", b"@UNDEFINED", b"@RESTRICTED", b"\r", b"\n", b"@MAIN:VOL=1\n@MAIN:MUTE=On", b"@MAIN:VOL=\r"]))
            k = "malformed"
        else:
            L = rng.choice([1000, 5000]) if tier == "quick" else rng.choice([1000, 20000, 100000])
            parts.append(b"@MAIN:ZONENAME=" + b"z" * L)
            k = "long"
        kinds[k] = kinds.get(k, 0) + 1
    stream = b"\r\n".join(parts) + b"\r\n"
    return stream, kinds


def run_impl(stream, chunks_at):
    infos, conn, insts, proto = build_world()
    prev = 0
    err = None
    for c in list(chunks_at) + [len(stream)]:
        try:
            proto.data_received(stream[prev:c])
        except Exception as e:  # noqa
            err = (type(e).__name__, str(e)[:120], prev)
            break
        prev = c
    return infos, conn, insts, proto, err


def run(chk: Check):
    rng = random.Random(chk.seed)
    chk.build(PROP_FILE)
    infos0, _ = class_info()
    rec_lines = sorted({line for _, entries in SC.recordings() for d, line in entries if d == "Received"})
    n_streams = 500 if chk.tier == "quick" else 8000
    dist = {}
    model_cases = []
    SENTINEL = b"@MAIN:VOL=-12.5\r\n@SYS:MODELNAME=Sentinel\r\n"

    # (a) systematic: every (class, function) x every odd text, one line each followed by the sentinel
    for cls, cid, funcs in infos0:
        for attr, f in funcs:
            for v in SC.ODD_VALUES:
                stream = f"@{cid}:{f.name}={v}\r\n".encode("utf-8") + SENTINEL
                infos, conn, insts, proto, err = run_impl(stream, [])
                chk.count_case(["odd", cid, f.name, v], True)
                if err:
                    chk.violation(f"undecodable:{cid}:{f.name}", f"line @{cid}:{f.name}={v} raised {err[0]} on the reader path: {err[1]}", {"stream": list(stream), "chunks_at": []})
                    continue
                hv = insts[cid].function_handlers[f.name].value
                if not type_ok(f, hv):
                    chk.violation(f"wrongtype:{cid}:{f.name}", f"after @{cid}:{f.name}={v} the attribute holds {hv!r}", {"stream": list(stream), "chunks_at": []})
                if insts["MAIN"].function_handlers["VOL"].value != -12.5 or insts["SYS"].function_handlers["MODELNAME"].value != "Sentinel":
                    chk.violation(f"later-lines-lost:{cid}:{f.name}", f"lines after @{cid}:{f.name}={v} were not processed", {"stream": list(stream), "chunks_at": []})
    dist["systematic_lines"] = chk.cov["evaluations"]

    # (a') "all subsequent lines are still processed normally", across functions and objects: every odd text has by
    # now been offered to (and possibly refused by) every function; the same text is a perfectly good value of
    # the text functions, in a fresh set of objects too
    from ynca import converters as C

    text_funcs = [(cid, f) for cls, cid, funcs in infos0 for attr, f in funcs if type(f.converter) is C.StrConverter][:12]
    for v in SC.ODD_VALUES:
        stream = b"".join(f"@{cid}:{f.name}={v}\r\n".encode("utf-8") for cid, f in text_funcs) + SENTINEL
        infos, conn, insts, proto, err = run_impl(stream, [])
        chk.count_case(["odd-after-refusal", v], True)
        if err:
            chk.violation("later:raises", f"reader path raised {err[0]}: {err[1]}", {"stream": list(stream), "chunks_at": []})
            continue
        for cid, f in text_funcs:
            try:
                want = f.converter.to_value(v)
            except Exception:  # noqa
                continue
            got = insts[cid].function_handlers[f.name].value
            if got != want:
                chk.violation(f"later-lines-lost:{cid}:{f.name}", f"after the text {v!r} had been refused as a value of other functions, the line @{cid}:{f.name}={v} was not processed normally: the attribute reads {got!r}", {"stream": list(stream), "chunks_at": [], "after": "the systematic pass: this text offered to every function of every class"})
                break

    # (a'') runs: the same kind of unwelcome line many times in a row ("no line the device can send", however many of
    # them): k malformed / undecodable / error / invalid-UTF-8 lines back to back, then the two well-formed lines
    run_kinds = {
        "malformed": [b"junk", b"", b"@", b"@MAIN:VOL", b"MAIN:VOL=1", b"\x00\x00", b"@:=", b"hello world"],
        "undecodable": [b"@MAIN:VOL=Auto Down", b"@TUN:FMFREQ=Auto Down", b"@MAIN:PWR=Maybe", b"@TUN:PRESET=x", b"@MAIN:MUTE="],
        "error": [b"@UNDEFINED", b"@RESTRICTED"],
        "invalid-utf8": [b"@MAIN:ZONENAME=\xff\xfe", b"@MAIN:VOL=\xc3", b"\x80\x80"],
        "unknown": [b"@FOO:BAR=1", b"@MAIN:NOSUCH=1", b"@ZONE9:VOL=1.0"],
    }
    rrng = random.Random(chk.seed * 17 + 10)
    for kind, pool in sorted(run_kinds.items()):
        for k in ([2, 3, 5, 8, 13, 40, 200] if chk.tier == "quick" else [2, 3, 4, 5, 6, 8, 10, 13, 16, 20, 32, 40, 64, 100, 128, 200, 256, 1000, 5000]):
            for mixed in (False, True):
                lines = [rrng.choice(pool) for _ in range(k)] if mixed else [rrng.choice(pool)] * k
                stream = b"@MAIN:VOL=-30.0\r\n" + b"".join(ln + b"\r\n" for ln in lines) + SENTINEL
                infos, conn, insts, proto, err = run_impl(stream, [])
                chk.count_case(["run", kind, k, mixed, [list(x) for x in lines[:3]]], True)
                dist["run_lines"] = dist.get("run_lines", 0) + k
                rep = {"stream": list(stream) if len(stream) < 3000 else list(stream[:3000]), "chunks_at": [], "run": {"kind": kind, "length": k, "line": lines[0].decode("latin-1")}}
                if err:
                    chk.violation(f"run:raises:{kind}", f"after {k} {kind} lines in a row the reader path raised {err[0]}: {err[1]}", rep)
                    continue
                if insts["MAIN"].function_handlers["VOL"].value != -12.5 or insts["SYS"].function_handlers["MODELNAME"].value != "Sentinel":
                    chk.violation(f"run:later-lines-lost:{kind}", f"after {k} {kind} lines in a row (first: {lines[0]!r}) the two well-formed lines that followed were not processed", rep)

    # (b) random streams
    for si in range(n_streams):
        stream, kinds = gen_stream(rng, infos0, rec_lines, chk.tier)
        for k, v in kinds.items():
            dist[k] = dist.get(k, 0) + v
        stream += SENTINEL
        cuts = sorted(set(rng.randrange(0, len(stream)) for _ in range(rng.choice([0, 1, 3, 8]))))
        infos, conn, insts, proto, err = run_impl(stream, cuts)
        chk.count_case(["stream", list(stream[:4000]), cuts], True)
        rep = {"stream": list(stream) if len(stream) < 3000 else list(stream[:3000]), "chunks_at": cuts}
        if err:
            chk.violation("stream:raises", f"reader path raised {err[0]}: {err[1]} (stream of {len(stream)} bytes, near offset {err[2]})", rep)
            continue
        for cls, cid, funcs in infos:
            for attr, f in funcs:
                hv = insts[cid].function_handlers[f.name].value
                if not type_ok(f, hv):
                    chk.violation(f"wrongtype:{cid}:{f.name}", f"attribute holds {hv!r}", rep)
        if insts["MAIN"].function_handlers["VOL"].value != -12.5 or insts["SYS"].function_handlers["MODELNAME"].value != "Sentinel":
            chk.violation("stream:later-lines-lost", "the two well-formed lines at the end of the stream were not processed", rep)
        if si < (120 if chk.tier == "quick" else 800) and len(stream) < 2500:
            ids = []
            for ln in stream.split(b"\r\n"):
                if ln.startswith(b"@") and b":" in ln:
                    i = ln[1:].split(b":")[0].decode("utf-8", "replace")
                    if i in insts and i not in ids:
                        ids.append(i)
            ids = (["MAIN", "SYS"] + [i for i in ids if i not in ("MAIN", "SYS")])[:5]
            final = {i: [(n, canon_value(h.value)) for n, h in insts[i].function_handlers.items()] for i in ids}
            chunks = []
            prev = 0
            for c in cuts + [len(stream)]:
                chunks.append(stream[prev:c])
                prev = c
            model_cases.append((chunks, ids, final, bytes(proto.buffer)))

    # (c) the same through the whole library: hostile and unknown lines arriving while YncaApi.initialize() runs
    # (its own detection callback is on the reader path too) and afterwards
    from .. import apiscen as AS

    n_api = 24 if chk.tier == "quick" else 400
    dist["api_sessions"] = n_api
    hostile = ["@HDRADIO:AVAIL=Ready", "@FOO:AVAIL=Not Connected", "@:AVAIL=x", "@ZONE9:AVAIL=Ready", "@SYS:AVAIL=Ready", "@MAIN:AVAIL=bogus", "@MAIN:VOL=Auto Down", "@TUN:FMFREQ=Auto Down",
               "@MAIN:BASIC=x", "junk", "@", "@A:B", "@SYS:MODELNAME=", "@MAIN:INP=\x00", "@NETRADIO:SONG=" + "z" * 400]
    for k in range(n_api):
        arng = random.Random(rng.randrange(1 << 30))
        rx, present = AS.synthetic_receiver(arng, infos0)
        s = AS.ApiSession(arng.randrange(1 << 30), rx, latency_us=arng.choice([0, 20000, 60000]), switch_prob=arng.choice([0.05, 0.3]))
        lines = [arng.choice(hostile) for _ in range(arng.randrange(3, 14))]
        bad_bytes = [b"@MAIN:ZONENAME=\xff\xfe", b"\x80\x80", b"@\xc3:AVAIL=Ready"]

        def body(s, lines=lines, arng=arng):
            api = s.make_api()
            for ln in lines:
                s.dev.emit_at(arng.randrange(0, 9_000_000), ln.encode("utf-8") + b"\r\n")
            for b in bad_bytes:
                if arng.random() < 0.4:
                    s.dev.emit_at(arng.randrange(0, 9_000_000), b + b"\r\n")
            s.call(api.initialize)
            s.sleep(2.0)
            s.still_connected = bool(api._connection.connected) if api._connection else False
            api.close()

        s.run(body)
        chk.count_case(["api-hostile", k, lines], True)
        rep = {"unsolicited_lines": lines, "seed": k}
        if s.sim.failure is not None:
            chk.violation("api:no-termination", f"initialize() with hostile unsolicited lines never came to rest: {s.sim.failure}", rep)
        elif s.disconnects:
            died = [e for e in s.sim.events if e["k"] == "ThreadDied"]
            chk.violation("api:connection-lost", f"unsolicited lines {lines[:4]!r}... took the connection down during start-up (disconnect callback invoked{'; reader thread died with ' + died[0]['exc'] + ': ' + died[0]['msg'] if died else ''})", rep)
        elif s.exc is not None:
            chk.violation("api:initialize-raised", f"initialize() raised {type(s.exc).__name__}: {s.exc} on a device that answers every query, with unsolicited lines {lines[:4]!r}...", rep)
        elif not getattr(s, "still_connected", True):
            chk.violation("api:connection-lost", "the connection reports not connected after start-up with hostile unsolicited lines", rep)

    validated = 0
    if not any(b["obligation"].startswith(("translator", "compile")) for b in chk.broken):

        def mk(part):
            texts = []
            for chunks, ids, final, buf in part:
                for ln in b"".join(chunks).split(b"\r\n"):
                    t = ln.decode("utf-8", "replace")
                    j = t.find("=")
                    if j >= 0:
                        texts.append(t[j + 1 :])
                        # later '=' positions do not matter: the parser takes the first '=' after the colon
                        k = t.find(":")
                        if 0 <= k < j:
                            texts.append(t[t.find("=", k + 2) + 1 :] if t.find("=", k + 2) >= 0 else "")
            lines = [coqio.CASES_HEADER, "From Ynca Require Import Model.Framing Model.Line Model.Reader Model.Subunit Model.Pipeline Gen.Enums Gen.Functions.\n"]
            lines.append(f"Definition pf := table_float {coqio.float_oracle_table(texts)}.")
            lines.append(f"Definition pi := table_int {coqio.int_oracle_table(texts)}.")
            items = []
            for chunks, ids, final, buf in part:
                items.append("([" + "; ".join(cbytes(c) for c in chunks) + "], [" + "; ".join(ct(i) for i in ids) + "])")
            lines.append("Definition cases : list (list (list N) * list text) :=\n [" + ";\n  ".join(items) + "].\n")
            lines.append(
                "Definition mk_insts (ids : list text) : list inst :=\n"
                "  flat_map (fun i => match find_class all_subunits i with Some sc => [(sc, {| ss_vals := []; ss_initialized := true; ss_event := false |})] | None => [] end) ids.\n"
                "Definition run1 (c : list (list N) * list text) : list N :=\n"
                "  match pipeline pf pi rx_init (mk_insts (snd c)) (fst c) with\n"
                "  | Raise => [10; END; END2]\n"
                "  | Ok (rs, is, _) => (flat_map (fun i => show_reads (fst i) (snd i) ++ [7; END]) is ++ (9 :: r_buf rs) ++ [END; END2])%list\n"
                "  end.\n"
            )
            lines.append("Eval vm_compute in flat_map run1 cases.\n")
            return "\n".join(lines)

        ok, outs, err = run_cases_sharded("c10", mk, model_cases, shard=30)
        if not ok:
            chk.obligation_broken("cases c10", (err or "")[-800:])
        else:
            res = [c for o in outs for c in coqio.parse_flat2(o)]
            if len(res) != len(model_cases):
                chk.obligation_broken("cases c10", f"{len(res)} results for {len(model_cases)} cases")
            nbad = 0
            for (chunks, ids, final, buf), items in zip(model_cases, res):
                if items and items[0] == [10]:
                    nbad += 1
                    chk.obligation_broken("correspondence pipeline", "model raised")
                    continue
                groups, cur = [], []
                for t in items[:-1]:
                    if t == [7]:
                        groups.append(cur)
                        cur = []
                    else:
                        cur.append(("absent",) if t[0] == 0 else model_value_to_canon(coqio.decode_value(t[1:])))
                rest = bytes(items[-1][1:])
                good = rest == buf and len(groups) == len(ids) and all(g == [c for _, c in final[i]] for g, i in zip(groups, ids))
                if good:
                    validated += 1
                else:
                    nbad += 1
                    if nbad <= 4:
                        det = []
                        for g, i in zip(groups, ids):
                            det += [(i, n, a, b) for (n, a), b in zip(final[i], g) if a != b][:2]
                        chk.obligation_broken(f"correspondence pipeline stream={b''.join(chunks)[:120]!r}", f"(subunit, function, implementation, model): {det!r}; buffer impl {buf[:40]!r} model {rest[:40]!r}"[:700])
            if nbad > 4:
                chk.obligation_broken("correspondence pipeline", f"{nbad} disagreements in total")
    chk.cov["traces_validated_against_impl"] = validated
    chk.cov["rule"] = (
        "real YncaProtocol.data_received -> real YncaConnection callbacks -> one real instance of each of the 23 subunit classes. "
        "(a) every (class, function) x every odd text (non-numeric, 'Auto Down', padded/exponent/unicode digits, empty, emoji ...) as one line; "
        "(a'') runs of 2..200 (thorough: ..5000) malformed / undecodable / error / invalid-UTF-8 / unknown lines back to back, then two well-formed lines; "
        f"(b) {n_streams} random streams mixing recorded traffic, typed functions with odd texts, invalid UTF-8, NULs, malformed '@' variants, lone CR/LF and 1k-100k byte lines, "
        "randomly chunked; each followed by two well-formed lines that must still be processed. distinct by content; every case is non-trivial (carries at least one typed or malformed line)."
    )
    chk.cov["input_distribution"] = dist
    chk.sample({"line": "@DAB:FMFREQ=Auto Down", "then": SENTINEL.decode()})
    return chk.finish(
        trusted=[
            "correspondence: the real reader path (pyserial Packetizer/LineReader, handle_line, YncaConnection callbacks, all subunit handlers) vs Pipeline.pipeline evaluated by vm_compute",
            "modelled, not verified: Python exception propagation through pyserial's ReaderThread.run (an exception in data_received ends the loop and calls connection_lost) -- established by reading, exercised in C15",
        ],
        assumptions=["user callbacks that raise are outside the statement", "float()/int() outside the plain grammars are oracles instantiated with the observed results"],
    )


def replay(path):
    d = json.load(open(path))
    r = d["replay"]
    stream = bytes(r["stream"])
    infos, conn, insts, proto, err = run_impl(stream, r.get("chunks_at", []))
    print("stream:", stream[:300])
    print("implementation:", "raised " + repr(err) if err else "no exception; MAIN.VOL=%r" % insts["MAIN"].function_handlers["VOL"].value)
    print("required: no exception on the reader path; later lines processed")
    return 0
