"""C05 -- a write sends exactly one canonical PUT and never touches the cache."""
from __future__ import annotations

import enum
import json
import math
import random
import re
from fractions import Fraction

from .. import coqio
from ..common import Check, ct, run_cases_sharded
from ..subharness import canon_value, class_info, deliver, make_connection
from .c11 import judge as judge_step, stepped_functions

PROP_FILE = "Properties/C05.v"


class Plain:
    def __repr__(self):
        return "<object>"


def coq_pyval(v):
    if isinstance(v, enum.Enum):
        return f"(PEnum {ct(type(v).__name__)} {ct(v.name)} {ct(v.value)} {'true' if isinstance(v, str) else 'false'})"
    if type(v) is str:
        return f"(PStr {ct(v)})"
    if type(v) is bool:
        return f"(PBool {'true' if v else 'false'})"
    if type(v) is int:
        return f"(PInt ({v})%Z)"
    if type(v) is float:
        if math.isnan(v):
            return "PNan"
        if math.isinf(v):
            return f"(PInf {'true' if v < 0 else 'false'})"
        fr = Fraction(v)
        return f"(PFloat ({fr.numerator})%Z {fr.denominator}%positive)"
    if v is None:
        return "PNone"
    if isinstance(v, Plain):
        return "PObj"
    return None


def conv_parts(f):
    from ynca import converters as C

    cv = f.converter
    return cv._converters if type(cv) is C.MultiConverter else [cv]


def kinds_of(f):
    from ynca import converters as C

    return [type(p) for p in conv_parts(f)]


def values_for(f, rng, enums, stepinfo):
    """[(value, expectation)] expectation: ('put', canon) | ('raise',) | ('open',) per the domain fixed in DESIGN.md"""
    from ynca import converters as C

    out = []
    parts = conv_parts(f)
    ks = [type(p) for p in parts]
    numeric = [k for k in ks if k in (C.IntConverter, C.IntOrNoneConverter, C.FloatConverter)]
    enum_p = [p for p in parts if type(p) is C.EnumConverter]
    str_p = [p for p in parts if type(p) is C.StrConverter]
    # enumeration members
    for p in enum_p:
        for m in p.datatype.__members__.values():
            out.append((m, ("put", m.value)))
    other = rng.choice([e for e in enums.values() if not enum_p or e is not enum_p[0].datatype])
    out.append((list(other.__members__.values())[0], ("open",)))
    # text
    for p in str_p:
        for n in (0, 1, 8, 9, 10, 11, 40):
            t = ("Zoné" * 12)[:n]
            ok = not (p._min_len and n < p._min_len) and not (p._max_len and n > p._max_len)
            out.append((t, ("put", t) if ok else ("raise",)))
    # numbers
    if numeric:
        first = numeric[0]
        step = stepinfo.get(f.name)
        nums = [0, 7, -5, 100, 16.5, -0.0, 2.5, -30.5, 8.6, 0.3, 1e300, True, False, 3.0]
        for v in nums:
            if type(v) is bool:
                out.append((v, ("open",) if step is None else ("step", v)))
            elif step is not None:
                out.append((v, ("step", v)))
            elif first is not C.FloatConverter and type(v) is int:
                out.append((v, ("put", str(v))))
            else:
                out.append((v, ("open",)))
        for v in (math.nan, math.inf, -math.inf):
            # "cannot be read as a number": nan/inf are numbers of type float; only int functions and stepped functions must reject them
            out.append((v, ("raise",) if (step is not None or first is not C.FloatConverter) and not enum_p else ("open",)))
        out.append(("12", ("open",)))
        out.append(("abc", ("raise",) if not enum_p and not str_p else ("open",)))
    if not str_p:
        if numeric and not enum_p:
            out.append((None, ("raise",)))
            out.append((Plain(), ("raise",)))
        elif enum_p and not numeric:
            out.append((None, ("raise",)))
            out.append((Plain(), ("raise",)))
            out.append((5, ("raise",)))
            out.append((1.5, ("raise",)))
            out.append(("On", ("raise",)))
        elif enum_p and numeric:
            out.append((None, ("raise",)))
            out.append((Plain(), ("raise",)))
    else:
        out.append((None, ("open",)))
        out.append((5, ("open",)))
    return out


def expected_fname(method_name):
    return re.sub(r"_(up|down)$", "", method_name).upper()


def run(chk: Check):
    from ynca.function import Cmd, FunctionMixinBase
    from ynca.subunit import SubunitBase

    rng = random.Random(chk.seed)
    chk.build(PROP_FILE)
    infos, enums = class_info()
    stepinfo = {}
    for c, attr, f, dec, step, special in stepped_functions():
        stepinfo[f.name] = (dec, step, special)
    attr_cases = []  # (cid, attr, value, impl)
    open_cases = set()  # assignments of kinds the statement leaves open
    meth_cases = []  # (cid, method, value|NOARG, impl)
    dist = {"assignments": 0, "method_calls": 0, "by_expectation": {}}
    NOARG = object()

    def bump(k):
        dist["by_expectation"][k] = dist["by_expectation"].get(k, 0) + 1

    for cls, cid, funcs in infos:
        conn = make_connection()
        inst = cls(conn)
        # give every function a cached value first, so that "reads unchanged" is not vacuous
        for attr, f in funcs:
            parts = conv_parts(f)
            from ynca import converters as C

            seedv = {C.EnumConverter: None, C.StrConverter: "seed", C.IntConverter: "3", C.IntOrNoneConverter: "3", C.FloatConverter: "-20.5"}
            p0 = parts[0]
            sv = seedv[type(p0)] if type(p0) is not C.EnumConverter else list(p0.datatype.__members__.values())[0].value
            deliver(conn, ("OK", (cid, f.name, sv)))

        def snapshot():
            return [(n, canon_value(h.value)) for n, h in inst.function_handlers.items()]

        for attr, f in funcs:
            writable = Cmd.PUT in f.cmd
            readable = Cmd.GET in f.cmd
            if not readable:
                try:
                    getattr(inst, attr)
                    chk.violation(f"{cls.__name__}.{attr}:writeonly-read", f"reading write-only {cls.__name__}.{attr} did not raise", {"class": cls.__name__, "attr": attr, "op": "read"})
                except AttributeError:
                    pass
            for v, exp in values_for(f, rng, enums, stepinfo):
                before = snapshot()
                n0 = len(conn._protocol.sent)
                try:
                    setattr(inst, attr, v)
                    res = ("ok", conn._protocol.sent[n0:])
                except Exception as e:  # noqa
                    res = ("raise", type(e).__name__, conn._protocol.sent[n0:])
                after = snapshot()
                dist["assignments"] += 1
                chk.count_case(["assign", cid, attr, repr(v)], True)
                rep = {"class": cls.__name__, "attr": attr, "value": repr(v), "observed": repr(res)}
                sent = res[1] if res[0] == "ok" else res[2]
                if before != after:
                    chk.violation(f"{cls.__name__}.{attr}:cache-touched", f"{cls.__name__}.{attr} = {v!r} changed what attributes read: {[(a, b) for a, b in zip(before, after) if a != b][:2]}", rep)
                if not writable:
                    bump("readonly")
                    if res[0] != "raise" or sent:
                        chk.violation(f"{cls.__name__}.{attr}:readonly", f"assignment to read-only {cls.__name__}.{attr} gave {res!r}", rep)
                elif exp[0] == "put":
                    bump("valid")
                    want = [("put", cid, f.name, exp[1])]
                    if res[0] != "ok" or sent != want:
                        chk.violation(f"{cls.__name__}.{attr}:valid-put", f"{cls.__name__}.{attr} = {v!r}: expected exactly {want!r}, got {res!r}", rep)
                elif exp[0] == "step":
                    bump("valid-stepped")
                    dec, step, special = stepinfo[f.name]
                    if res[0] != "ok" or len(sent) != 1 or sent[0][:3] != ("put", cid, f.name):
                        chk.violation(f"{cls.__name__}.{attr}:valid-put", f"{cls.__name__}.{attr} = {v!r}: expected one PUT, got {res!r}", rep)
                    else:
                        why = judge_step(v, sent[0][3], dec, step, special)
                        if why:
                            chk.violation(f"{cls.__name__}.{attr}:canonical", f"{cls.__name__}.{attr} = {v!r} sent {sent[0][3]!r}: {why}", rep)
                elif exp[0] == "raise":
                    bump("must-raise")
                    if res[0] != "raise" or sent:
                        chk.violation(f"{cls.__name__}.{attr}:out-of-domain", f"{cls.__name__}.{attr} = {v!r} must raise and transmit nothing, got {res!r}", rep)
                else:
                    bump("open")
                    if len(sent) > 1:
                        chk.violation(f"{cls.__name__}.{attr}:multi-put", f"{cls.__name__}.{attr} = {v!r} transmitted {sent!r}", rep)
                if coq_pyval(v) is not None:
                    attr_cases.append((cid, attr, v, res))
                    if exp[0] == "open":
                        open_cases.add((cid, attr, repr(v)))

        # the same on an instance for which the device has reported NOTHING yet (every attribute reads None),
        # each value written twice in a row: a write must not make anything readable, and a value that is
        # rejected once is rejected again, with nothing transmitted either time
        conn2 = make_connection()
        inst2 = cls(conn2)

        def snapshot2():
            return [(n, canon_value(h.value)) for n, h in inst2.function_handlers.items()]

        for attr, f in funcs:
            if Cmd.PUT not in f.cmd:
                continue
            for v, exp in values_for(f, rng, enums, stepinfo):
                if exp[0] not in ("put", "step", "raise"):
                    continue
                outcomes = []
                for rep in (0, 1):
                    before = snapshot2()
                    n0 = len(conn2._protocol.sent)
                    try:
                        setattr(inst2, attr, v)
                        res = ("ok", conn2._protocol.sent[n0:])
                    except Exception as e:  # noqa
                        res = ("raise", type(e).__name__, conn2._protocol.sent[n0:])
                    after = snapshot2()
                    outcomes.append(res)
                    dist["assignments"] += 1
                    chk.count_case(["assign-unreported", cid, attr, repr(v), rep], True)
                    rep_d = {"class": cls.__name__, "attr": attr, "value": repr(v), "observed": repr(res), "on": "an instance nothing was reported to", "repetition": rep}
                    if before != after:
                        chk.violation(f"{cls.__name__}.{attr}:cache-touched", f"{cls.__name__}.{attr} = {v!r} on a subunit the device has reported nothing to made attributes readable: {[(a, b) for a, b in zip(before, after) if a != b][:2]}", rep_d)
                    sent = res[1] if res[0] == "ok" else res[2]
                    if exp[0] == "raise" and (res[0] != "raise" or sent):
                        chk.violation(f"{cls.__name__}.{attr}:out-of-domain", f"{cls.__name__}.{attr} = {v!r} (assignment #{rep + 1} of the same value) must raise and transmit nothing, got {res!r}", rep_d)
                    if exp[0] in ("put", "step") and (res[0] != "ok" or len(sent) != 1):
                        chk.violation(f"{cls.__name__}.{attr}:valid-put", f"{cls.__name__}.{attr} = {v!r} (assignment #{rep + 1} of the same value): expected exactly one PUT, got {res!r}", rep_d)
                if outcomes[0] != outcomes[1]:
                    chk.violation(f"{cls.__name__}.{attr}:history-dependent", f"{cls.__name__}.{attr} = {v!r} twice in a row: first {outcomes[0]!r}, then {outcomes[1]!r}", {"class": cls.__name__, "attr": attr, "value": repr(v)})

        # action methods
        base = set(dir(SubunitBase))
        for m in sorted(dir(cls)):
            if m.startswith("_") or m in base:
                continue
            raw = __import__("inspect").getattr_static(cls, m)
            if isinstance(raw, (FunctionMixinBase, property)) or not callable(getattr(cls, m)):
                continue
            import inspect

            nparams = len(inspect.signature(getattr(cls, m)).parameters) - 1
            has_default = nparams == 1 and list(inspect.signature(getattr(cls, m)).parameters.values())[1].default is not inspect.Parameter.empty
            args = []
            if nparams == 0:
                args = [NOARG]
            else:
                if has_default:
                    args.append(NOARG)
                if "vol" in m:
                    args += [0.5, 1, 2, 5, 1.0, 2.0, 5.0, True, False, 3, 10, 0, -1, 0.25, 2.5, 1e300]
                elif m == "playback":
                    from ynca.enums import Playback

                    args += list(Playback.__members__.values()) + ["Play", None, 3]
                elif m == "mem":
                    args += [None, 1, 2, 39, 40, 7, "Auto", "12"]
                elif m == "scene":
                    args += [1, 12, "3", "x", 0]
                elif m == "remotecode":
                    args += ["", "1234567", "12345678", "123456789", "7F0158A7", "abcdefgh", None, 12345678, Plain()]
                else:
                    args += [1, "x", None]
            for a in args:
                before = snapshot()
                n0 = len(conn._protocol.sent)
                try:
                    if a is NOARG:
                        getattr(inst, m)()
                    else:
                        getattr(inst, m)(a)
                    res = ("ok", conn._protocol.sent[n0:])
                except Exception as e:  # noqa
                    res = ("raise", type(e).__name__, conn._protocol.sent[n0:])
                after = snapshot()
                dist["method_calls"] += 1
                chk.count_case(["method", cid, m, "noarg" if a is NOARG else repr(a)], True)
                sent = res[1] if res[0] == "ok" else res[2]
                rep = {"class": cls.__name__, "method": m, "arg": "<default>" if a is NOARG else repr(a), "observed": repr(res)}
                if before != after:
                    chk.violation(f"{cls.__name__}.{m}:cache-touched", f"{cls.__name__}.{m}({a!r}) changed what attributes read", rep)
                if res[0] == "ok":
                    if len(sent) != 1 or sent[0][:3] != ("put", cid, expected_fname(m)):
                        chk.violation(f"{cls.__name__}.{m}:one-put", f"{cls.__name__}.{m}({'' if a is NOARG else repr(a)}) must transmit exactly one PUT {cid}:{expected_fname(m)}, got {sent!r}", rep)
                    elif "vol" in m and (a is NOARG or type(a) in (int, float, bool)):
                        word = "Up" if m.endswith("_up") else "Down"
                        allowed = {word} | {f"{word} {n} dB" for n in (1, 2, 5)}
                        if sent[0][3] not in allowed:
                            chk.violation(f"{cls.__name__}.{m}:relative-step", f"{cls.__name__}.{m}({'' if a is NOARG else repr(a)}) sent {sent[0][3]!r}, allowed {sorted(allowed)}", rep)
                else:
                    if sent:
                        chk.violation(f"{cls.__name__}.{m}:raise-but-sent", f"{cls.__name__}.{m}({a!r}) raised but transmitted {sent!r}", rep)
                    if m == "remotecode" and type(a) is str and len(a) == 8:
                        chk.violation(f"{cls.__name__}.{m}:valid-raises", f"remotecode({a!r}) raised {res[1]}", rep)
                    if m == "mem" and type(a) is int and 1 <= a <= 40:
                        # the documented domain of the memory slot is 1-40, both ends included
                        chk.violation(f"{cls.__name__}.{m}:valid-raises", f"mem({a!r}) raised {res[1]} although {a} is a valid memory slot (1-40)", rep)
                if m == "remotecode" and type(a) is str and len(a) != 8 and res[0] == "ok":
                    chk.violation(f"{cls.__name__}.{m}:out-of-domain", f"remotecode({a!r}) of length {len(a)} was transmitted", rep)
                if a is NOARG or coq_pyval(a) is not None:
                    meth_cases.append((cid, m, a, res))

    # ------------------------------------------------------------ model correspondence
    validated = 0
    broken_compile = any(b["obligation"].startswith(("translator", "compile")) for b in chk.broken)
    if not broken_compile:

        def cmp(kind, label, impl, items):
            tag = items[0][0]
            sent = impl[1] if impl[0] == "ok" else impl[2]
            if tag == 11:
                return None  # kind outside the model
            if tag == 10:
                return impl[0] == "raise" and not sent
            puts = []
            for t in items[1:]:
                i = t.index(coqio.SEP)
                j = t.index(coqio.SEP, i + 1)
                puts.append(("put", coqio.txt(t[:i]), coqio.txt(t[i + 1 : j]), coqio.txt(t[j + 1 :])))
            return impl[0] == "ok" and sent == puts

        def mk_attr(part):
            texts = [v for _, _, v, _ in part if type(v) is str] + [v.value for _, _, v, _ in part if isinstance(v, enum.Enum)]
            lines = [coqio.CASES_HEADER, "From Ynca Require Import Model.Put Gen.Enums Gen.Functions.\n"]
            lines.append(f"Definition pf := table_float {coqio.float_oracle_table(texts)}.")
            lines.append(f"Definition pi := table_int {coqio.int_oracle_table(texts)}.")
            items = [f"({ct(cid)}, {ct(attr)}, {coq_pyval(v)})" for cid, attr, v, _ in part]
            lines.append("Definition cases : list (text * text * pyval) :=\n [" + ";\n  ".join(items) + "].\n")
            lines.append(
                "Definition run1 (c : text * text * pyval) : list N :=\n  let '(id, a, v) := c in\n"
                "  match find_class all_subunits id with\n  | None => [9; END; END2]\n  | Some sc => show_put_result (set_attr pf pi sc a v)\n  end.\n"
            )
            lines.append("Eval vm_compute in flat_map run1 cases.\n")
            return "\n".join(lines)

        ok, outs, err = run_cases_sharded("c05_attr", mk_attr, attr_cases, shard=700)
        if not ok:
            chk.obligation_broken("cases c05_attr", (err or "")[-800:])
        else:
            res = [c for o in outs for c in coqio.parse_flat2(o)]
            if len(res) != len(attr_cases):
                chk.obligation_broken("cases c05_attr", f"{len(res)} results for {len(attr_cases)} cases")
            nb = 0
            skipped = 0
            for (cid, attr, v, impl), items in zip(attr_cases, res):
                r = cmp("attr", (cid, attr, v), impl, items)
                if r is None:
                    skipped += 1
                elif r:
                    validated += 1
                elif (cid, attr, repr(v)) in open_cases:
                    # a kind of value the statement says nothing about: a difference between model and code here
                    # does not touch any clause of the property (recorded, not an obligation)
                    dist["open_kind_differences"] = dist.get("open_kind_differences", 0) + 1
                else:
                    nb += 1
                    if nb <= 5:
                        chk.obligation_broken(f"correspondence set_attr {cid}.{attr} = {v!r}", f"model {items!r} vs implementation {impl!r}"[:500])
            dist["assignments_outside_model"] = skipped
            if nb > 5:
                chk.obligation_broken("correspondence set_attr", f"{nb} disagreements in total")

        methods_ok = not any("Gen/Methods" in b["obligation"] for b in chk.broken)

        def mk_meth(part):
            lines = [coqio.CASES_HEADER, "From Ynca Require Import Model.Put Model.Methods Gen.Enums Gen.Functions Gen.Methods.\n"]
            items = [f"({ct(cid)}, {ct(m)}, {'None' if a is NOARG else '(Some ' + coq_pyval(a) + ')'})" for cid, m, a, _ in part]
            lines.append("Definition cases : list (text * text * option pyval) :=\n [" + ";\n  ".join(items) + "].\n")
            lines.append(
                "Definition run1 (c : text * text * option pyval) : list N :=\n  let '(id, m, a) := c in\n"
                "  match assoc id all_methods with\n  | None => [9; END; END2]\n  | Some ms =>\n"
                "    match find (fun x => teqb (fst (fst x)) m) ms with\n    | None => [9; END; END2]\n"
                "    | Some (_, b, d) =>\n"
                "        match a with\n        | Some v => show_put_result (call_method id b v)\n"
                "        | None => match d with\n                  | Some dd => match default_arg dd with Some v => show_put_result (call_method id b v) | None => [11; END; END2] end\n"
                "                  | None => show_put_result (call_method id b PNone)\n                  end\n        end\n    end\n  end.\n"
            )
            lines.append("Eval vm_compute in flat_map run1 cases.\n")
            return "\n".join(lines)

        ok, outs, err = run_cases_sharded("c05_meth", mk_meth, meth_cases, shard=700)
        if not ok:
            chk.obligation_broken("cases c05_meth", (err or "")[-800:])
        else:
            res = [c for o in outs for c in coqio.parse_flat2(o)]
            nb = 0
            for (cid, m, a, impl), items in zip(meth_cases, res):
                if items[0] == [9]:
                    nb += 1
                    chk.obligation_broken(f"correspondence method {cid}.{m}", "method not in generated tables")
                    continue
                r = cmp("meth", (cid, m, a), impl, items)
                if r is None:
                    continue
                if r:
                    validated += 1
                else:
                    nb += 1
                    if nb <= 5:
                        chk.obligation_broken(f"correspondence call_method {cid}.{m}({'' if a is NOARG else repr(a)})", f"model {items!r} vs implementation {impl!r}"[:500])
            if nb > 5:
                chk.obligation_broken("correspondence call_method", f"{nb} disagreements in total")
    chk.cov["traces_validated_against_impl"] = validated
    chk.cov["exhaustive"] = True
    chk.cov["rule"] = (
        "every attribute of every class x (every member of its enumeration, a member of another enumeration, texts of length 0,1,8,9,10,11,40, "
        "ints, floats incl. grid/tie/-0.0/huge, bools, nan, +-inf, numeric and non-numeric str, None, a plain object), every action method x its argument kinds "
        "(all Playback members, steps 0.5/1/2/5 as int/float/bool and others, slots, scene ids, remote codes of length 0,7,8,9, wrong types, defaults); "
        "each on a real instance over a real YncaConnection with all caches pre-filled, reads compared before/after. distinct by (class, attribute/method, repr(value)); all cases non-trivial."
    )
    chk.cov["input_distribution"] = dist
    chk.sample({"assignment": "Main.vol = 8.6", "expected": "exactly one PUT MAIN:VOL=8.5 (C11 grid), cache unchanged"})
    chk.sample({"call": "Main.vol_up(1.0)", "allowed": ["Up", "Up 1 dB", "Up 2 dB", "Up 5 dB"]})
    return chk.finish(
        trusted=[
            "correspondence: real descriptors/methods on real instances vs set_attr / call_method evaluated by vm_compute; Python arguments mapped to the finite taxonomy pyval",
            "modelled, not verified: the descriptor protocol, str()/format() of int, bool and integral float, `in` on a list of ints, len(); float()/int() of text are oracles",
            "translator: AST patterns of action methods and of do_vol_up/do_vol_down (fail-closed to MOpaque)",
        ],
        assumptions=[
            "domain fixed in DESIGN.md section 6 (C05): bools and floats given to plain integer attributes, numeric strings, members of another enumeration and non-text given to unlimited text attributes are left open",
            "nan/inf count as 'cannot be read as a number' for integer and stepped functions only",
        ],
    )


def replay(path):
    d = json.load(open(path))
    r = d["replay"]
    infos, _ = class_info()
    for cls, cid, funcs in infos:
        if cls.__name__ == r.get("class"):
            conn = make_connection()
            inst = cls(conn)
            try:
                if "method" in r:
                    if r["arg"] == "<default>":
                        getattr(inst, r["method"])()
                    else:
                        getattr(inst, r["method"])(eval(r["arg"], {"nan": math.nan, "inf": math.inf}))
                elif r.get("op") == "read":
                    getattr(inst, r["attr"])
                else:
                    setattr(inst, r["attr"], eval(r["value"], {"nan": math.nan, "inf": math.inf, **{e.__name__: e for e in _.values()}}))
                print("implementation: ok, transmitted", conn._protocol.sent)
            except Exception as e:  # noqa
                print("implementation: raised", type(e).__name__, e, "transmitted", conn._protocol.sent)
    print("recorded:", d.get("what"))
    return 0
