"""C12 -- the device never sees a silent gap longer than the keep-alive interval."""
from .. import connscen as CS
from .conn_common import replay_scenario, run_conn_check

MON = [("gap", CS.mon_c12), ("spacing", CS.mon_c08)]


def run(chk):
    return run_conn_check(
        chk, "C12", "Properties/C12.v", MON, dict(allow_delay=False, long_idle=True), 200, 4000,
        "sessions up to several keep-alive intervals long with command bursts placed around the expiry instants (29.9 / 30.0 / 30.05 / 31 / 45 / 61 s sleeps), no injected stalls "
        "(upper bounds assume a prompt scheduler). distinct by scenario; non-trivial = at least 2 user commands interleaved with the sender, or a session crossing a keep-alive expiry.",
        nontrivial=lambda s: CS.nontrivial_conn(s) or (s.sim.now > CS.KEEPALIVE),
        assumptions=["computation, port writes and thread wake-ups take no (virtual) time; the real bound is this plus scheduling latency, which no model of the code can bound"],
    )


def replay(path):
    return replay_scenario(path, MON)
