"""C15 -- an unexpected disconnect is reported exactly once and ends all activity."""
from .. import lifescen as LS
from .life_common import replay_life, run_life_check

CORPUS = [
    # an empty raw string queued behind other commands when the link drops: the drain must not stop at it
    {"progs": [[("raw", "@MAIN:VOL=Up"), ("raw", ""), ("raw", "@MAIN:VOL=Down"), ("put", "MAIN", "PWR", "On"), ("raw", "@X:Y=1"), ("raw", "@X:Y=2")]], "mode": "answer", "latency_us": 20000,
     "log_size": 0, "tail_idle": 3.0, "switch_prob": 0.05, "delay_prob": 0, "unsolicited": False, "seed": 3, "read_log_midway": False, "kind": "fault", "disc_cb": True,
     "fault": {"at_us": 250000, "kind": "eof"}, "post_ops": [("put", "MAIN", "VOL", "1")], "close_after": True, "disc_closes": False},
]


def _corpus_files():
    """minimised / recorded failures kept as a corpus that runs first"""
    import json
    import os

    d = os.path.join(os.path.dirname(os.path.dirname(os.path.dirname(os.path.abspath(__file__)))), "corpus")
    out = []
    for fn in sorted(os.listdir(d)) if os.path.isdir(d) else []:
        if fn.startswith("C15-") and fn.endswith(".json"):
            out.append(json.load(open(os.path.join(d, fn)))["scenario"])
    return out


def run(chk):
    CORPUS.extend(x for x in _corpus_files() if x not in CORPUS)
    return run_life_check(
        chk, "C15", "Properties/C15.v", "fault", LS.mon_c15, 400, 8000,
        "C01 scenarios with a transport fault (EOF or I/O error on read, optionally failing writes) at a random virtual time or after the k-th write, biased to 'queue non-empty' and "
        "'delivery in progress', followed by further API calls on the dead connection and (half the time) close(); with and without a disconnect callback, which sometimes calls close() itself. "
        "distinct by scenario; non-trivial = the fault actually happened and the session has more than 30 events.",
        corpus=CORPUS,
        assumptions=["'exactly once' is required when no close() was started before connection_lost read the callback", "a submission that had read `connected` as True before the loss may still be queued (at most one per calling thread)"],
    )


def replay(path):
    return replay_life(path, LS.mon_c15)
