"""C15 -- an unexpected disconnect is reported exactly once and ends all activity."""
from .. import lifescen as LS
from .life_common import replay_life, run_life_check

CORPUS = [
    # an empty raw string queued behind other commands when the link drops: the drain must not stop at it
    {"progs": [[("raw", "@MAIN:VOL=Up"), ("raw", ""), ("raw", "@MAIN:VOL=Down"), ("put", "MAIN", "PWR", "On"), ("raw", "@X:Y=1"), ("raw", "@X:Y=2")]], "mode": "answer", "latency_us": 20000,
     "log_size": 0, "tail_idle": 3.0, "switch_prob": 0.05, "delay_prob": 0, "unsolicited": False, "seed": 3, "read_log_midway": False, "kind": "fault", "disc_cb": True,
     "fault": {"at_us": 250000, "kind": "eof"}, "post_ops": [("put", "MAIN", "VOL", "1")], "close_after": True, "disc_closes": False},
]


def _corpus_files():
    """minimised / recorded failures kept as a corpus that runs first"""
    import json
    import os

    d = os.path.join(os.path.dirname(os.path.dirname(os.path.dirname(os.path.abspath(__file__)))), "corpus")
    out = []
    for fn in sorted(os.listdir(d)) if os.path.isdir(d) else []:
        if fn.startswith("C15-") and fn.endswith(".json"):
            out.append(json.load(open(os.path.join(d, fn)))["scenario"])
    return out


def api_fault_sessions(chk):
    """the link drops while YncaApi.initialize() is still waiting for replies (the sender busy with queued queries): the
    application's disconnect callback is invoked exactly once -- long before initialize() gives up and closes"""
    import random

    from .. import apiscen as AS
    from ..subharness import class_info
    from . import c14

    infos, _ = class_info()
    devs = AS.recorded_devices()
    rng = random.Random(chk.seed + 1515)
    base = {"device": "mainonly0", "dev_seed": 977, "latency_us": 20000, "seed": 1, "switch_prob": 0.05, "fault": {"kind": "none"}}
    s0, _rx = c14.run_case(dict(base), infos, devs)
    if s0.exc is not None or s0.sim.failure is not None:
        return
    n_bytes = s0.dev.n_bytes
    for k in range(14 if chk.tier == "quick" else 150):
        case = dict(base, fault={"kind": rng.choice(["eof_after_bytes", "err_after_bytes"]), "k": rng.randrange(1, max(2, n_bytes))}, seed=rng.randrange(1 << 30), switch_prob=rng.choice([0.05, 0.3, 0.6]))
        s, _ = c14.run_case(case, infos, devs)
        chk.count_case({"api_fault": case}, True)
        if s.sim.failure is not None or s.exc is None or not hasattr(s, "t_end"):
            continue  # C14's matter
        ev = s.sim.events
        t_fault = next((e["t"] for e in ev if e["k"] == "DevFault"), None)
        if t_fault is None or t_fault >= s.t_end:
            continue
        # the fault comes with the k-th byte of the dialogue, i.e. while replies are flowing and the timed wait of the
        # phase has seconds to go: the application has not called close(), so the failure is an unexpected disconnect
        if len(s.disconnects) != 1:
            chk.violation("C15:api-disconnect-count", f"the link dropped while YncaApi.initialize() was waiting for replies ({(s.t_end - t_fault) / 1e6:.2f} s before it ended); the application never called close(), yet the disconnect callback was invoked {len(s.disconnects)} times (expected exactly once)", {"api_fault_case": case})


def run(chk):
    CORPUS.extend(x for x in _corpus_files() if x not in CORPUS)
    api_fault_sessions(chk)
    return run_life_check(
        chk, "C15", "Properties/C15.v", "fault", LS.mon_c15, 400, 8000,
        "C01 scenarios with a transport fault (EOF or I/O error on read, optionally failing writes) at a random virtual time or after the k-th write, biased to 'queue non-empty' and "
        "'delivery in progress', followed by further API calls on the dead connection and (half the time) close(); with and without a disconnect callback, which sometimes calls close() itself. "
        "distinct by scenario; non-trivial = the fault actually happened and the session has more than 30 events.",
        corpus=CORPUS,
        assumptions=["'exactly once' is required when no close() was started before connection_lost read the callback", "a submission that had read `connected` as True before the loss may still be queued (at most one per calling thread)"],
    )


def replay(path):
    return replay_life(path, LS.mon_c15)
