"""C14 -- a failed initialize() raises in bounded time and leaves nothing behind (fault enumeration)."""
from __future__ import annotations

import json
import random

from .. import apiscen as AS
from .. import lifetrace as LT
from ..common import Check, gen_params
from ..subharness import class_info

PROP_FILE = "Properties/C14.v"


def make_receiver(dev, infos, devs, seed):
    if dev in devs:
        return AS.recorded_receiver(devs[dev], infos)
    if dev.startswith("mainonly"):
        # a receiver with one zone only: the subunits initialised last are input sources, not zones
        rng = random.Random(seed)
        late = [x for x in infos if x[1] in ("TUN", "USB", "UAW", "SPOTIFY", "NETRADIO", "SERVER")]
        keep = [x for x in infos if x[1] in ("SYS", "MAIN")] + rng.sample(late, rng.randrange(1, 4))
        while True:
            rx, present = AS.synthetic_receiver(rng, keep)
            if "MAIN" in present and any(p not in ("SYS", "MAIN") for p in present):
                return rx
    return AS.synthetic_receiver(random.Random(seed), infos)[0]


def run_case(case, infos, devs):
    rx = make_receiver(case["device"], infos, devs, case["dev_seed"])
    s = AS.ApiSession(case["seed"], rx, latency_us=case["latency_us"], switch_prob=case["switch_prob"], open_error=case["fault"]["kind"] == "open")
    f = case["fault"]

    def body(s):
        other = stop_other = None
        if case.get("other_api"):
            # a healthy, initialised YncaApi object for another receiver lives in the same process
            rx2, _ = AS.synthetic_receiver(random.Random(case["seed"] + 1), [x for x in infos if x[1] in ("SYS", "MAIN", "TUN")])
            other, stop_other = s.start_decoy_api(rx2)
            s.other_before = sorted(cid for cid, o in AS.accessor_ids(other).items() if o is not None)
        api = s.make_api()
        if f["kind"] == "silent_after":
            s.dev.silent_after_replies = f["k"]
        elif f["kind"] in ("eof_after_bytes", "err_after_bytes"):
            s.dev.eof_after_bytes = f["k"]
            if f["kind"] == "err_after_bytes":
                orig = s.dev.fault
                s.dev.fault = lambda kind="eof": orig("err")
        elif f["kind"] == "write_error":
            def arm():
                if s.port is not None:
                    s.port.write_error_at = f["k"]
                else:
                    s.sim.at(s.sim.now + 1, arm)
            s.sim.at(0, arm)
        s.call(api.initialize)
        s.acc = AS.accessor_ids(api)
        s.conn_after = api._connection
        s.sleep(5.0)
        if other is not None:
            s.other_after = sorted(cid for cid, o in AS.accessor_ids(other).items() if o is not None)
            s.other_connected = bool(other._connection and other._connection.connected)
        if s.exc is None:
            api.close()
        if stop_other:
            stop_other()

    s.run(body)
    return s, rx


def bound_us(s, infos):
    """closed form from the regenerated constants: every phase's time-out for the subunits that were
    initialised or attempted, plus the two joins of close()"""
    from ..common import gen_params

    gp = gen_params()
    n_ids = len(infos)
    b = gp.get("p_detect_base", 2_000_000) + gp.get("p_detect_per_cmd", 500_000) * (n_ids + 1)
    attempted = set()
    for e in s.sim.events:
        if e["k"] == "SetAdd" and e.get("set") == "message" and isinstance(e.get("item"), str) and e["item"].endswith("._protocol_message_received"):
            attempted.add(e["item"].split(".")[0])
    for cls, cid, funcs in infos:
        if cls.__name__ in attempted:
            plan = []
            for attr, f in funcs:
                if f.no_initialize:
                    continue
                q = f.initializer or f.name
                if q not in plan:
                    plan.append(q)
            b += gp.get("p_init_base", 2_000_000) + gp.get("p_init_per_cmd", 500_000) * (len(plan) + 1)
    return b + gp.get("p_join_sender", 2_000_000) + gp.get("p_join_reader", 2_000_000)


def monitor(s, case, infos):
    import ynca

    if s.sim.failure is not None:
        return f"initialize() never came to rest (hangs): {s.sim.failure}"
    if s.exc is None:
        # a fault after the last barrier reply is not a failed initialise; otherwise it must not return normally
        if case["fault"]["kind"] == "open":
            return "initialize() returned normally although the port could not be opened"
        ev = s.sim.events[: s.i_end]
        n_sync_queries = sum(1 for e in ev if e["k"] == "Write" and bytes(e["data"]) == b"@SYS:VERSION=?\r\n")
        n_sync_replies = sum(1 for e in ev if e["k"] == "Line" and e["text"].startswith("@SYS:VERSION="))
        if n_sync_replies < n_sync_queries:
            return "initialize() returned normally although a synchronisation reply never arrived (a step failed)"
        return None
    if getattr(s, "other_before", None) is not None and (s.other_after != s.other_before or not s.other_connected):
        return f"after the failed initialize() another, healthy YncaApi object of the process is damaged: accessors {s.other_before} -> {s.other_after}, connected={s.other_connected}"
    if not isinstance(s.exc, ynca.YncaException):
        return f"initialize() raised {type(s.exc).__name__}: {s.exc}, which is not one of the library's exceptions"
    dur = s.t_end - s.t_start
    B = bound_us(s, infos)
    from ..common import gen_params as _gp

    known = all(_gp().get(k, 0) > 0 for k in ("p_detect_base", "p_detect_per_cmd", "p_init_base", "p_init_per_cmd", "p_join_sender", "p_join_reader"))
    if known and dur > B:
        return f"initialize() took {dur} us to fail, the bound is {B} us"
    left = [cid for cid, o in s.acc.items() if o is not None]
    if left:
        return f"after the failed initialize() the accessors {left} are still set"
    if s.conn_after is not None:
        return "after the failed initialize() the API object still holds its connection"
    if s.port is not None and s.port.is_open:
        return "after the failed initialize() the transport is still open"
    if not s.threads_done():
        return "after the failed initialize() a library thread is still running: " + str([(t.name, t.state) for t in s.sim.threads if t.state != "done"])
    return None


def run(chk: Check):
    rng = random.Random(chk.seed + 14)
    chk.build(PROP_FILE)
    infos, enums = class_info()
    devs = AS.recorded_devices()
    devices = [("RX-A810", 0)] + [(f"synthetic{k}", rng.randrange(1 << 30)) for k in range(1 if chk.tier == "quick" else 3)]
    devices += [(f"mainonly{k}", 977 + k) for k in range(1 if chk.tier == "quick" else 3)]
    if chk.tier == "thorough":
        devices += [(n, 0) for n in sorted(devs) if n != "RX-A810"][:3]
    cases = []
    dist = {"devices": [d for d, _ in devices], "faults": {}}
    for dev, dseed in devices:
        base = {"device": dev, "dev_seed": dseed, "latency_us": 20000, "seed": 1, "switch_prob": 0.05, "fault": {"kind": "none"}}
        s0, rx0 = run_case(base, infos, devs)
        n_replies = s0.dev.n_replies
        n_bytes = s0.dev.n_bytes
        n_writes = len(s0.port.writes)
        if s0.exc is not None or s0.sim.failure is not None:
            chk.violation("C14:baseline", f"fault-free initialize() on {dev} failed: {s0.exc!r} {s0.sim.failure}", {"case": base})
            continue
        stride = 1 if (chk.tier == "thorough" or dev == "RX-A810") else 3
        for k in range(0, n_replies + 1, stride):
            cases.append({**base, "fault": {"kind": "silent_after", "k": k}, "seed": rng.randrange(1 << 30), "switch_prob": rng.choice([0.05, 0.3])})
        # byte offsets: every line start, one inside each line, one inside CR LF
        # the end of every reply line (the link drops exactly after a reply, in particular after each
        # synchronisation reply, i.e. between two phases), inside its CR LF, and inside the line
        ends, sync_ends, acc = [], [], 0
        for e in s0.sim.events:
            if e["k"] == "DevEmit":
                data = bytes(e["data"])
                pos = 0
                while True:
                    j = data.find(b"\r\n", pos)
                    if j < 0:
                        break
                    ends.append(acc + j + 2)
                    if data[pos:j].startswith(b"@SYS:VERSION="):
                        sync_ends.append(acc + j + 2)
                    pos = j + 2
                acc += len(data)
        offs = set(list(range(0, n_bytes + 1, 37 if chk.tier == "quick" else 7)) + [0, 1, n_bytes - 1, n_bytes])
        offs.update(sync_ends)
        offs.update(k - 1 for k in sync_ends)
        offs.update(ends[:: (4 if chk.tier == "quick" else 1)])
        if chk.tier == "thorough":
            offs.update(k - 1 for k in ends)
        dist.setdefault("drop_exactly_after_sync_reply", 0)
        dist["drop_exactly_after_sync_reply"] += len(sync_ends)
        for k in sorted(offs):
            reps = 3 if k in sync_ends else 1   # several schedules of the race between the loss and the next phase
            for _ in range(reps):
                cases.append({**base, "fault": {"kind": rng.choice(["eof_after_bytes", "err_after_bytes"]), "k": k}, "seed": rng.randrange(1 << 30), "switch_prob": rng.choice([0.05, 0.3, 0.6])})
        for k in range(0, n_writes + 1, 2 if chk.tier == "quick" else 1):
            cases.append({**base, "fault": {"kind": "write_error", "k": k}, "seed": rng.randrange(1 << 30), "switch_prob": rng.choice([0.05, 0.3])})
        cases.append({**base, "fault": {"kind": "open"}})
        cases.append({**base, "fault": {"kind": "open"}, "other_api": True})
        cases.append({**base, "fault": {"kind": "silent_after", "k": 0}, "other_api": True})
    for i, c in enumerate(cases):
        if i % 29 == 7:
            c["other_api"] = True
    sessions = []
    for c in cases:
        s, rx = run_case(c, infos, devs)
        sessions.append((c, s))
        k = c["fault"]["kind"]
        dist["faults"][k] = dist["faults"].get(k, 0) + 1
        chk.count_case({"case": c}, True)
        why = monitor(s, c, infos)
        if why:
            key = "hang" if "never came to rest" in why or "took" in why else ("leftover" if "after the failed" in why else ("returned-normally" if "returned normally" in why else "exception-type"))
            chk.violation(f"C14:{key}", why, {"case": c})

    validated = 0
    if not any(b["obligation"].startswith(("translator", "compile")) for b in chk.broken):
        sel = [(c, s) for c, s in sessions if s.sim.failure is None and s.port is not None][:: max(1, len(sessions) // (80 if chk.tier == "quick" else 600))]
        lcases = [(True, LT.project_life(s.sim.events)[0]) for c, s in sel]
        ok, res, err = LT.replay_life("c14_life", lcases, gen_params().get("p_join_sender", 2_000_000), gen_params().get("p_join_reader", 2_000_000))
        if not ok:
            chk.obligation_broken("cases c14_life", (err or "")[-800:])
        else:
            nb = 0
            for (c, s), r, (_, acts) in zip(sel, res, lcases):
                d = None
                if r["refused"] is not None:
                    d = f"the model refuses event #{r['refused']}: {acts[r['refused']]} after {acts[max(0, r['refused'] - 4) : r['refused']]}"
                elif r["open"] != bool(s.port.is_open):
                    d = f"port open: model {r['open']} vs implementation {s.port.is_open}"
                elif r["user_calls"] != len(s.disconnects):
                    d = f"disconnect callbacks: model {r['user_calls']} vs implementation {len(s.disconnects)}"
                if d is None:
                    validated += 1
                else:
                    nb += 1
                    if nb <= 4:
                        chk.obligation_broken(f"correspondence life-cycle replay (fault {c['fault']})", d[:600])
    # the phase structure of every session, replayed in Model/Startup.v with the regenerated flags: which phases
    # (availability scan, SYS, each detected subunit) were attempted and whether a synchronisation reply was handled
    # during each; the model says whether initialize() returns or raises, what is exposed and whether all is released
    if not any(b["obligation"].startswith(("translator", "compile", "proof")) for b in chk.broken):
        from .. import coqio
        from ..common import run_cases_sharded

        pc = []
        for c, s in sessions:
            if s.sim.failure is not None or c["fault"]["kind"] == "open" or not hasattr(s, "i_end") or c.get("other_api"):
                continue
            ev = s.sim.events
            starts = [i for i in range(s.i_start, s.i_end) if ev[i]["k"] == "SetAdd" and ev[i].get("set") == "message" and isinstance(ev[i].get("item"), str)
                      and ev[i]["item"].endswith("._protocol_message_received") and not ev[i]["item"].startswith("YncaApi.")]
            bounds = [s.i_start] + starts + [s.i_end]
            oks = []
            for a, b in zip(bounds, bounds[1:]):
                oks.append(any(ev[i]["k"] == "Line" and ev[i]["text"].startswith("@SYS:VERSION=") for i in range(a, b)))
            exposed = sum(1 for o in s.acc.values() if o is not None)
            pc.append((c, oks[0], oks[1:], s.exc is None, s.conn_after is None, exposed))

        def mk(part):
            lines = [coqio.CASES_HEADER, "From Ynca Require Import Model.Startup Proofs.StartupFacts.\nOpen Scope nat_scope.\n"]
            lines.append("Definition b2n (b : bool) : N := if b then 1%N else 0%N.")
            lines.append("Definition go (d : bool) (oks : list bool) : list N :=\n  let r := startup gen_scfg d oks in\n"
                         "  [(match o_out r with Returned => 1%N | Raised => 0%N end); b2n (o_released r); N.of_nat (o_exposed r); END; END2].\n")
            bl = lambda x: "true" if x else "false"  # noqa: E731
            lines.append("Eval vm_compute in (" + " ++ ".join(f"go {bl(d)} [" + "; ".join(bl(x) for x in oks) + "]" for _, d, oks, *_ in part) + ")%list.\n")
            return "\n".join(lines)

        ok, outs, err = run_cases_sharded("c14_startup", mk, pc, shard=300)
        if not ok:
            chk.obligation_broken("cases c14_startup", (err or "")[-800:])
        else:
            res = [x for o in outs for x in coqio.parse_flat2(o)]
            nb = good = 0
            for (c, d, oks, returned, released, exposed), items in zip(pc, res):
                t = items[0]
                why = None
                if bool(t[0]) != returned:
                    why = f"model says initialize() {'returns' if t[0] else 'raises'}, the implementation {'returned' if returned else 'raised'}"
                elif bool(t[1]) != released:
                    why = f"released afterwards: model {bool(t[1])} vs implementation {released}"
                elif t[2] != exposed:
                    why = f"objects exposed afterwards: model {t[2]} vs implementation {exposed}"
                if why is None:
                    good += 1
                else:
                    nb += 1
                    if nb <= 4:
                        chk.obligation_broken(f"correspondence start-up phases (fault {c['fault']}, device {c['device']})", f"{why}; phases: scan {'ok' if d else 'failed'}, subunits {['ok' if x else 'failed' for x in oks]}"[:600])
            chk.cov["startup_phase_sessions_validated"] = good
            pass
    chk.cov["traces_validated_against_impl"] = validated
    chk.cov["exhaustive"] = True
    chk.cov["rule"] = (
        "fault enumeration on the real YncaApi.initialize(): for the RX-A810 recording and synthetic devices, silence after EVERY k-th reply, end-of-file or I/O error after byte offsets "
        "covering every region of the received stream (line starts, inside lines, inside CR LF), a failing write at every k-th line, and a port that cannot be opened; one PRNG schedule each. "
        "Every case is distinct and non-trivial (a start-up dialogue cut at a different point)."
    )
    chk.cov["input_distribution"] = {"devices": dist["devices"], "faults": dist["faults"], "sessions": len(sessions)}
    if sessions:
        c, s = sessions[len(sessions) // 2]
        chk.sample({"case": c, "exception": repr(s.exc), "virtual_duration_us": (s.t_end or 0) - (s.t_start or 0)})
    return chk.finish(
        level="proof",
        trusted=["correspondence: fault enumeration on the real code under the deterministic harness; life-cycle traces replayed in Model/Life.v; exception type, virtual duration against the closed-form bound, accessors, port and threads judged by the monitor",
                 "PARTIAL: the bound is arithmetic over the regenerated wait constants; OS-level thread and socket teardown are not modelled"],
        assumptions=["computation takes no virtual time; a fault after the last synchronisation reply is not a failed initialise"],
    )


def replay(path):
    d = json.load(open(path))
    c = d["replay"]["case"]
    infos, _ = class_info()
    s, rx = run_case(c, infos, AS.recorded_devices())
    print("case:", c)
    print("exception:", repr(s.exc), "virtual duration:", (s.t_end or 0) - (s.t_start or 0), "failure:", s.sim.failure)
    print("monitor:", monitor(s, c, infos) or "ok")
    return 0
