"""C01 -- commands reach the wire exactly once, one CRLF line each, in submission order."""
from .. import connscen as CS
from .conn_common import replay_scenario, run_conn_check

MON = [("wire", CS.mon_c01)]

CORPUS = [
    # sentinel look-alikes and an empty raw string submitted as ordinary data
    {"progs": [[("raw", "_EXIT"), ("raw", "@MAIN:VOL=Up"), ("raw", "_KEEP_ALIVE"), ("raw", ""), ("put", "MAIN", "VOL", "-30.0")]], "mode": "answer", "latency_us": 20000, "log_size": 5,
     "tail_idle": 2.0, "switch_prob": 0.3, "delay_prob": 0, "unsolicited": False, "seed": 11, "read_log_midway": False},
]


def run(chk):
    return run_conn_check(
        chk, "C01", "Properties/C01.v", MON, dict(allow_delay=True, long_idle=True), 300, 6000,
        "C01 scenarios: 1-4 caller threads x 0-40 commands (put/get/raw; recorded commands, Unicode, empty text, texts containing ':' '=' '@', look-alikes of the queue markers), "
        "idle gaps up to 95 s, answering/silent/flooding device; the harness's own record of queue puts (global order, per thread) is compared with the bytes handed to the port. "
        "distinct by scenario; non-trivial = at least 2 user commands and a caller/sender interleaving while the queue is non-empty.",
        corpus=CORPUS,
        assumptions=["'while the connection is up': sessions without transport faults; texts are valid Unicode without an embedded CR LF"],
    )


def replay(path):
    return replay_scenario(path, MON)
