"""C11 -- stepped numbers are written on the step grid with fixed decimals."""
from __future__ import annotations

import json
import math
import random
import re
from fractions import Fraction

from .. import coqio
from ..common import Check, ct, run_cases_sharded
from ..translate import collect, conv_term

PROP_FILE = "Properties/C11.v"


class CapConn:
    """Connection stub recording put() calls."""

    def __init__(self):
        self.puts = []
        self.num_commands_sent = 0

    def register_message_callback(self, cb):
        self.cbs = getattr(self, "cbs", []) + [cb]

    def unregister_message_callback(self, cb):
        pass

    def put(self, s, f, v):
        self.puts.append((str(s), f, v))

    def get(self, s, f):
        self.puts.append((str(s), f, "?"))


def stepped_functions():
    """[(class, attr, func, decimals, Fraction step, special)] from the live objects (via the translator's AST reading)."""
    classes, table, enums = collect()
    out = []
    for c, funcs in table:
        for attr, f in funcs:
            term = conv_term(f.converter, enums)
            m = re.search(r"TSStep (\d+)%nat (\d+)%positive (\d+)%positive", term)
            if m:
                only = re.search(r"TSOnly (\S+) \((-?\d+)\)%Z (\d+)%positive", term)
                special = None
                if only:
                    special = Fraction(int(only.group(2)), int(only.group(3)))
                out.append((c, attr, f, int(m.group(1)), Fraction(int(m.group(2)), int(m.group(3))), special))
    return out


def nextafter_n(x, n):
    for _ in range(abs(n)):
        x = math.nextafter(x, math.inf if n > 0 else -math.inf)
    return x


def judge(v, out, decimals, step, special=None):
    """The property text, evaluated exactly.  Returns None or a description of what fails."""
    if not isinstance(out, str):
        return f"transmitted value is not text: {out!r}"
    if special is not None and Fraction(v) == special:
        return None if out == str(float(special)) else f"documented exception {float(special)} transmitted as {out!r}"
    pat = r"-?[0-9]+\.[0-9]{%d}\Z" % decimals if decimals > 0 else r"-?[0-9]+\Z"
    if not re.match(pat, out):
        return f"{out!r} is not a plain literal with {decimals} decimals"
    g = Fraction(out)
    if (g / step).denominator != 1:
        return f"{out!r} is not on the {step} grid"
    if abs(Fraction(v) - g) * 2 > step:
        return f"{out!r} is not a grid point nearest to {v!r} (off by {float(abs(Fraction(v) - g))})"
    if g == 0 and out.startswith("-"):
        return f"zero written with a minus sign: {out!r}"
    return None


def gen_points(rng, step, tier):
    """grid points, tie points and their +-1..3 ulp float neighbours, |v| <= 10^4, plus ints/bools/random."""
    lim = 10**4
    nmax = int(Fraction(lim) / step)
    pts = []
    if tier == "thorough":
        ks = range(-nmax, nmax + 1)
        tie_ks = range(-nmax, nmax)
    else:
        stride = 50 if nmax > 5000 else 5
        off = rng.randrange(stride)
        ks = list(range(-nmax + off, nmax + 1, stride)) + list(range(-40, 41))
        tie_ks = [rng.randrange(-nmax, nmax) for _ in range(2000)] + list(range(-40, 40))
    for k in ks:
        g = float(k * step)
        pts.append(g)
        if tier == "thorough" or abs(k) <= 40 or rng.random() < 0.2:
            for d in (-3, -2, -1, 1, 2, 3):
                pts.append(nextafter_n(g, d))
    for k in tie_ks:
        t = float((Fraction(2 * k + 1, 2)) * step)
        for d in (-3, -2, -1, 0, 1, 2, 3):
            pts.append(nextafter_n(t, d))
    for _ in range(2000 if tier == "quick" else 100000):
        pts.append(rng.uniform(-lim, lim))
    pts += [0.0, -0.0, 8.6, -8.6, 0.3, 16.5, -80.5, 1e4, -1e4, 5e-324, -5e-324, 0.1, -0.1]
    ints = list(range(-50, 51)) + [rng.randrange(-lim, lim) for _ in range(200)]
    return pts, ints


def run(chk: Check):
    rng = random.Random(chk.seed)
    chk.build(PROP_FILE)
    import ynca.helpers as H

    funcs = stepped_functions()
    # distinct (decimals, step) pairs and the attributes that use them
    grids = {}
    for c, attr, f, dec, step, special in funcs:
        grids.setdefault((dec, step), []).append((c, attr, f, special))

    model_cases = []  # (vn, vd, sn, sd, dec, impl_text)
    dist = {}
    for (dec, step), users in sorted(grids.items(), key=lambda x: (x[0][0], x[0][1])):
        pts, ints = gen_points(rng, step, chk.tier)
        dist[f"step={step} decimals={dec}"] = {"floats": len(pts), "ints": len(ints), "attributes": [f"{c.__name__}.{a}" for c, a, _, _ in users]}
        stepf = float(step) if step.denominator != 1 else int(step)
        # (a) the helper itself
        for v in pts + ints + [True, False]:
            try:
                out = H.number_to_string_with_stepsize(v, dec, stepf)
            except Exception as e:  # noqa
                out = None
                chk.violation(f"helper:{step}:{dec}:raises", f"number_to_string_with_stepsize({v!r}, {dec}, {stepf}) raises {type(e).__name__}", {"value": repr(v), "hex": v.hex() if isinstance(v, float) else None, "decimals": dec, "step": str(step)})
            nontrivial = isinstance(v, float) and (Fraction(v) / step).denominator != 1
            chk.count_case(["helper", dec, str(step), repr(v)], nontrivial)
            if out is not None:
                why = judge(v, out, dec, step)
                if why:
                    chk.violation(
                        f"helper:{step}:{dec}:" + ("grid" if "grid" in why and "nearest" not in why else "nearest" if "nearest" in why else "format"),
                        f"number_to_string_with_stepsize({v!r}, {dec}, {stepf}) = {out!r}: {why}",
                        {"value": repr(v), "hex": v.hex() if isinstance(v, float) else None, "decimals": dec, "step": str(step), "observed": out},
                    )
                fr = Fraction(v)
                model_cases.append((fr.numerator, fr.denominator, step.numerator, step.denominator, dec, out))
        # (b) every stepped attribute, through the real descriptor
        sub = pts[:: max(1, len(pts) // (3000 if chk.tier == "quick" else 40000))] + ints[::5] + [8.6, -8.6, 16.5, 0.3, -0.0]
        for c, attr, f, special in users:
            conn = CapConn()
            inst = c(conn)
            for v in sub:
                conn.puts.clear()
                try:
                    setattr(inst, attr, v)
                except Exception as e:  # noqa
                    chk.violation(f"attr:{c.__name__}.{attr}:raises", f"{c.__name__}.{attr} = {v!r} raises {type(e).__name__}", {"class": c.__name__, "attr": attr, "value": repr(v)})
                    continue
                chk.count_case(["attr", c.__name__, attr, repr(v)], True)
                if len(conn.puts) != 1 or conn.puts[0][1] != f.name:
                    chk.violation(f"attr:{c.__name__}.{attr}:puts", f"{c.__name__}.{attr} = {v!r} produced {conn.puts!r}", {"class": c.__name__, "attr": attr, "value": repr(v)})
                    continue
                out = conn.puts[0][2]
                why = judge(v, out, dec, step, special)
                if why:
                    chk.violation(f"attr:{c.__name__}.{attr}:" + ("nearest" if "nearest" in why else "grid" if "grid" in why else "format"), f"{c.__name__}.{attr} = {v!r} transmits {out!r}: {why}", {"class": c.__name__, "attr": attr, "value": repr(v), "hex": v.hex() if isinstance(v, float) else None, "observed": out})
                    continue
                # decoding the transmitted text gives back the grid value
                try:
                    back = f.converter.to_value(out)
                    if Fraction(back) != Fraction(out) and back != float(Fraction(out)):
                        chk.violation(f"attr:{c.__name__}.{attr}:decode", f"decoding {out!r} gives {back!r}", {"class": c.__name__, "attr": attr, "value": repr(v), "observed": out})
                except Exception as e:  # noqa
                    chk.violation(f"attr:{c.__name__}.{attr}:decode", f"decoding {out!r} raises {type(e).__name__}", {"class": c.__name__, "attr": attr, "value": repr(v), "observed": out})

    # (c) history independence: the same values through all grids / all stepped attributes in
    #     alternation (a result must not depend on what was formatted before)
    vals = [3, 7, -3, 2.5, 12.5, 16.5, 87.5, 531, 1005.9, -0.25, 0.3, 8.6, 42, 99.9, 100.1] + [rng.randrange(-200, 1700) / 4 for _ in range(150)]
    glist = sorted(grids, key=lambda g: (g[0], g[1]))
    for order in (glist, glist[::-1]):
        for v in vals:
            for dec, step in order:
                stepf = float(step) if step.denominator != 1 else int(step)
                out = H.number_to_string_with_stepsize(v, dec, stepf)
                chk.count_case(["interleaved", dec, str(step), repr(v)], True)
                why = judge(v, out, dec, step)
                if why:
                    chk.violation(f"helper:{step}:{dec}:history-dependent", f"after formatting the same value for another grid: number_to_string_with_stepsize({v!r}, {dec}, {stepf}) = {out!r}: {why}", {"value": repr(v), "decimals": dec, "step": str(step), "observed": out, "sequence": [[d, str(s)] for d, s in order]})
    by_class = {}
    for c, attr, f, dec, step, special in funcs:
        by_class.setdefault(c, []).append((attr, f, dec, step, special))
    for c, attrs in by_class.items():
        if len({(d, s) for _, _, d, s, _ in attrs}) < 2:
            continue
        conn = CapConn()
        inst = c(conn)
        for order in (attrs, attrs[::-1]):
            for v in vals[:60]:
                for attr, f, dec, step, special in order:
                    conn.puts.clear()
                    try:
                        setattr(inst, attr, v)
                    except Exception as e:  # noqa
                        chk.violation(f"attr:{c.__name__}.{attr}:raises", f"{c.__name__}.{attr} = {v!r} raises {type(e).__name__}", {"class": c.__name__, "attr": attr, "value": repr(v)})
                        continue
                    chk.count_case(["attr-seq", c.__name__, attr, repr(v)], True)
                    out = conn.puts[0][2] if conn.puts else None
                    why = judge(v, out, dec, step, special)
                    if why:
                        chk.violation(f"attr:{c.__name__}.{attr}:history-dependent", f"in a sequence of assignments to {[a for a, *_ in order]}: {c.__name__}.{attr} = {v!r} transmits {out!r}: {why}", {"class": c.__name__, "attr": attr, "value": repr(v), "observed": out, "sequence": [a for a, *_ in order]})

    # (d) the receiver's state plays no part: the device first reports values for the stepped functions of the object
    #     (a low maximum volume, the current volume, tone settings, a frequency), then the application writes
    from ynca.constants import Subunit as _Su  # noqa: F401
    from ynca.connection import YncaProtocolStatus as _St

    srng = random.Random(chk.seed * 13 + 11)
    for c, attrs in by_class.items():
        for rep_round in range(3 if chk.tier == "quick" else 12):
            conn = CapConn()
            inst = c(conn)
            inst._initialized = True
            reported = []
            for attr, f, dec, step, special in attrs:
                k = srng.choice([-41, -20, -3, 0, 3, 33, 180])
                text = H.number_to_string_with_stepsize(float(k * step), dec, float(step) if step.denominator != 1 else int(step))
                if srng.random() < 0.85:
                    reported.append((f.name, text))
            srng.shuffle(reported)
            for fname, text in reported:
                for cb in getattr(conn, "cbs", []):
                    try:
                        cb(_St.OK, f"{inst.id}", fname, text)
                    except Exception:  # noqa: C10's matter
                        pass
            for attr, f, dec, step, special in attrs:
                for v in vals[:40] + [float(k * step) for k in (-200, -41, -20, -3, 0, 3, 33, 180, 400)]:
                    conn.puts.clear()
                    try:
                        setattr(inst, attr, v)
                    except Exception as e:  # noqa
                        chk.violation(f"attr:{c.__name__}.{attr}:raises", f"{c.__name__}.{attr} = {v!r} raises {type(e).__name__} after the device reported {reported!r}", {"class": c.__name__, "attr": attr, "value": repr(v), "reported": reported})
                        continue
                    chk.count_case(["attr-after-reports", c.__name__, attr, repr(v), reported], True)
                    out = conn.puts[0][2] if conn.puts else None
                    why = judge(v, out, dec, step, special)
                    if why:
                        chk.violation(f"attr:{c.__name__}.{attr}:state-dependent", f"after the device reported {reported!r}: {c.__name__}.{attr} = {v!r} transmits {out!r}: {why}", {"class": c.__name__, "attr": attr, "value": repr(v), "observed": out, "reported": reported})
                        break

    # (e) the interpreter's ambient state plays no part either: the same writes on a thread whose `decimal` context
    #     (rounding mode, precision) has been changed by unrelated code, as happens on a shared worker thread
    import decimal
    import threading

    def under_context(setup, label):
        def work():
            setup(decimal.getcontext())
            for c, attrs in by_class.items():
                conn = CapConn()
                inst = c(conn)
                for attr, f, dec, step, special in attrs:
                    for v in vals[:40] + [-30.4, 12.6, 1476, 99.12, 101.73, 0.3, -0.3]:
                        conn.puts.clear()
                        try:
                            setattr(inst, attr, v)
                        except Exception:  # noqa: judged elsewhere
                            continue
                        chk.count_case(["attr-ambient", label, c.__name__, attr, repr(v)], True)
                        out = conn.puts[0][2] if conn.puts else None
                        why = judge(v, out, dec, step, special)
                        if why:
                            chk.violation(f"attr:{c.__name__}.{attr}:ambient-state", f"on a thread whose decimal context has {label}: {c.__name__}.{attr} = {v!r} transmits {out!r}: {why}", {"class": c.__name__, "attr": attr, "value": repr(v), "observed": out, "decimal_context": label})
                            return

        t = threading.Thread(target=work)
        t.start()
        t.join()

    under_context(lambda ctx: setattr(ctx, "rounding", decimal.ROUND_DOWN), "rounding=ROUND_DOWN")
    under_context(lambda ctx: setattr(ctx, "rounding", decimal.ROUND_UP), "rounding=ROUND_UP")
    under_context(lambda ctx: setattr(ctx, "prec", 3), "prec=3")

    # (f) two threads writing the same stepped function of two objects at the same time (the function declaration, its
    #     converter and the helper are shared by all objects of the process): every source line of ynca/function.py,
    #     ynca/converters.py and ynca/helpers.py is a scheduling point, so the writers interleave statement by statement
    from .. import dsim

    crng = random.Random(chk.seed * 19 + 12)
    pairs = [(c, attrs) for c, attrs in by_class.items() if attrs]
    for k in range(20 if chk.tier == "quick" else 300):
        c, attrs = crng.choice(pairs)
        attr, f, dec, step, special = crng.choice(attrs)
        pool = [float(n * step) for n in crng.sample(range(-40, 60), 2)]
        rounds = [(crng.choice(pool), crng.choice(pool)) for _ in range(crng.randrange(6, 16))]
        sim = dsim.Sim(seed=crng.randrange(1 << 30), switch_prob=crng.choice([0.3, 0.6, 0.9]))
        sim.trace_modules = {"ynca.function", "ynca.converters", "ynca.helpers"}
        found = []

        def main(sim=sim, c=c, attr=attr, rounds=rounds, found=found, dec=dec, step=step, special=special):
            conns = (CapConn(), CapConn())
            objs = (c(conns[0]), c(conns[1]))

            def writer(i, v):
                try:
                    setattr(objs[i], attr, v)
                except Exception:  # noqa: judged elsewhere
                    pass

            for va, vb in rounds:
                conns[0].puts.clear()
                conns[1].puts.clear()
                ta = sim.spawn(lambda: writer(0, va), "caller1")
                tb = sim.spawn(lambda: writer(1, vb), "caller2")
                ta.join()
                tb.join()
                for i, v in ((0, va), (1, vb)):
                    out = conns[i].puts[0][2] if len(conns[i].puts) == 1 else None
                    why = judge(v, out, dec, step, special) if out is not None else f"{len(conns[i].puts)} PUTs"
                    if why:
                        found.append((v, out, why, va, vb))
                        return

        sim.run(main, timeout_s=30)
        chk.count_case(["attr-concurrent", c.__name__, attr, repr(rounds)], True)
        chk.cov["concurrent_write_line_points"] = chk.cov.get("concurrent_write_line_points", 0) + getattr(sim, "n_line_points", 0)
        if found:
            v, out, why, va, vb = found[0]
            chk.violation(f"attr:{c.__name__}.{attr}:concurrent", f"two threads wrote {c.__name__}.{attr} = {va!r} and = {vb!r} on two objects at the same time: the write of {v!r} transmitted {out!r}: {why}", {"class": c.__name__, "attr": attr, "value": repr(v), "observed": out, "concurrent_rounds": rounds})

    # ------------------------------------------------------------ model correspondence
    validated = 0
    if not any(b["obligation"].startswith(("translator", "compile")) for b in chk.broken):
        # dedupe, keep deterministic order
        seen, cases = set(), []
        for cse in model_cases:
            if cse[:5] not in seen:
                seen.add(cse[:5])
                cases.append(cse)
        if chk.tier == "quick" and len(cases) > 30000:
            keep = cases[:2000] + rng.sample(cases[2000:], 28000)
            cases = keep

        def mk(part):
            lines = [coqio.CASES_HEADER, "From Ynca Require Import Model.Step.\nOpen Scope Z_scope.\n"]
            items = [f"(({vn})%Z, {vd}%positive, {sn}%positive, {sd}%positive, {dec}%nat)" for vn, vd, sn, sd, dec, _ in part]
            lines.append("Definition cases : list (Z * positive * positive * positive * nat) :=\n [" + ";\n  ".join(items) + "].\n")
            lines.append("Eval vm_compute in flat_map (fun c => let '(vn, vd, sn, sd, d) := c in (step_fmt vn vd sn sd d ++ [END])%list) cases.\n")
            return "\n".join(lines)

        ok, outs, err = run_cases_sharded("c11", mk, cases, shard=2500)
        if not ok:
            chk.obligation_broken("cases c11", err[-800:])
        else:
            res = [t for o in outs for t in coqio.parse_flat(o)]
            if len(res) != len(cases):
                chk.obligation_broken("cases c11", f"{len(res)} results for {len(cases)} cases")
            nbad = 0
            for cse, tok in zip(cases, res):
                mt = coqio.txt(tok)
                if mt == cse[5]:
                    validated += 1
                else:
                    nbad += 1
                    if nbad <= 5:
                        chk.obligation_broken(
                            f"correspondence step_fmt value={cse[0]}/{cse[1]} step={cse[2]}/{cse[3]} decimals={cse[4]}",
                            f"model {mt!r} vs implementation {cse[5]!r}",
                        )
            if nbad > 5:
                chk.obligation_broken("correspondence step_fmt", f"{nbad} disagreements in total")
    chk.cov["traces_validated_against_impl"] = validated
    chk.cov["rule"] = (
        "per (decimals, step) pair found in the live descriptors: grid points k*step and tie points (k+1/2)*step for |v|<=10^4 "
        "(thorough: all; quick: a strided subset with random offset plus 2000 random ties), each with its +-1,2,3 ulp float neighbours, "
        "random doubles, ints and bools, through number_to_string_with_stepsize, and a subsample through every stepped attribute of every class. "
        "distinct by (path, grid, repr(value)); non-trivial = a float that is not itself a grid point, or any attribute assignment."
    )
    chk.cov["input_distribution"] = dist
    chk.sample({"call": "number_to_string_with_stepsize(8.6, 2, 0.2)", "implementation": H.number_to_string_with_stepsize(8.6, 2, 0.2)})
    if model_cases:
        c0 = model_cases[len(model_cases) // 2]
        chk.sample({"value": f"{c0[0]}/{c0[1]}", "step": f"{c0[2]}/{c0[3]}", "decimals": c0[4], "implementation": c0[5]})
    return chk.finish(
        trusted=[
            "correspondence: the real helper and descriptors are run on exact rationals (float.as_integer_ratio) and compared with step_fmt evaluated by vm_compute",
            "modelled, not verified: Fraction arithmetic and str(int) of CPython; the AST reading of the to_str lambdas by the translator",
        ],
        assumptions=["'the requested number' is the exact value of the int/float passed", "at an exact tie either neighbouring grid point is accepted"],
    )


def replay(path):
    import ynca.helpers as H

    d = json.load(open(path))
    r = d.get("replay", {})
    if "hex" in r and r.get("hex"):
        v = float.fromhex(r["hex"])
    elif "value" in r:
        v = eval(r["value"], {"nan": math.nan, "inf": math.inf})
    else:
        print(json.dumps(d, indent=1))
        return 0
    if "step" in r:
        step = Fraction(r["step"])
        out = H.number_to_string_with_stepsize(v, r["decimals"], float(step))
        print(f"number_to_string_with_stepsize({v!r}, {r['decimals']}, {float(step)}) = {out!r}; judged: {judge(v, out, r['decimals'], step) or 'ok'}")
    else:
        for c, attr, f, dec, step, special in stepped_functions():
            if c.__name__ == r.get("class") and attr == r.get("attr"):
                conn = CapConn()
                inst = c(conn)
                if r.get("reported"):
                    from ynca.connection import YncaProtocolStatus as _St

                    inst._initialized = True
                    for fname, text in r["reported"]:
                        for cb in getattr(conn, "cbs", []):
                            cb(_St.OK, f"{inst.id}", fname, text)
                    print("after the device reported", r["reported"])
                import decimal

                with decimal.localcontext() as ctx:
                    dc = r.get("decimal_context") or ""
                    if dc.startswith("rounding="):
                        ctx.rounding = getattr(decimal, dc.split("=")[1])
                    elif dc.startswith("prec="):
                        ctx.prec = int(dc.split("=")[1])
                    if dc:
                        print("decimal context of the thread:", dc)
                    setattr(inst, attr, v)
                out = conn.puts[0][2]
                print(f"{c.__name__}.{attr} = {v!r} transmits {out!r}; judged: {judge(v, out, dec, step, special) or 'ok'}")
    return 0
