"""C17 -- connection_check() reports model and exactly the zones present, then cleans up."""
from __future__ import annotations

import itertools
import json
import random

from .. import apiscen as AS
from .. import coqio
from ..common import Check, ct, run_cases_sharded
from ..conntrace import coq_msg

PROP_FILE = "Properties/C17.v"
ZONES = ["MAIN", "ZONE2", "ZONE3", "ZONE4"]
TIMEOUT_US = 1_500_000


def timeout_us():
    """the check's time-out as the code under test has it (regenerated)"""
    from ..common import gen_params

    v = gen_params().get("p_check_timeout", TIMEOUT_US)
    return v if v > 0 else TIMEOUT_US  # unreadable: reported as a broken obligation; the literal is the best guess


def make_receiver(zones, swallow_first, missing):
    store = {"SYS": {"MODELNAME": "RX-V" + "".join(z[-1] for z in zones), "VERSION": "1.0"}}
    for z in zones:
        store[z] = {"AVAIL": "Ready" if z != "ZONE2" else "Not Ready"}
    rx = AS.VirtualReceiver(store, missing=missing)
    if swallow_first:
        base = rx.respond

        def respond(line, idx):
            if idx == 0:
                rx.answered.append((line, []))
                return []
            return base(line, idx)

        rx.respond_fn = respond
    else:
        rx.respond_fn = rx.respond
    return rx


def run_case(case):
    rx = make_receiver(case["zones"], case["swallow_first"], case["missing"])
    lat = case["latency_us"]
    rng = random.Random(case["seed"])
    latency = (lambda line, idx: max(0, lat + rng.randrange(-lat // 3, lat // 3 + 1))) if case.get("jitter") and lat > 3 else lat
    s = AS.ApiSession(case["seed"], rx, latency_us=latency, switch_prob=case["switch_prob"])
    s.dev.respond = rx.respond_fn
    f = case.get("fault")

    def body(s):
        api = s.make_api()
        stop = None
        if case.get("other_connection"):
            # another live connection of this process, to another receiver that reports the availability of ITS zones
            # while the check is running
            stop = s.start_decoy_connection([(rng.randrange(0, 1_200_000), f"@{z}:AVAIL=Ready") for z in ("ZONE2", "ZONE3", "ZONE4", "MAIN")])
        if case.get("repeat"):
            # an earlier check on the same object (same device, no fault)
            try:
                api.connection_check()
            except AS.dsim.SimAbort:
                raise
            except BaseException as e:  # noqa
                s.extra["first_check"] = f"{type(e).__name__}: {e}"
            s.sleep(0.3)
            s.dev.respond = rx.respond_fn  # same behaviour, fresh answers
            del s.sim.events[:]
            rx.answered[:] = []
        if f and f["kind"] == "silent_after":
            s.dev.silent_after_replies = f["k"]
        if f and f["kind"] in ("eof", "err"):
            s.dev.fault_at(s.sim.now + f["at_us"], f["kind"])
        crng = random.Random(case["seed"] ^ 0xCA11BAC)
        if case.get("fault") is None and not case.get("other_connection") and crng.random() < 0.2:
            # the application asks from inside a callback of another live connection (its reader thread), e.g. to see
            # whether a second receiver is there when the first one reports something
            case["from_callback_of_other_connection"] = True
            stop = s.start_decoy_connection([])
            done = []

            def on_other(st, sub, fn, v):
                if not done:
                    done.append(0)
                    with s.sim.primary():
                        s.call(api.connection_check)
                    done.append(1)

            with s.sim.decoy():
                s.decoy_conn.register_message_callback(on_other)
            s.decoy_dev.emit_at(s.sim.now + 400_000, b"@MAIN:VOL=-33.0\r\n")
            while len(done) < 2:
                s.sleep(0.1)
        else:
            s.call(api.connection_check)
        s.sleep(3.0)
        if stop:
            stop()

    s.run(body)
    return s, rx


def model_reply_time(s):
    """virtual time at which the device emitted a SYS:MODELNAME reply to the check's own query (the 7th line), or None"""
    w = s.port.writes if s.port else []
    idxs = [i for i, x in enumerate(w) if x[1] == b"@SYS:MODELNAME=?\r\n"]
    if len(idxs) < 3:
        return None
    own = idxs[2]
    # the reply to THAT write: an emission caused by it and made after it (a late reply to an earlier check on the same
    # device carries the same ordinal)
    ev = s.sim.events
    start = getattr(s, "i_start", 0)
    wi = next((i for i in range(start, len(ev)) if ev[i]["k"] == "Write" and ev[i].get("idx") == own), None)
    if wi is None:
        return None
    for e in ev[wi:]:
        if e["k"] == "DevEmit" and e.get("cause") == own:
            return e["t"]
    return None


def monitor(s, case, rx):
    if s.sim.failure is not None:
        return f"connection_check never came to rest: {s.sim.failure}"
    import ynca

    if s.port is not None and s.port.is_open:
        return "the temporary connection's transport is still open afterwards"
    if not s.threads_done():
        return "a library thread is still running afterwards: " + str([(t.name, t.state) for t in s.sim.threads])
    if hasattr(s, "i_end"):
        # "no thread is left running": when connection_check() returns (or raises), the temporary connection's threads
        # have ended -- they do nothing any more afterwards
        late = [e for e in s.sim.events[s.i_end :] if e["th"] in ("reader", "sender")]
        if late:
            return f"when connection_check() returned, the temporary connection's {late[0]['th']} thread was still running (it went on with {late[0]['k']})"
    if s.disconnects and not case.get("fault"):
        return "the disconnect callback was invoked by connection_check on a healthy link"
    t_reply = model_reply_time(s)
    in_time = t_reply is not None and t_reply < s.t_start + timeout_us() - 1000 and not (case.get("fault") and case["fault"]["kind"] in ("eof", "err") and case["fault"]["at_us"] <= t_reply)
    if s.exc is not None:
        if not isinstance(s.exc, ynca.YncaConnectionError):
            return f"connection_check raised {type(s.exc).__name__}: {s.exc} (expected YncaConnectionError)"
        if in_time:
            return f"connection_check raised although the model name reply arrived at {t_reply} us, within the time-out"
        return None
    res = s.result
    if t_reply is None or t_reply >= s.t_start + timeout_us():
        return f"connection_check returned {res!r} although no model name arrived within the time-out"
    want_zones = [z for z in ZONES if z in case["zones"]]
    if res.modelname != rx.store["SYS"]["MODELNAME"]:
        return f"model name {res.modelname!r}, device says {rx.store['SYS']['MODELNAME']!r}"
    if list(res.zones) != want_zones:
        return f"zones {list(res.zones)!r} reported, the device has {want_zones!r} (latency {case['latency_us']} us, first probe {'swallowed' if case['swallow_first'] else 'answered'})"
    return None


def delivered_during(s):
    out = []
    for e in s.sim.events[s.i_start : s.i_end]:
        if e["k"] == "Deliver":
            out.append((e["status"], e["sfv"]))
    return out


def run(chk: Check):
    rng = random.Random(chk.seed + 17)
    chk.build(PROP_FILE)
    lats = [0, 20000, 60000, 99000, 100000, 101000, 150000, 199000, 200000, 201000, 400000, 850000, 1000000]
    cases = []
    subsets = [list(c) for r in range(5) for c in itertools.combinations(ZONES, r)]
    for zones in subsets:
        for lat in lats:
            for sw in (False, True):
                cases.append({"zones": zones, "latency_us": lat, "swallow_first": sw, "missing": "@UNDEFINED" if len(zones) % 2 else "@RESTRICTED", "seed": rng.randrange(1 << 30), "switch_prob": rng.choice([0.05, 0.3, 0.6]), "jitter": False})
    # jitter, faults, more schedules
    extra = 150 if chk.tier == "quick" else 3000
    for _ in range(extra):
        c = {"zones": rng.choice(subsets), "latency_us": rng.choice(lats), "swallow_first": rng.random() < 0.4, "missing": rng.choice(["@UNDEFINED", "@RESTRICTED"]), "seed": rng.randrange(1 << 30), "switch_prob": rng.choice([0.05, 0.3, 0.6]), "jitter": rng.random() < 0.5}
        c["repeat"] = rng.random() < 0.2            # an earlier connection_check() on the same object
        c["other_connection"] = rng.random() < 0.2  # another live connection of the process hears AVAIL reports meanwhile
        r = rng.random()
        if r < 0.25:
            c["fault"] = {"kind": "silent_after", "k": rng.randrange(0, 8)}
        elif r < 0.5:
            c["fault"] = {"kind": rng.choice(["eof", "err"]), "at_us": rng.randrange(0, 1_600_000)}
        cases.append(c)
    sessions = []
    dist = {"sessions": 0, "returned": 0, "raised": 0, "with_fault": 0}
    for c in cases:
        s, rx = run_case(c)
        sessions.append((c, s, rx))
        dist["sessions"] += 1
        dist["returned" if s.exc is None else "raised"] += 1
        dist["with_fault"] += 1 if c.get("fault") else 0
        chk.count_case({"case": c}, True)
        why = monitor(s, c, rx)
        if why:
            key = "zones" if "zones" in why else ("cleanup" if "open" in why or "thread" in why else why.split(" ")[0])
            chk.violation(f"C17:{key}", why, {"case": c})

    validated = 0
    if not any(b["obligation"].startswith(("translator", "compile")) for b in chk.broken):
        sel = [(c, s, rx) for c, s, rx in sessions if s.sim.failure is None and s.port is not None][: (300 if chk.tier == "quick" else 3000)]

        def mk(part):
            lines = [coqio.CASES_HEADER, "From Ynca Require Import Model.Line Model.Api.\n"]
            items = ["[" + "; ".join(coq_msg(st, sfv) for st, sfv in delivered_during(s)) + "]" for c, s, rx in part]
            lines.append("Definition cases : list (list msg) :=\n [" + ";\n  ".join(items) + "].\n")
            lines.append(
                "Definition run1 (h : list msg) : list N :=\n"
                "  let r := cc_run cc_init h in\n"
                "  ((match cc_model r with Some v => 1 :: v | None => [0] end) ++ [END] ++ flat_map (fun z => z ++ [END]) (cc_zones r) ++ [END2])%list.\n"
            )
            lines.append("Eval vm_compute in flat_map run1 cases.\n")
            return "\n".join(lines)

        ok, outs, err = run_cases_sharded("c17", mk, sel, shard=200)
        if not ok:
            chk.obligation_broken("cases c17", (err or "")[-800:])
        else:
            res = [c for o in outs for c in coqio.parse_flat2(o)]
            nb = 0
            for (c, s, rx), items in zip(sel, res):
                m_model = None if items[0][0] == 0 else coqio.txt(items[0][1:])
                m_zones = [coqio.txt(t) for t in items[1:]]
                if s.exc is None:
                    good = m_model == s.result.modelname and m_zones == list(s.result.zones)
                else:
                    good = m_model is None
                if good:
                    validated += 1
                else:
                    nb += 1
                    if nb <= 4:
                        chk.obligation_broken(f"correspondence cc_run (zones {c['zones']}, latency {c['latency_us']})", f"model ({m_model!r}, {m_zones!r}) vs implementation {'raised ' + type(s.exc).__name__ if s.exc else (s.result.modelname, list(s.result.zones))!r}; delivered {delivered_during(s)!r}"[:700])
            if nb > 4:
                chk.obligation_broken("correspondence cc_run", f"{nb} sessions disagree in total")
    chk.cov["traces_validated_against_impl"] = validated
    chk.cov["exhaustive"] = True
    chk.cov["rule"] = (
        "exhaustive grid: 16 zone subsets x reply latencies {0,20,60,99,100,101,150,199,200,201,400,850,1000 ms} x {first start-up probe swallowed or answered}, plus jittered latencies, "
        "silence after the k-th reply and EOF / I/O error at random instants; real YncaApi.connection_check under the deterministic harness with PRNG schedules. "
        "Every case is distinct and non-trivial (a complete temporary session)."
    )
    chk.cov["input_distribution"] = dist
    c, s, rx = sessions[0]
    chk.sample({"case": c, "result": repr(s.result), "exception": repr(s.exc)})
    return chk.finish(
        trusted=["correspondence: the real connection_check under the deterministic harness; the messages delivered during the check are folded by Model/Api.cc_run (vm_compute) and compared with the returned result",
                 "device discipline (replies in request order, one reply per AVAIL query) is an explicit hypothesis of the theorem, validated only against the recordings"],
        assumptions=["'a latency that lets the model-name reply arrive within the time-out': the reply to the check's own MODELNAME query is emitted before t0 + 1.5 s"],
    )


def replay(path):
    d = json.load(open(path))
    c = d["replay"]["case"]
    s, rx = run_case(c)
    print("case:", c)
    print("result:", s.result, "exception:", repr(s.exc), "delivered:", delivered_during(s))
    print("monitor:", monitor(s, c, rx) or "ok")
    return 0
