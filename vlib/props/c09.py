"""C09 -- each reported value notifies every update callback exactly once, safely."""
from __future__ import annotations

import json
import random

from .. import coqio, dsim
from .. import conntrace as CT
from .. import subcases as SC
from ..common import Check, run_cases_sharded
from ..subharness import canon_value, class_info, typed_decoding

PROP_FILE = "Properties/C09.v"


def gen_scenario(rng, tier, infos, rec_by):
    """a session: 1-2 subunits, 1-3 update callbacks each, 1-2 extra message callbacks, a history of
    device lines, callback programs that mutate the sets re-entrantly, and a second thread mutating too"""
    subs = rng.sample([i for i in range(len(infos)) if len(infos[i][2]) >= 3], rng.choice([1, 2]))
    sc = {"subs": subs, "seed": rng.randrange(1 << 30), "switch_prob": rng.choice([0.05, 0.3, 0.6]), "n_update": rng.randrange(1, 4), "n_msg": rng.randrange(0, 3)}
    all_ids = [cid for _, cid, _ in infos]
    hist = []
    for _ in range(rng.randrange(2, 12 if tier == "quick" else 40)):
        cls, cid, funcs = infos[rng.choice(subs)]
        hist += SC.gen_history(rng, cid, funcs, all_ids, rec_by, 1)
    sc["history"] = hist
    sc["gap_us"] = rng.choice([0, 1000, 50000])
    # callback programs: (callback name, at its k-th invocation, action)
    names = [f"u{si}_{k}" for si in range(len(subs)) for k in range(sc["n_update"])] + [f"m{k}" for k in range(sc["n_msg"])]
    acts = []
    for _ in range(rng.randrange(0, 5)):
        who = rng.choice(names)
        kind = rng.choice(["unreg_self", "unreg_other", "reg_new", "reg_again", "close_sub", "unreg_twice", "reg_msg", "unreg_msg"])
        acts.append({"who": who, "at": rng.randrange(1, 4), "kind": kind, "target": rng.choice(names), "sub": rng.randrange(len(subs))})
    sc["cb_actions"] = acts
    other = []
    for _ in range(rng.randrange(0, 4)):
        other.append({"after_us": rng.randrange(0, 400000), "kind": rng.choice(["unreg_other", "reg_new", "reg_again", "close_sub", "reg_msg", "unreg_msg"]), "target": rng.choice(names), "sub": rng.randrange(len(subs))})
    sc["thread_actions"] = other
    sc["bound_methods"] = rng.random() < 0.4
    return sc


def run_scenario(sc, infos):
    s = CT.Session(sc["seed"], respond=lambda line, idx: [], latency_us=10000, switch_prob=sc["switch_prob"])
    s.invocations = []  # (event index, cb name, kind, args, cache_ok)
    s.registry_log = []

    def body(s):
        from ynca.connection import YncaConnection

        c = YncaConnection("sim://")
        c.connect(lambda: s.disconnects.append(s.sim.now), 0)
        s.conn = c
        sim = s.sim
        insts = []
        for si, idx in enumerate(sc["subs"]):
            cls, cid, funcs = infos[idx]
            inst = cls(c)
            inst._initialized = True
            insts.append((inst, cid, funcs))
        cbs = {}
        counts = {}

        def logged(kind, label, name, fn):
            """every (un)registration / close through the public API, with the event indices it spans"""
            rec = {"kind": kind, "label": label, "name": name, "start": len(sim.events), "end": None, "th": sim.cur.name}
            s.registry_log.append(rec)
            try:
                fn()
            finally:
                rec["end"] = len(sim.events)

        def lab_of(cb):
            return "message" if cb._kind == "message" else "update:" + f"{cb._owner.id}"

        def reg(cb):
            logged("reg", lab_of(cb), cb._cbid, lambda: (c.register_message_callback if cb._kind == "message" else cb._owner.register_update_callback)(cb._fresh()))

        def unreg(cb):
            logged("unreg", lab_of(cb), cb._cbid, lambda: (c.unregister_message_callback if cb._kind == "message" else cb._owner.unregister_update_callback)(cb._fresh()))

        def do_action(a, who):
            kind = a["kind"]
            inst, cid, funcs = insts[a["sub"] % len(insts)]
            tgt = cbs.get(a["target"])
            me = cbs.get(who) if who else None
            if kind == "unreg_self" and me is not None:
                unreg(me)
            elif kind == "unreg_other" and tgt is not None:
                unreg(tgt)
            elif kind == "unreg_twice" and tgt is not None and tgt._kind == "update":
                unreg(tgt)
                unreg(tgt)
            elif kind == "reg_new":
                n = f"x{len(cbs)}"
                reg(make_update(n, inst))
            elif kind == "reg_again" and tgt is not None:
                reg(tgt)
            elif kind == "close_sub":
                logged("close", "update:" + f"{inst.id}", None, inst.close)
            elif kind == "reg_msg":
                n = f"y{len(cbs)}"
                reg(make_msg(n))
            elif kind == "unreg_msg" and tgt is not None and tgt._kind == "message":
                unreg(tgt)

        def after_invocation(name):
            counts[name] = counts.get(name, 0) + 1
            for a in sc["cb_actions"]:
                if a["who"] == name and a["at"] == counts[name]:
                    try:
                        do_action(a, name)
                    except dsim.SimAbort:
                        raise
                    except BaseException as e:  # noqa
                        s.errors.append((name, type(e).__name__, str(e)[:100]))
                        raise

        class Handle:
            """a callback as the application holds it: a plain function, or an object whose bound method is
            registered (every access `obj.on_x` yields a new, equal method object)"""

            def __init__(self, name, kind, owner, bound):
                self._cbid, self._kind, self._owner, self._bound = name, kind, owner, bound
                if bound:
                    outer = self

                    class Client:
                        _cbid = name

                        def on_update(self_, fname, value):
                            outer._call_update(fname, value)

                        def on_message(self_, st, sub, f, v):
                            outer._call_message(st, sub, f, v)

                    self._client = Client()
                else:
                    if kind == "update":
                        def fn(fname, value):
                            self._call_update(fname, value)
                    else:
                        def fn(st, sub, f, v):
                            self._call_message(st, sub, f, v)
                    fn._cbid = name
                    self._fn = fn

            def _fresh(self):
                if self._bound:
                    return self._client.on_update if self._kind == "update" else self._client.on_message
                return self._fn

            def _call_update(self, fname, value):
                inst = self._owner
                sim.ev("CbEnter", set="update:" + f"{inst.id}", item=self._cbid)
                h = inst.function_handlers.get(fname)
                s.invocations.append((len(sim.events), self._cbid, "update", (f"{inst.id}", fname, canon_value(value)), h is not None and canon_value(h.value) == canon_value(value)))
                after_invocation(self._cbid)

            def _call_message(self, st, sub, f, v):
                sim.ev("CbEnter", set="message", item=self._cbid)
                s.invocations.append((len(sim.events), self._cbid, "message", (st.name, sub, f, v), True))
                after_invocation(self._cbid)

        brng = random.Random(sc["seed"] + 5)

        def make_update(name, inst):
            h = Handle(name, "update", inst, sc.get("bound_methods") and brng.random() < 0.6)
            cbs[name] = h
            return h

        def make_msg(name):
            h = Handle(name, "message", None, sc.get("bound_methods") and brng.random() < 0.6)
            cbs[name] = h
            return h

        for si, (inst, cid, funcs) in enumerate(insts):
            for k in range(sc["n_update"]):
                reg(make_update(f"u{si}_{k}", inst))
        for k in range(sc["n_msg"]):
            reg(make_msg(f"m{k}"))

        # the device speaks
        t = 200000
        for m in sc["history"]:
            if m[1] is None:
                line = "@UNDEFINED" if m[0] == "UNDEFINED" else ("@RESTRICTED" if m[0] == "RESTRICTED" else "junk")
            else:
                line = f"@{m[1][0]}:{m[1][1]}={m[1][2]}"
            s.dev.emit_at(t, (line + "\r\n").encode("utf-8"))
            t += sc["gap_us"]

        def other():
            last = 0
            for a in sorted(sc["thread_actions"], key=lambda a: a["after_us"]):
                s.sleep((a["after_us"] - last) / 1e6 + 0.2)
                last = a["after_us"]
                try:
                    do_action(a, None)
                except dsim.SimAbort:
                    raise
                except BaseException as e:  # noqa
                    s.errors.append(("thread2", type(e).__name__, str(e)[:100]))

        th = sim.spawn(other, "caller1")
        th.join()
        s.sleep(1.5 + t / 1e6)
        s.connected_at_end = bool(c.connected)
        s.insts = [(f"{i.id}", [(n, canon_value(h.value)) for n, h in i.function_handlers.items()]) for i, _, _ in insts]
        c.close()

    s.run(body)
    return s


def set_traces(events):
    """per callback set: the sequence of daction terms, with callback names mapped to naturals"""
    out = {}
    ids = {}

    def nid(label, name):
        d = ids.setdefault(label, {})
        if name not in d:
            d[name] = len(d) + 1
        return d[name]

    for e in events:
        k = e["k"]
        lab = e.get("set")
        if lab is None:
            continue
        tr = out.setdefault(lab, [])
        if k == "SetSnapshot":
            tr.append("DStart")
        elif k == "SetContains":
            tr.append(f"DTest {nid(lab, e['item'])} {'true' if e['result'] else 'false'}")
        elif k == "CbEnter":
            tr.append(f"DCall {nid(lab, e['item'])}")
        elif k == "SetAdd":
            tr.append(f"DAdd {nid(lab, e['item'])}")
        elif k in ("SetDiscard", "SetRemove"):
            tr.append(f"DDiscard {nid(lab, e['item'])}")
        elif k == "SetClear":
            tr.append("DClear")
        elif k in ("IterStart", "IterNext", "IterEnd", "IterRaise"):
            tr.append("DLiveIteration")  # the code iterates the live set: not possible in the model
    return out, ids


def mon_api(s, sc, infos):
    """judged on what went through the public API only (no knowledge of how the library stores callbacks):
    within one delivery, a callback whose registration state is settled (no register / unregister / close of it
    overlapping the delivery) is invoked exactly once if registered and not at all otherwise; nobody twice"""
    ev = s.sim.events
    ops = [r for r in s.registry_log if r["end"] is not None]
    names = {}
    for r in s.registry_log:
        if r["name"] is not None:
            names.setdefault(r["label"], set()).add(r["name"])
    by_id = {}
    for idx in sc["subs"]:
        cls, cid, funcs = infos[idx]
        by_id[cid] = {f.name: f for a, f in funcs}
    inv = [(i, n) for (i, n, kind, args, ok) in s.invocations]
    i = 0
    while i < len(ev):
        e = ev[i]
        if e["k"] != "Deliver":
            i += 1
            continue
        j = next((k for k in range(i + 1, len(ev)) if ev[k]["k"] == "DeliverEnd" and ev[k]["th"] == e["th"]), len(ev))
        labels = ["message"]
        sfv = e.get("sfv")
        if e.get("status") == "OK" and sfv and sfv[0] in by_id and sfv[1] in by_id[sfv[0]] and sfv[2] is not None:
            try:
                by_id[sfv[0]][sfv[1]].converter.to_value(sfv[2])
                labels.append("update:" + sfv[0])
            except Exception:  # noqa
                pass
        for lab in labels:
            for n in sorted(names.get(lab, ())):
                mine = [r for r in ops if r["label"] == lab and (r["name"] == n or r["kind"] == "close")]
                unfinished = [r for r in s.registry_log if r["end"] is None and r["label"] == lab and (r["name"] == n or r["kind"] == "close")]
                before = [r for r in mine if r["end"] <= i]
                overlapping = [r for r in mine if r["end"] > i and r["start"] <= j] + [r for r in unfinished if r["start"] <= j]
                calls = sum(1 for (k, nm) in inv if nm == n and i < k <= j + 1)
                if calls > 1:
                    return f"{lab}: callback {n} invoked {calls} times for one message"
                if overlapping:
                    continue
                closed = any(r["kind"] == "close" for r in before)  # a closed subunit is no longer initialised: nothing is delivered any more
                state_in = bool(before) and before[-1]["kind"] == "reg" and not closed
                if state_in and calls != 1:
                    return f"{lab}: callback {n} was registered (through the API, completed before the message) and not unregistered, but was not invoked for {sfv}"
                if not state_in and calls:
                    what = "the subunit was closed" if closed else ("it was unregistered" if before else "it was never registered")
                    return f"{lab}: callback {n} invoked for {sfv} although {what} before the message arrived"
        i = j
    return None


def monitor(s, sc, infos):
    why = mon_api(s, sc, infos)
    if why:
        return why
    ev = s.sim.events
    if s.disconnects:
        return "the connection was lost (disconnect callback invoked) during callback (un)registration"
    if s.errors:
        return f"a callback or API call raised: {s.errors[0]}"
    if not getattr(s, "connected_at_end", True):
        return "the connection reports not connected at the end of the session"
    if any(e["k"] == "IterRaise" for e in ev):
        return "Set changed size during iteration on the reader thread"
    # registration intervals per (set, callback) from the set events (completed operations)
    member = {}
    removed_since = {}
    cur_delivery = {}
    for i, e in enumerate(ev):
        lab = e.get("set")
        if lab is None:
            continue
        k = e["k"]
        m = member.setdefault(lab, set())
        if k == "SetAdd":
            m.add(e["item"])
        elif k in ("SetDiscard", "SetRemove"):
            m.discard(e["item"])
            for d in cur_delivery.get(lab, []):
                d["removed"].add(e["item"])
        elif k == "SetClear":
            for d in cur_delivery.get(lab, []):
                d["removed"] |= set(m)
            m.clear()
        elif k == "SetContains":
            if e.get("result") and e["item"] not in m:
                what = "the subunit was closed" if lab.startswith("update:") and not m else "it was unregistered"
                return f"{lab}: callback {e['item']} is still treated as registered (and invoked) after {what}"
        elif k == "SetSnapshot":
            d = {"snap": set(m), "removed": set(), "called": [], "idx": i}
            cur_delivery[lab] = [d]
            removed_since.setdefault(lab, []).append(d)
        elif k == "CbEnter":
            ds = cur_delivery.get(lab)
            if not ds:
                if not any(x["k"] == "SetSnapshot" and x.get("set") == lab for x in ev):
                    continue  # the library does not keep these callbacks in a set the harness instruments: API-level rules only
                return f"callback {e['item']} of {lab} invoked outside any delivery"
            ds[0]["called"].append(e["item"])
    for lab, ds in removed_since.items():
        for d in ds:
            for cb in d["called"]:
                if d["called"].count(cb) > 1:
                    return f"{lab}: callback {cb} invoked {d['called'].count(cb)} times for one message"
                if cb not in d["snap"]:
                    return f"{lab}: callback {cb} invoked although it was not registered when the message arrived"
            # the delivery is complete unless the session was cut (we always idle at the end)
            for cb in d["snap"]:
                if cb not in d["removed"] and cb not in d["called"] and not str(cb).endswith("_protocol_message_received"):
                    return f"{lab}: callback {cb} was registered when the message arrived and never unregistered, but was not invoked (message lost)"
    # update callbacks: decoded value, cache already updated, arrival order, only modelled values
    for idx, name, kind, args, cache_ok in s.invocations:
        if kind == "update" and not cache_ok:
            return f"update callback {name} invoked with {args} before the cache reflected the value"
    return None


def expected_updates(sc, infos):
    """sequential reference: the (subunit id, function, decoded value) notifications in arrival order"""
    out = []
    for m in sc["history"]:
        if m[0] != "OK" or m[1] is None:
            continue
        S, F, V = m[1]
        for idx in sc["subs"]:
            cls, cid, funcs = infos[idx]
            if cid == S:
                for attr, f in funcs:
                    if f.name == F:
                        try:
                            out.append((cid, F, canon_value(typed_decoding(f.converter, V))))
                        except Exception:  # noqa
                            pass
    return out


def run(chk: Check):
    rng = random.Random(chk.seed * 31 + 9)
    chk.build(PROP_FILE)
    infos, enums = class_info()
    rec_by = SC.recorded_values()
    n = 400 if chk.tier == "quick" else 8000
    # systematic, sequential: EVERY declared function of EVERY class (readable or write-only, own query or group member)
    # reported once to an initialised instance with two update callbacks: each callback exactly once, name and decoded value
    from .. import apiscen as _AS
    from ..subharness import deliver, make_connection

    frng = random.Random(chk.seed * 7 + 909)
    for cls, cid, funcs in infos:
        conn = make_connection()
        inst = cls(conn)
        inst._initialized = True
        seen = ([], [])
        inst.register_update_callback(lambda fn, v, _s=seen[0]: _s.append((fn, canon_value(v))))
        inst.register_update_callback(lambda fn, v, _s=seen[1]: _s.append((fn, canon_value(v))))
        for attr, f in funcs:
            for rep_i in range(2):
                V = _AS.valid_value(frng, f)
                try:
                    exp = canon_value(typed_decoding(f.converter, V))
                except Exception:  # noqa: not decodable: C10's matter
                    continue
                k0 = (len(seen[0]), len(seen[1]))
                try:
                    deliver(conn, ("OK", (cid, f.name, V)))
                except Exception as e:  # noqa
                    chk.violation(f"C09:every-function:{cls.__name__}.{f.name}", f"reporting @{cid}:{f.name}={V} raised {type(e).__name__}: {e}", {"class": cls.__name__, "function": f.name, "value": V})
                    break
                chk.count_case(["every-function", cid, f.name, V], True)
                got = (seen[0][k0[0]:], seen[1][k0[1]:])
                if got[0] != [(f.name, exp)] or got[1] != [(f.name, exp)]:
                    chk.violation(f"C09:every-function:{cls.__name__}.{f.name}", f"@{cid}:{f.name}={V} reported to an initialised {cls.__name__} with two update callbacks: they were invoked with {got[0]!r} and {got[1]!r}, expected exactly once each with {(f.name, exp)!r}", {"class": cls.__name__, "function": f.name, "value": V})
                    break
    sessions = []
    dist = {"sessions": 0, "messages": 0, "callback_invocations": 0, "re_entrant_mutations": 0, "other_thread_mutations": 0, "deliveries": 0}
    for _ in range(n):
        sc = gen_scenario(rng, chk.tier, infos, rec_by)
        s = run_scenario(sc, infos)
        sessions.append((sc, s))
        dist["sessions"] += 1
        dist["messages"] += len(sc["history"])
        dist["callback_invocations"] += len(s.invocations)
        dist["re_entrant_mutations"] += len(sc["cb_actions"])
        dist["other_thread_mutations"] += len(sc["thread_actions"])
        dist["deliveries"] += sum(1 for e in s.sim.events if e["k"] == "SetSnapshot")
        chk.count_case({"scenario": sc}, len(s.invocations) >= 2 and (len(sc["cb_actions"]) + len(sc["thread_actions"])) >= 1)
        if s.sim.failure is not None:
            chk.violation("C09:no-termination", f"the session never came to rest: {s.sim.failure}", {"scenario": sc})
            continue
        why = monitor(s, sc, infos)
        if why:
            chk.violation("C09:" + ("set-changed-size" if "changed size" in why or "lost" in why else why.split(":")[0][:50]), why, {"scenario": sc})
            continue
        # sequential half when nobody mutated: each update callback saw exactly the expected notifications, in order
        if not sc["cb_actions"] and not sc["thread_actions"]:
            # what reached the message callbacks, in order (a SYS:MODELNAME line may legitimately be withheld as
            # the reply to a start-up probe the silent device of this scenario never answered: C13)
            from ..translate import split_sfv as _split

            hist = []
            for e in s.sim.events:
                if e["k"] == "Line":
                    t = _split(e["text"])
                    if t and not (t[0] == "SYS" and t[1] == "MODELNAME"):  # only that line can be withheld (C13)
                        hist.append(["OK", list(t)])
            delivered = {"history": hist, "subs": sc["subs"]}
            exp = [x for x in expected_updates(delivered, infos) if not (x[0] == "SYS" and x[1] == "MODELNAME")]
            for si, idx in enumerate(sc["subs"]):
                cid = infos[idx][1]
                want = [(c, f, v) for c, f, v in exp if c == cid]
                for k in range(sc["n_update"]):
                    got = [a for _, nme, kind, a, _ in s.invocations if nme == f"u{si}_{k}" and not (a[0] == "SYS" and a[1] == "MODELNAME")]
                    if got != want:
                        chk.violation("C09:notifications", f"update callback u{si}_{k} of {cid} saw {got[:4]!r}..., expected {want[:4]!r}...", {"scenario": sc})

    validated = 0
    if not any(b["obligation"].startswith(("translator", "compile")) for b in chk.broken):
        cases = []
        owners = []
        for i, (sc, s) in enumerate(sessions):
            if s.sim.failure is not None:
                continue
            trs, ids = set_traces(s.sim.events)
            for lab, tr in trs.items():
                if any(a == "DStart" for a in tr):
                    cases.append(tr)
                    owners.append((i, lab))
            if len(cases) > (400 if chk.tier == "quick" else 4000):
                break

        def mk(part):
            lines = [coqio.CASES_HEADER, "From Ynca Require Import Model.Deliver.\nOpen Scope nat_scope.\n",
                     "Inductive dact := A (a : daction) | DLiveIteration.\n"]
            for i, tr in enumerate(part):
                lines.append(f"Definition tr{i} : list daction :=\n [" + "; ".join(a for a in tr if a != "DLiveIteration") + "].\n")
            lines.append(
                "Definition go (tr : list daction) : list N :=\n"
                "  let '(s, d) := drun_diag (dinit []) tr O in\n"
                "  ((match d with None => [0%N] | Some n => [1%N; N.of_nat n] end) ++ [N.of_nat (length (g_called s)); (if d_complete s then 1%N else 0%N)] ++ [END; END2])%list.\n"
            )
            lines.append("Eval vm_compute in (" + " ++ ".join(f"go tr{i}" for i in range(len(part))) + ")%list.\n")
            return "\n".join(lines)

        ok, outs, err = run_cases_sharded("c09_sets", mk, cases, shard=120)
        if not ok:
            chk.obligation_broken("cases c09_sets", (err or "")[-800:])
        else:
            res = [c for o in outs for c in coqio.parse_flat2(o)]
            nb = 0
            for (i, lab), tr, items in zip(owners, cases, res):
                t = items[0]
                live_iter = "DLiveIteration" in tr
                refused = None if t[0] == 0 else t[1]
                if refused is None and not live_iter:
                    validated += 1
                else:
                    nb += 1
                    if nb <= 4:
                        tr2 = [a for a in tr if a != "DLiveIteration"]
                        det = "the code iterates the live set (IterStart/IterNext events), the model delivers over a snapshot" if live_iter else f"the model refuses event #{refused}: {tr2[refused]} after {tr2[max(0, refused - 4) : refused]}"
                        chk.obligation_broken(f"correspondence delivery replay ({lab}, scenario seed {sessions[i][0]['seed']})", det)
            if nb > 4:
                chk.obligation_broken("correspondence delivery replay", f"{nb} callback-set traces disagree in total")
    chk.cov["traces_validated_against_impl"] = validated
    chk.cov["rule"] = (
        "sessions with 1-2 real subunit instances (all classes) on a real connection under the deterministic harness; 1-3 update callbacks per subunit and 0-2 extra message callbacks; "
        "device histories of 2-40 lines (own functions, other subunits, unknown functions, errors); callbacks that at their k-th invocation register/unregister themselves or others "
        "(also twice), register new callbacks, or close the subunit; a second thread doing the same at random times. Each callback set's events (snapshot, membership tests, calls, "
        "mutations) are replayed in Model/Deliver.v. distinct by scenario; non-trivial = at least 2 callback invocations and at least one mutation."
    )
    chk.cov["input_distribution"] = dist
    if sessions:
        sc, s = sessions[0]
        chk.sample({"scenario": {k: v for k, v in sc.items() if k != "history"}, "history": sc["history"][:4], "invocations": [(n_, k_, a_) for _, n_, k_, a_, _ in s.invocations[:5]]})
    return chk.finish(
        trusted=[
            "correspondence: real YncaConnection/SubunitBase delivery code under the deterministic harness; callback sets instrumented (snapshot, membership test, add/discard/remove/clear are events), replayed in Model/Deliver.v",
            "modelled, not verified: list(set) is atomic and set membership is a single step (GIL); CPython's 'set changed size during iteration' rule",
        ],
        assumptions=["'registered at that moment' = member of the callback set when the delivery took its snapshot; a callback unregistered before its turn is not invoked"],
    )


def replay(path):
    d = json.load(open(path))
    sc = d["replay"].get("scenario")
    if not sc:
        print(json.dumps(d, indent=1)[:1500])
        return 0
    infos, _ = class_info()
    sc["history"] = [(m[0], tuple(m[1]) if m[1] else None) for m in sc["history"]]
    s = run_scenario(sc, infos)
    print("failure:", s.sim.failure, "errors:", s.errors, "disconnect callbacks:", s.disconnects)
    print("invocations:", [(n_, k_) for _, n_, k_, _, _ in s.invocations][:30])
    print("monitor:", monitor(s, sc, infos) or "ok")
    return 0
