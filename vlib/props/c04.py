"""C04 -- typed decoding is total and round-trips with the wire text."""
from __future__ import annotations

import enum
import json
import random
import re
from fractions import Fraction

from .. import coqio
from ..common import Check, ct, run_cases_sharded
from ..translate import collect, recordings, split_sfv

PROP_FILE = "Properties/C04.v"


def nonmember_strings(cls, rng, n, all_wires):
    wires = [m.value for m in cls.__members__.values() if isinstance(m.value, str)]
    out = ["", " ", "?", "UNKNOWN", "< unknown >", "<UNKNOWN>", "ß", "\U0001f600", "On ", " On", "on", "ON", "0", "-1", "None"]
    for w in wires:
        out += [w.lower(), w.upper(), w.title(), w[:-1], w[1:], w + " ", " " + w, w + w, w.replace(" ", ""), w.replace(" ", "  "), w + "\n"]
    out += rng.sample(all_wires, min(len(all_wires), 40))
    while len(out) < n:
        k = rng.randint(1, 12)
        out.append("".join(rng.choice("AaBbOonNfF -_<>+0123456789é中") for _ in range(k)))
    seen, res = set(), []
    for s in out:
        if s not in seen:
            seen.add(s)
            res.append(s)
    return res


def impl_decode(cls, s):
    try:
        return ("ok", cls(s))
    except Exception as e:  # noqa
        return ("raise", type(e).__name__)


def conv_kind(cv):
    from ynca import converters as C

    t = type(cv)
    if t is C.EnumConverter:
        return "enum"
    if t is C.StrConverter:
        return "str"
    if t in (C.IntConverter, C.IntOrNoneConverter):
        return "int"
    if t is C.FloatConverter:
        return "float"
    if t is C.MultiConverter:
        return "multi"
    return "?"


def concurrent_decoding_sessions(chk):
    """two receivers in one process report different values of the same enumerated function at the same instant: the
    two reader threads decode through the converter they share (it sits on the class-level function declaration).  In
    these sessions every source line of ynca/converters.py is a scheduling point, so the threads interleave statement by
    statement inside the converter; each object must read the decoding of what ITS device said."""
    from .. import conntrace as CT
    from ..subharness import canon_value, typed_decoding

    rng = random.Random(chk.seed + 404)
    for k in range(15 if chk.tier == "quick" else 250):
        case = {"seed": rng.randrange(1 << 30), "switch_prob": rng.choice([0.3, 0.6, 0.9]), "rounds": rng.randrange(12, 30), "function": rng.choice(["PWR", "MUTE", "INP", "SOUNDPRG"])}
        s = CT.Session(case["seed"], respond=lambda line, idx: [], latency_us=0, switch_prob=case["switch_prob"])
        s.sim.trace_modules = {"ynca.converters"}
        bad = []

        def body(s, case=case, bad=bad):
            from ynca.subunits.zone import Main

            c = s.connect()
            m1 = Main(c)
            m1._initialized = True
            stop = s.start_decoy(random.Random(case["seed"] + 1), n_ops=0)
            try:
                inner(s, c, m1, stop)
            finally:
                stop()
                c.close()

        def inner(s, c, m1, stop, case=case, bad=bad):
            from ynca.subunits.zone import Main
            with s.sim.decoy():
                m2 = Main(s.decoy_conn)
                m2._initialized = True
            conv = m1.function_handlers[case["function"]].function.converter
            vr0 = random.Random(case["seed"] + 3)
            dt = getattr(conv, "datatype", None) or next((getattr(x, "datatype", None) for x in getattr(conv, "_converters", []) if getattr(x, "datatype", None)), None)
            texts = [m.value for n, m in dt.__members__.items() if n != "UNKNOWN"]
            texts = vr0.sample(texts, 2)  # two values only: the same text keeps coming back, on either connection
            s.sleep(0.3)
            vr = random.Random(case["seed"] + 2)
            for r in range(case["rounds"]):
                a, b = vr.choice(texts), vr.choice(texts)
                t = s.sim.now + 50_000
                s.dev.emit_at(t, f"@MAIN:{case['function']}={a}\r\n".encode(), cause=None)
                s.decoy_dev.emit_at(t, f"@MAIN:{case['function']}={b}\r\n".encode(), cause=None)
                s.sleep(0.1)
                got1 = canon_value(m1.function_handlers[case["function"]].value)
                got2 = canon_value(m2.function_handlers[case["function"]].value)
                want1, want2 = canon_value(typed_decoding(conv, a)), canon_value(typed_decoding(conv, b))
                if got1 != want1 or got2 != want2:
                    bad.append((a, b, got1, got2, want1, want2))
                    break

        s.run(body)
        chk.count_case({"concurrent_decoding": case}, True)
        chk.cov["concurrent_decoding_line_points"] = chk.cov.get("concurrent_decoding_line_points", 0) + getattr(s.sim, "n_line_points", 0)
        if s.sim.failure is not None:
            chk.violation("C04:concurrent-no-termination", f"the session never came to rest: {s.sim.failure}", {"concurrent_decoding_case": case})
        elif bad:
            a, b, g1, g2, w1, w2 = bad[0]
            chk.violation("C04:concurrent-decoding", f"two receivers reported @MAIN:{case['function']}={a} and ={b} at the same instant: the two objects read {g1!r} and {g2!r}, the typed decodings are {w1!r} and {w2!r}", {"concurrent_decoding_case": case})


def run(chk: Check):
    rng = random.Random(chk.seed)
    built = chk.build(PROP_FILE)
    concurrent_decoding_sessions(chk)
    classes, table, enums = collect()
    recs = recordings()
    all_wires = sorted({m.value for e in enums.values() for m in e.__members__.values() if isinstance(m.value, str)})
    n_non = 200 if chk.tier == "quick" else 1000

    # ------------------------------------------------------------ implementation + monitor: enums
    enum_cases = []  # (enum name, string, impl result)
    for name in sorted(enums):
        cls = enums[name]
        by_value = {}
        for mname, m in cls.__members__.items():
            by_value.setdefault(m.value, mname)
        # wire texts must be distinct over member names
        vals = [m.value for m in cls.__members__.values()]
        if len(set(vals)) != len(vals):
            dup = sorted({v for v in vals if vals.count(v) > 1})[0]
            names = [n for n, m in cls.__members__.items() if m.value == dup]
            chk.violation(f"enum:{name}:duplicate-wire", f"members {names} of {name} share wire text {dup!r}", {"enum": name, "wire": dup, "members": names})
        for mname, m in cls.__members__.items():
            w = m.value
            r = impl_decode(cls, w)
            enum_cases.append((name, w, r))
            chk.count_case(["member", name, mname], True)
            if r[0] != "ok" or r[1].name != by_value[w] or r[1].value != w:
                chk.violation(f"enum:{name}:{mname}:roundtrip", f"{name}({w!r}) -> {coqio.describe_py(r)}, expected member {mname}", {"enum": name, "string": w, "observed": coqio.describe_py(r)})
        unknown = cls.__members__.get("UNKNOWN")
        for s in nonmember_strings(cls, rng, n_non, all_wires):
            r = impl_decode(cls, s)
            enum_cases.append((name, s, r))
            chk.count_case(["string", name, s], s not in by_value)
            if s in by_value:
                exp = cls.__members__[by_value[s]]
            else:
                exp = unknown
            if r[0] != "ok" or exp is None or r[1] is not exp:
                chk.violation(
                    f"enum:{name}:decode",
                    f"{name}({s!r}) -> {coqio.describe_py(r)}, expected {'UNKNOWN' if s not in by_value else by_value[s]}",
                    {"enum": name, "string": s, "observed": coqio.describe_py(r)},
                )

    # ------------------------------------------------------------ history independence of the converters
    # every enumerated function's own converter object: first every wire text of EVERY enumeration
    # (most are unknown to it), then its own members -- decoding must not depend on what was decoded before
    from ynca import converters as C

    for c, funcs in table:
        for attr, f in funcs:
            parts = f.converter._converters if type(f.converter) is C.MultiConverter else [f.converter]
            for p in parts:
                if type(p) is not C.EnumConverter:
                    continue
                cls = p.datatype
                for w in all_wires:
                    try:
                        p.to_value(w)
                    except Exception:  # noqa
                        pass
    for c, funcs in table:
        for attr, f in funcs:
            parts = f.converter._converters if type(f.converter) is C.MultiConverter else [f.converter]
            for p in parts:
                if type(p) is not C.EnumConverter:
                    continue
                cls = p.datatype
                for mname, m in cls.__members__.items():
                    try:
                        r = ("ok", p.to_value(m.value))
                    except Exception as e:  # noqa
                        r = ("raise", type(e).__name__)
                    chk.count_case(["conv-after-others", c.__name__, attr, mname], True)
                    if r[0] != "ok" or r[1] is not m:
                        chk.violation(
                            f"converter:{cls.__name__}:history-dependent",
                            f"{c.__name__}.{attr}: after other texts were decoded, {m.value!r} decodes to {coqio.describe_py(r)} instead of {cls.__name__}.{mname}",
                            {"class": c.__name__, "attr": attr, "enum": cls.__name__, "string": m.value, "after": "every wire text of every enumeration through every enumerated function's converter"},
                        )

    # ... nor on what was ENCODED before: every function's whole converter first encodes every member of its
    # enumerations (what a write does), then the recorded values are decoded through it below
    for c, funcs in table:
        for attr, f in funcs:
            parts = f.converter._converters if type(f.converter) is C.MultiConverter else [f.converter]
            for p in parts:
                if type(p) is C.EnumConverter:
                    for m in p.datatype.__members__.values():
                        try:
                            f.converter.to_str(m)
                        except Exception:  # noqa
                            pass

    # ------------------------------------------------------------ implementation + monitor: recorded triples
    by_id = {}
    for c, funcs in table:
        cid = c.id.value if isinstance(c.id, enum.Enum) else str(c.id)
        by_id[cid] = {f.name: f for _, f in funcs}
    triple_cases = []
    seen = set()
    kinds = {}
    for rname, entries in recs:
        for direction, line in entries:
            if direction != "Received":
                continue
            t = split_sfv(line)
            if not t or t in seen:
                continue
            S, F, V = t
            f = by_id.get(S, {}).get(F)
            if f is None:
                continue
            seen.add(t)
            try:
                r = ("ok", f.converter.to_value(V))
            except Exception as e:  # noqa
                r = ("raise", type(e).__name__)
            triple_cases.append((S, F, V, r, rname))
            k = conv_kind(f.converter)
            kinds[k] = kinds.get(k, 0) + 1
            chk.count_case(["triple", S, F, V], True)
            # monitor (from the property text)
            cv = f.converter
            parts = cv._converters if k == "multi" else [cv]
            has_enum = any(conv_kind(p) == "enum" for p in parts)
            numeric = [conv_kind(p) for p in parts if conv_kind(p) in ("int", "float")]
            is_lit = coqio.plain_dec(V)
            if numeric and is_lit:
                if numeric[0] == "float":
                    ok = r[0] == "ok" and type(r[1]) is float and r[1] == float(Fraction(V))
                else:
                    ok = r[0] == "ok" and type(r[1]) is int and Fraction(r[1]) == Fraction(V)
                if not ok:
                    chk.violation(f"recorded:{S}:{F}:numeric", f"@{S}:{F}={V} ({rname}) decodes to {coqio.describe_py(r)}, not the number {V}", {"recording": rname, "line": f"@{S}:{F}={V}", "observed": coqio.describe_py(r)})
            elif has_enum:
                ok = r[0] == "ok" and isinstance(r[1], enum.Enum) and r[1].name != "UNKNOWN" and r[1].value == V
                if not ok:
                    chk.violation(f"recorded:{S}:{F}:enum", f"@{S}:{F}={V} ({rname}) decodes to {coqio.describe_py(r)}, not a proper member re-encoding to {V!r}", {"recording": rname, "line": f"@{S}:{F}={V}", "observed": coqio.describe_py(r)})
            elif k == "str":
                if not (r[0] == "ok" and r[1] == V and type(r[1]) is str):
                    chk.violation(f"recorded:{S}:{F}:text", f"@{S}:{F}={V} ({rname}) decodes to {coqio.describe_py(r)}", {"recording": rname, "line": f"@{S}:{F}={V}", "observed": coqio.describe_py(r)})

    # ------------------------------------------------------------ model correspondence
    validated = 0
    if not any(b["obligation"].startswith(("translator", "compile")) for b in chk.broken):
        # enums
        def mk_enum(part):
            lines = [coqio.CASES_HEADER, "From Ynca Require Import Gen.Enums Gen.Functions.\n"]
            items = [f"(enum_{re.sub(r'[^A-Za-z0-9_]', '_', n)}, {ct(s)})" for n, s, _ in part]
            lines.append("Definition cases : list (enum * text) :=\n [" + ";\n  ".join(items) + "].\n")
            lines.append("Eval vm_compute in flat_map (fun c => show_res_text (enum_decode (fst c) (snd c))) cases.\n")
            return "\n".join(lines)

        ok, outs, err = run_cases_sharded("c04_enums", mk_enum, enum_cases)
        if not ok:
            chk.obligation_broken("cases c04_enums", err[-800:])
        else:
            res = [t for o in outs for t in coqio.parse_flat(o)]
            if len(res) != len(enum_cases):
                chk.obligation_broken("cases c04_enums", f"{len(res)} results for {len(enum_cases)} cases")
            for (n, s, r), tok in zip(enum_cases, res):
                mv = coqio.decode_value(tok)
                agree = (mv[0] == "raise" and r[0] == "raise") or (mv[0] == "str" and r[0] == "ok" and r[1].name == mv[1])
                if agree:
                    validated += 1
                else:
                    chk.obligation_broken(f"correspondence enum_decode {n} {s!r}", f"model {mv} vs implementation {coqio.describe_py(r)}")
        # triples through to_value
        def mk_tr(part):
            texts = [V for _, _, V, _, _ in part]
            lines = [coqio.CASES_HEADER, "From Ynca Require Import Gen.Enums Gen.Functions.\n"]
            lines.append(f"Definition pf := table_float {coqio.float_oracle_table(texts)}.")
            lines.append(f"Definition pi := table_int {coqio.int_oracle_table(texts)}.")
            items = [f"({ct(S)}, {ct(F)}, {ct(V)})" for S, F, V, _, _ in part]
            lines.append("Definition cases : list (text * text * text) :=\n [" + ";\n  ".join(items) + "].\n")
            lines.append(
                "Definition run1 (c : text * text * text) : list N :=\n"
                "  let '(s, f, v) := c in\n"
                "  match find_class all_subunits s with\n  | None => [9; END]\n  | Some sc =>\n"
                "    match find_func sc f with\n    | None => [9; END]\n    | Some fn => show_res_value (to_value pf pi (f_conv fn) v)\n    end\n  end.\n"
            )
            lines.append("Eval vm_compute in flat_map run1 cases.\n")
            return "\n".join(lines)

        ok, outs, err = run_cases_sharded("c04_triples", mk_tr, triple_cases)
        if not ok:
            chk.obligation_broken("cases c04_triples", err[-800:])
        else:
            res = [t for o in outs for t in coqio.parse_flat(o)]
            if len(res) != len(triple_cases):
                chk.obligation_broken("cases c04_triples", f"{len(res)} results for {len(triple_cases)} cases")
            for (S, F, V, r, rname), tok in zip(triple_cases, res):
                if tok == [9]:
                    chk.obligation_broken(f"correspondence to_value @{S}:{F}", "function not in generated tables")
                    continue
                mv = coqio.decode_value(tok)
                if coqio.py_value_matches(mv, r):
                    validated += 1
                else:
                    chk.obligation_broken(f"correspondence to_value @{S}:{F}={V}", f"model {mv} vs implementation {coqio.describe_py(r)}")
    chk.cov["traces_validated_against_impl"] = validated
    chk.cov["exhaustive"] = True
    chk.cov["rule"] = (
        "exhaustive over the live objects: every member of every enumeration (decode of its wire text, encode, round trip), "
        f"{n_non} generated non-member strings per enumeration (case variants, prefixes, padding, other enums' texts, random), "
        "and every distinct Received (subunit, function, value) triple of the 12 recordings whose function is modelled, through the real converter. "
        "A case is distinct by (kind, enum/function, string); non-trivial = a member, a recorded triple, or a string that is no member's text."
    )
    chk.cov["input_distribution"] = {"enum_cases": len(enum_cases), "recorded_triples": len(triple_cases), "triples_by_converter_kind": kinds}
    for n, s, r in enum_cases[:2]:
        chk.sample({"enum": n, "string": s, "implementation": coqio.describe_py(r)})
    for S, F, V, r, rname in triple_cases[:2]:
        chk.sample({"recording": rname, "line": f"@{S}:{F}={V}", "implementation": coqio.describe_py(r)}, limit=5)
    return chk.finish(
        trusted=[
            "correspondence: vlib/props/c04.py runs the live Enum classes and converters and compares with enum_decode / to_value evaluated by vm_compute",
            "modelled, not verified: Python Enum value lookup and _missing_ protocol; float()/int() outside the plain decimal grammar are oracles (instantiated by the observed results)",
            "CPython float(text) being the correctly rounded double of a plain literal is checked over all recorded literals, otherwise trusted",
        ],
        assumptions=["members compared by (class name, member name)", "aliases (two names, one value) are treated as distinct members sharing a wire text"],
    )


def replay(path):
    d = json.load(open(path))
    r = d.get("replay", {})
    _, _, enums = collect()
    if "enum" in r and "string" in r:
        cls = enums[r["enum"]]
        res = impl_decode(cls, r["string"])
        print(f"{r['enum']}({r['string']!r}) -> {coqio.describe_py(res)}   [required: member with that wire text, else UNKNOWN, never an exception]")
    elif "line" in r:
        S, F, V = split_sfv(r["line"])
        classes, table, _ = collect()
        for c, funcs in table:
            if str(c.id.value) == S:
                for _, f in funcs:
                    if f.name == F:
                        try:
                            print(f"{r['line']} -> {f.converter.to_value(V)!r}")
                        except Exception as e:  # noqa
                            print(f"{r['line']} -> raise {type(e).__name__}: {e}")
    else:
        print(json.dumps(d, indent=1))
    return 0
