"""Driver shared by C15 and C16."""
from __future__ import annotations

import json
import random

from .. import connscen as CS
from .. import conntrace as CT
from .. import lifescen as LS
from .. import lifetrace as LT
from ..common import Check

JOIN_US = 2_000_000


def run_life_check(chk: Check, prop, prop_file, kind, monitor, n_quick, n_thorough, rule_text, corpus=(), assumptions=()):
    rng = random.Random(chk.seed * 104729 + (15 if prop == "C15" else 16))
    chk.build(prop_file)
    n = n_quick if chk.tier == "quick" else n_thorough
    scenarios = [dict(c) for c in corpus] + [LS.gen_life_scenario(rng, chk.tier, kind) for _ in range(n)]
    sessions = []
    dist = {"sessions": 0, "events": 0, "faults": 0, "close_calls": 0, "close_on_reader_thread": 0, "disconnect_callbacks": 0, "context_switches": 0}
    for sc in scenarios:
        s = LS.run_life_scenario(sc)
        sessions.append((sc, s))
        dist["sessions"] += 1
        dist["events"] += len(s.sim.events)
        dist["faults"] += 1 if any(e["k"] == "DevFault" for e in s.sim.events) else 0
        dist["close_calls"] += len(s.close_calls)
        dist["close_on_reader_thread"] += sum(1 for c in s.close_calls if c["thread"] == "reader")
        dist["disconnect_callbacks"] += len(s.disconnects)
        dist["context_switches"] += s.sim.n_switch
        nt = (any(e["k"] == "DevFault" for e in s.sim.events) if kind == "fault" else len(s.close_calls) >= 1) and len(s.sim.events) > 30
        chk.count_case({"scenario": sc}, nt)
        if s.sim.failure is not None:
            chk.violation(f"{prop}:no-termination", f"the session never came to rest: {s.sim.failure} (threads: {[(t.name, t.state) for t in s.sim.threads]})", {"scenario": sc})
            continue
        why = monitor(s, sc)
        if why:
            key = "reader-thread-close" if "cannot join current thread" in why else why.split(":")[0][:60]
            chk.violation(f"{prop}:{key}", why, {"scenario": sc})

    validated = 0
    if not any(b["obligation"].startswith(("translator", "compile")) for b in chk.broken):
        sel = [i for i, (sc, s) in enumerate(sessions) if s.sim.failure is None and s.port is not None and len(s.sim.events) < 6000]
        cap_n = 120 if chk.tier == "quick" else 1200
        if len(sel) > cap_n:
            sel = sorted(rng.sample(sel, cap_n))
        cases = []
        for i in sel:
            sc, s = sessions[i]
            acts, notes = LT.project_life(s.sim.events)
            cases.append((bool(sc["disc_cb"]), acts))
        from ..common import gen_params

        gp = gen_params()
        ok, res, err = LT.replay_life(prop.lower() + "_life", cases, gp.get("p_join_sender", JOIN_US), gp.get("p_join_reader", JOIN_US))
        if not ok:
            chk.obligation_broken(f"cases {prop.lower()}_life", (err or "")[-800:])
        else:
            nb = 0
            for i, r in zip(sel, res):
                sc, s = sessions[i]
                d = None
                if r["refused"] is not None:
                    acts = cases[sel.index(i)][1]
                    d = f"the model refuses event #{r['refused']}: {acts[r['refused']]} after {acts[max(0, r['refused'] - 4) : r['refused']]}"
                elif r["user_calls"] != len(s.disconnects):
                    d = f"user disconnect callbacks: model {r['user_calls']} vs implementation {len(s.disconnects)}"
                elif r["disc_calls"] != sum(1 for e in s.sim.events if e["k"] == "DisconnectCb"):
                    d = f"protocol-level disconnect callbacks: model {r['disc_calls']} vs implementation"
                elif r["open"] != bool(s.port.is_open):
                    d = f"port open: model {r['open']} vs implementation {s.port.is_open}"
                elif r["connected"] != bool(s.conn.connected if s.conn and s.conn._protocol else False):
                    d = f"connected: model {r['connected']} vs implementation"
                if d is None:
                    validated += 1
                else:
                    nb += 1
                    if nb <= 4:
                        chk.obligation_broken(f"correspondence life-cycle replay (scenario seed {sc['seed']})", d[:600])
            if nb > 4:
                chk.obligation_broken("correspondence life-cycle replay", f"{nb} sessions disagree in total")
        # the same sessions through the connection machine (queue, wire)
        if kind == "fault":
            sel2 = sel[: (40 if chk.tier == "quick" else 300)]
            cases2 = []
            for i in sel2:
                sc, s = sessions[i]
                acts, notes = CT.project(s.sim.events)
                cases2.append((sc["log_size"] if sc["log_size"] <= 1000 else 10000, acts))
            ok, res, err = CT.replay_cases(prop.lower() + "_conn", cases2, CS.code_spacing(), CS.code_keepalive())
            if not ok:
                chk.obligation_broken(f"cases {prop.lower()}_conn", (err or "")[-800:])
            else:
                nb = 0
                for i, r in zip(sel2, res):
                    sc, s = sessions[i]
                    d = CS.compare_with_model(s, r)
                    if d is None:
                        validated += 1
                    else:
                        nb += 1
                        if nb <= 3:
                            acts = cases2[sel2.index(i)][1]
                            det = f"the model refuses event #{d[1]}: {acts[d[1]][:120]} after {[a[:40] for a in acts[max(0, d[1] - 3) : d[1]]]}" if d[0] == "refused" else f"{d[0]}: model {d[1]!r} vs implementation {d[2]!r}"
                            chk.obligation_broken(f"correspondence connection-machine replay (scenario seed {sc['seed']})", det[:600])
    chk.cov["traces_validated_against_impl"] = validated
    chk.cov["rule"] = rule_text
    chk.cov["input_distribution"] = dist
    if sessions:
        sc, s = sessions[len(corpus) if len(sessions) > len(corpus) else 0]
        chk.sample({"scenario": {k: (v if k != "progs" else [p[:3] for p in v]) for k, v in sc.items()}, "close_calls": s.close_calls[:3], "disconnect_callbacks": s.disconnects})
    return chk.finish(
        trusted=[
            "correspondence: the real threads under the deterministic harness; traces projected onto Model/Life.v (and Model/Conn.v) and replayed; disconnect-callback count, port state and connected flag compared",
            "harness primitives (simulated queue, Event, Lock, Thread.join incl. 'cannot join current thread', port with cancel_read/EOF/IO error) stand in for the runtime; OS thread teardown is not modelled",
        ],
        assumptions=list(assumptions),
    )


def replay_life(path, monitor):
    d = json.load(open(path))
    sc = d["replay"].get("scenario")
    if not sc:
        print(json.dumps(d, indent=1)[:2000])
        return 0
    s = LS.run_life_scenario(sc)
    print("close calls:", s.close_calls)
    print("disconnect callbacks at:", s.disconnects, " threads:", [(t.name, t.state) for t in s.sim.threads])
    print("monitor:", monitor(s, sc) or "ok")
    return 0
