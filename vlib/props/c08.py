"""C08 -- consecutive transmissions are at least 100 ms apart."""
from .. import connscen as CS
from .conn_common import replay_scenario, run_conn_check

MON = [("spacing", CS.mon_c08)]


def write_fault_sessions(chk):
    """one write fails (after its first bytes went out) while further commands are queued: whatever the library does
    about it, the next transmission it starts is still at least 100 ms later.  Only the spacing is judged here."""
    import random

    from .. import conntrace as CT

    rng = random.Random(chk.seed + 808)
    for k in range(12 if chk.tier == "quick" else 200):
        case = {"seed": rng.randrange(1 << 30), "switch_prob": rng.choice([0.05, 0.3, 0.6]), "fail_at": rng.randrange(2, 9), "n_cmds": rng.randrange(3, 12), "latency_us": rng.choice([0, 20000, 150000])}
        s = CT.Session(case["seed"], respond=CS.make_responder(random.Random(case["seed"]), "answer"), latency_us=case["latency_us"], switch_prob=case["switch_prob"])

        def body(s, case=case):
            c = s.connect()
            s.port.write_fail_once_at = case["fail_at"]
            for i in range(case["n_cmds"]):
                c.put("MAIN", "VOL", f"-{20 + i}.0")
            s.sleep(0.1 * case["n_cmds"] + 2.0)
            c.close()

        s.run(body)
        chk.count_case({"write_fault": case}, True)
        if s.sim.failure is not None:
            continue  # not the spacing's matter
        starts = [(e["t"], bytes(e["data"])) for e in s.sim.events if e["k"] == "Write" or (e["k"] == "WriteErr" and str(e.get("why", "")).startswith("io"))]
        for a, b in zip(starts, starts[1:]):
            if b[0] - a[0] < CS.SPACING:
                chk.violation("C08:spacing-after-failed-write", f"transmissions {a[1]!r} at {a[0]} us and {b[1]!r} at {b[0]} us are only {b[0] - a[0]} us apart (one of the writes failed part-way)", {"write_fault_case": case})
                break


def run(chk):
    write_fault_sessions(chk)
    return run_conn_check(
        chk, "C08", "Properties/C08.v", MON, dict(allow_delay=True, long_idle=True), 300, 6000,
        "sessions of 1-4 concurrent caller threads issuing bursts of put/get/raw with sleeps around the spacing and idle periods across keep-alive expiry, "
        "against answering / silent / flooding devices at latencies 0-250 ms, PRNG schedules with random preemption and injected stalls; the real threads run under the "
        "deterministic harness. distinct by scenario; non-trivial = at least 2 user commands and a caller/sender interleaving while the queue is non-empty.",
        assumptions=["time is the harness's virtual clock: sleep(d) lasts exactly d; that the real time.sleep never returns early is a runtime fact outside the model"],
    )


def replay(path):
    return replay_scenario(path, MON)
