"""C08 -- consecutive transmissions are at least 100 ms apart."""
from .. import connscen as CS
from .conn_common import replay_scenario, run_conn_check

MON = [("spacing", CS.mon_c08)]


def run(chk):
    return run_conn_check(
        chk, "C08", "Properties/C08.v", MON, dict(allow_delay=True, long_idle=True), 300, 6000,
        "sessions of 1-4 concurrent caller threads issuing bursts of put/get/raw with sleeps around the spacing and idle periods across keep-alive expiry, "
        "against answering / silent / flooding devices at latencies 0-250 ms, PRNG schedules with random preemption and injected stalls; the real threads run under the "
        "deterministic harness. distinct by scenario; non-trivial = at least 2 user commands and a caller/sender interleaving while the queue is non-empty.",
        assumptions=["time is the harness's virtual clock: sleep(d) lasts exactly d; that the real time.sleep never returns early is a runtime fact outside the model"],
    )


def replay(path):
    return replay_scenario(path, MON)
