"""C07 -- initialize() exposes exactly the subunits the device has, fully populated."""
from __future__ import annotations

import json
import random

from .. import apiscen as AS
from .. import dsim
from .. import coqio
from ..common import Check, ct, run_cases_sharded
from ..conntrace import coq_msg
from ..subharness import canon_value, class_info
from ..subharness import typed_decoding as _typed
from ..translate import split_sfv

PROP_FILE = "Properties/C07.v"


def run_case(case, infos, devs):
    rng = random.Random(case["seed"])
    if case["device"] in devs:
        rx = AS.recorded_receiver(devs[case["device"]], infos)
        present = None
    else:
        rx, present = AS.synthetic_receiver(rng, infos)
    lat = case["latency_us"]
    latency = (lambda line, idx: max(0, lat + rng.randrange(-(lat // 2), lat // 2 + 1))) if case["jitter"] and lat > 3 else lat
    s = AS.ApiSession(case["seed"], rx, latency_us=latency, switch_prob=case["switch_prob"])
    s.present = present
    # a receiver in low-power mode uses the first line(s) it gets only to wake up and never answers them (this is what
    # the connection's double start-up probe exists for): drawn from a generator of its own
    zr = random.Random(case["seed"] ^ 0x51EE9)
    sleepy = zr.choice([1, 1, 2]) if zr.random() < 0.3 else 0
    case["sleepy_first_lines"] = sleepy
    if sleepy:
        base_respond = s.dev.respond

        def respond(line, idx):
            if idx < sleepy:
                return []
            return base_respond(line, idx)

        s.dev.respond = respond

    def body(s):
        api = s.make_api()
        if case["unsolicited"] and rx.table is None:
            # updates for functions the device has, arriving during start-up
            for k in range(rng.randrange(1, 10)):
                cid = rng.choice(list(rx.store))
                fs = [f for f in rx.store[cid] if f not in ("AVAIL", "VERSION")]
                if not fs:
                    continue
                fn = rng.choice(fs)
                cls = [x for x in infos if x[1] == cid]
                if not cls:
                    continue
                ff = [f for a, f in cls[0][2] if f.name == fn]
                if not ff:
                    continue
                v = AS.valid_value(rng, ff[0])
                s.dev.emit_at(rng.randrange(0, 12_000_000), f"@{cid}:{fn}={v}\r\n".encode("utf-8"))
        wrng = random.Random(case["seed"] ^ 0x3717E5)
        if wrng.random() < 0.3:
            # earlier in this process the application wrote values through ANOTHER object of each class (an earlier
            # session, another receiver): one valid value per writable function, decoded from a valid text of the
            # function, on a capturing connection.  What was written there plays no part in what this start-up reads.
            case["earlier_writes_in_process"] = True
            from ynca.function import Cmd as _Cmd

            from ..subharness import make_connection, typed_decoding

            for cls_, cid_, funcs_ in infos:
                try:
                    other = cls_(make_connection())
                except Exception:  # noqa
                    continue
                for attr_, f_ in funcs_:
                    if _Cmd.PUT not in f_.cmd:
                        continue
                    for _rep in range(2):
                        try:
                            setattr(other, attr_, typed_decoding(f_.converter, AS.valid_value(wrng, f_)))
                        except Exception:  # noqa: C05's matter
                            pass
        if case.get("check_first"):
            # the application first asks the same object whether this is a YNCA device at all
            try:
                api.connection_check()
            except dsim.SimAbort:
                raise
            except BaseException as e:  # noqa
                s.extra["connection_check"] = f"{type(e).__name__}: {e}"
            s.sleep(0.2)
        s.call(api.initialize)
        s.acc = AS.accessor_ids(api)
        s.values = {}
        for cid, o in s.acc.items():
            if o is not None:
                s.values[cid] = {n: canon_value(h.value) for n, h in o.function_handlers.items()}
        s.types = {cid: (type(o).__name__, f"{o.id}") for cid, o in s.acc.items() if o is not None}
        api.close()

    s.run(body)
    return s, rx


def run_dual(case, infos):
    """two YncaApi objects on two different devices initialising at the same time: each must expose its own device"""
    rng = random.Random(case["seed"])
    rx0, present0 = AS.synthetic_receiver(rng, infos)
    rx1, present1 = AS.synthetic_receiver(rng, infos)
    s = AS.ApiSession(case["seed"], rx0, latency_us=case["latency_us"], switch_prob=case["switch_prob"], more_receivers=[rx1])
    s.dual = {}

    def one(idx):
        api = s.make_api(idx)
        rec = {"exc": None}
        try:
            api.initialize()
        except AS.dsim.SimAbort:
            raise
        except BaseException as e:  # noqa
            rec["exc"] = f"{type(e).__name__}: {e}"
        acc = AS.accessor_ids(api)
        rec["exposed"] = sorted(cid for cid, o in acc.items() if o is not None)
        rec["values"] = {cid: {n: canon_value(h.value) for n, h in o.function_handlers.items()} for cid, o in acc.items() if o is not None}
        s.dual[idx] = rec
        api.close()

    def body(s):
        t = s.sim.spawn(lambda: (s.sleep(case["offset_us"] / 1e6), one(1)), "caller1")
        one(0)
        t.join()

    s.run(body)
    return s, [(rx0, present0), (rx1, present1)]


def monitor_dual(s, case, infos, rxs):
    if s.sim.failure is not None:
        return f"two concurrent initialize() calls never came to rest: {s.sim.failure}"
    for idx, (rx, present) in enumerate(rxs):
        rec = s.dual.get(idx)
        if rec is None:
            return f"api {idx}: initialize() did not finish ({s.extra.get('body_exc')})"
        if rec["exc"]:
            return f"api {idx}: initialize() raised {rec['exc']} on a device that answers every query within the time-outs"
        want = sorted(set(present) | {"SYS"})
        if rec["exposed"] != want:
            miss = sorted(set(want) - set(rec["exposed"]))
            extra = sorted(set(rec["exposed"]) - set(want))
            return f"accessor sets differ with two receivers initialising concurrently: api {idx} misses {miss} and wrongly exposes {extra} (its device has {want})"
        for cls, cid, funcs in infos:
            if cid not in rec["values"]:
                continue
            for attr, f in funcs:
                if f.name in rx.store.get(cid, {}) and not f.no_initialize:
                    try:
                        exp = canon_value(_typed(f.converter, rx.store[cid][f.name]))
                    except Exception:  # noqa
                        continue
                    got = rec["values"][cid].get(f.name)
                    if got != exp:
                        return f"api {idx}: {cid.lower()}.{attr} reads {got!r} after initialize() although its device holds {rx.store[cid][f.name]!r}"
    return None


def monitor(s, case, infos):
    if s.sim.failure is not None:
        return f"initialize() never came to rest: {s.sim.failure}"
    if s.exc is not None:
        return f"initialize() raised {type(s.exc).__name__}: {s.exc} on a device that answers every query within the time-outs"
    ev = s.sim.events[: s.i_end]
    known = {cid for _, cid, _ in infos}
    # the device answered the AVAIL query of id with a value <=> a line @id:AVAIL=v was emitted in reply to that query
    answered = set()
    writes = {e["idx"]: bytes(e["data"])[:-2].decode("utf-8", "replace") for e in ev if e["k"] == "Write"}
    for e in ev:
        if e["k"] == "DevEmit" and e.get("cause") is not None:
            req = writes.get(e["cause"], "")
            t = split_sfv(req)
            if t and t[1] == "AVAIL" and t[2] == "?":
                for ln in bytes(e["data"]).split(b"\r\n"):
                    r = split_sfv(ln.decode("utf-8", "replace"))
                    if r and r[1] == "AVAIL" and r[0] == t[0]:
                        answered.add(t[0])
    for cid in sorted(known):
        has = s.acc.get(cid) is not None
        want = cid == "SYS" or cid in answered
        if has != want:
            return f"accessor {cid.lower()} is {'set' if has else 'None'} although the device {'answered' if cid in answered else 'did not answer'} its AVAIL query with a value"
        if has and s.types[cid][1] != cid:
            return f"accessor {cid.lower()} holds an object for subunit {s.types[cid][1]}"
    # populated: last value delivered for (id, f) before initialize returned, for values given in answer to a GET
    last = {}
    constructed_after = {}
    for i, e in enumerate(ev):
        if e["k"] == "Line":
            t = split_sfv(e["text"])
            if t:
                last[(t[0], t[1])] = (i, t[2])
    # instance creation index: the SetAdd of its message callback
    for i, e in enumerate(ev):
        if e["k"] == "SetAdd" and e.get("set") == "message" and isinstance(e.get("item"), str) and e["item"].endswith("._protocol_message_received"):
            constructed_after[e["item"].split(".")[0]] = i
    for cls, cid, funcs in infos:
        if s.acc.get(cid) is None:
            continue
        born = constructed_after.get(cls.__name__, 0)
        for attr, f in funcs:
            key = (cid, f.name)
            if key in last and last[key][0] > born:
                try:
                    exp = canon_value(_typed(f.converter, last[key][1]))
                except Exception:  # noqa
                    continue
                got = s.values[cid].get(f.name)
                if got != exp:
                    return f"{cid.lower()}.{attr} reads {got!r} after initialize() although the last value the device gave for {cid}:{f.name} was {last[key][1]!r}"
    return None


def run(chk: Check):
    rng = random.Random(chk.seed + 7)
    chk.build(PROP_FILE)
    infos, enums = class_info()
    devs = AS.recorded_devices()
    cases = []
    for name in sorted(devs):
        for k in range(1 if chk.tier == "quick" else 40):
            cases.append({"device": name, "latency_us": rng.choice([20000, 60000, 150000]), "jitter": k > 0, "unsolicited": False, "seed": rng.randrange(1 << 30), "switch_prob": rng.choice([0.05, 0.3])})
    for k in range(60 if chk.tier == "quick" else 2500):
        cases.append({"device": f"synthetic{k}", "latency_us": rng.choice([0, 20000, 99000, 150000, 400000]), "jitter": rng.random() < 0.5, "unsolicited": rng.random() < 0.5, "seed": rng.randrange(1 << 30), "switch_prob": rng.choice([0.05, 0.3, 0.6]), "check_first": k % 4 == 0})
    sessions = []
    dist = {"sessions": 0, "recorded": 0, "synthetic": 0, "subunits_exposed": 0, "wire_lines": 0}
    for c in cases:
        s, rx = run_case(c, infos, devs)
        sessions.append((c, s))
        dist["sessions"] += 1
        dist["recorded" if c["device"] in devs else "synthetic"] += 1
        dist["subunits_exposed"] += sum(1 for v in getattr(s, "acc", {}).values() if v is not None)
        dist["wire_lines"] += len(s.port.writes) if s.port else 0
        chk.count_case({"case": c}, True)
        why = monitor(s, c, infos)
        if why:
            key = "accessor" if why.startswith("accessor") else ("stale-value" if "reads" in why else why.split(" ")[0])
            chk.violation(f"C07:{key}", why, {"case": c})

    dist["dual_sessions"] = 0
    for k in range(6 if chk.tier == "quick" else 120):
        c = {"dual": True, "latency_us": rng.choice([0, 20000, 60000, 150000]), "offset_us": rng.choice([0, 1000, 50000, 300000, 1500000]), "seed": rng.randrange(1 << 30), "switch_prob": rng.choice([0.05, 0.3, 0.6])}
        s, rxs = run_dual(c, infos)
        dist["dual_sessions"] += 1
        chk.count_case({"case": c}, True)
        why = monitor_dual(s, c, infos, rxs)
        if why:
            key = "dual-accessor" if why.startswith("accessor") else ("dual-" + why.split(" ")[0])
            chk.violation(f"C07:{key}", why, {"case": c})

    validated = 0
    if not any(b["obligation"].startswith(("translator", "compile")) for b in chk.broken):
        sel = [(c, s) for c, s in sessions if s.sim.failure is None and s.exc is None][: (40 if chk.tier == "quick" else 400)]

        def detect_msgs(s):
            """messages delivered while the API's detection callback was registered"""
            ev = s.sim.events
            a = next((i for i, e in enumerate(ev) if e["k"] == "SetAdd" and e.get("item") == "YncaApi._protocol_message_received"), None)
            b = next((i for i, e in enumerate(ev) if e["k"] == "SetDiscard" and e.get("item") == "YncaApi._protocol_message_received"), len(ev))
            if a is None:
                return []
            return [(e["status"], e["sfv"]) for e in ev[a:b] if e["k"] == "Deliver"]

        def mk(part):
            lines = [coqio.CASES_HEADER, "From Ynca Require Import Model.Line Model.Api Gen.Enums Gen.Functions.\n"]
            items = ["[" + "; ".join(coq_msg(st, sfv) for st, sfv in detect_msgs(s)) + "]" for c, s in part]
            lines.append("Definition cases : list (list msg) :=\n [" + ";\n  ".join(items) + "].\n")
            lines.append("Definition run1 (h : list msg) : list N := (flat_map (fun z => z ++ [END]) (exposed all_subunits h) ++ [END2])%list.\n")
            lines.append("Eval vm_compute in flat_map run1 cases.\n")
            return "\n".join(lines)

        ok, outs, err = run_cases_sharded("c07", mk, sel, shard=20)
        if not ok:
            chk.obligation_broken("cases c07", (err or "")[-800:])
        else:
            res = [c for o in outs for c in coqio.parse_flat2(o)]
            nb = 0
            for (c, s), items in zip(sel, res):
                model = sorted(coqio.txt(t) for t in items)
                impl = sorted(cid for cid, o in s.acc.items() if o is not None)
                if model == impl:
                    validated += 1
                else:
                    nb += 1
                    if nb <= 4:
                        chk.obligation_broken(f"correspondence exposed ({c['device']})", f"model {model!r} vs implementation {impl!r}"[:600])
    chk.cov["traces_validated_against_impl"] = validated
    chk.cov["rule"] = (
        "6/120 sessions with TWO YncaApi objects on two different synthetic devices initialising concurrently (each must expose its own device); the 12 recorded receivers turned into responders by an independent reader (request -> recorded reply lines) and synthetic devices (random subset of the 22 optional subunits, random subset "
        "of functions with valid values, group answers, unsolicited updates during start-up, latency 0-400 ms with jitter); the real YncaApi.initialize() under the deterministic harness. "
        "Every case is distinct and non-trivial (a complete start-up dialogue of 60-250 wire lines)."
    )
    chk.cov["input_distribution"] = dist
    c, s = sessions[0]
    chk.sample({"case": c, "exposed": sorted(cid for cid, o in getattr(s, "acc", {}).items() if o is not None), "virtual_duration_us": (s.t_end or 0) - (s.t_start or 0)})
    return chk.finish(
        trusted=["correspondence: accessor sets of real initialize() runs vs Model/Api.exposed folded over the messages delivered during detection; values vs an independent last-value reference (model: C03)",
                 "device predicates (fifo replies, AVAIL lines only in answer to the AVAIL query, version discipline) are hypotheses validated only against the 12 recordings"],
        assumptions=["latencies below the time-outs; the device answers every query (value or error)"],
    )


def replay(path):
    d = json.load(open(path))
    c = d["replay"]["case"]
    infos, _ = class_info()
    if c.get("dual"):
        s, rxs = run_dual(c, infos)
        print("case:", c)
        for idx, rec in sorted(s.dual.items()):
            print(f"api {idx}: exposed {rec['exposed']} exception {rec['exc']}; its device has {sorted(set(rxs[idx][1]) | {'SYS'})}")
        print("monitor:", monitor_dual(s, c, infos, rxs) or "ok")
        return 0
    s, rx = run_case(c, infos, AS.recorded_devices())
    print("case:", c, "exception:", repr(s.exc))
    print("exposed:", sorted(cid for cid, o in getattr(s, "acc", {}).items() if o is not None))
    print("monitor:", monitor(s, c, infos) or "ok")
    return 0
