"""C06 -- subunit initialisation asks each query once, returns only after the sync reply."""
from __future__ import annotations

import json
import random

from .. import apiscen as AS
from .. import coqio
from ..common import Check, ct, run_cases_sharded
from ..subharness import canon_value, class_info
from ..translate import split_sfv

PROP_FILE = "Properties/C06.v"


def gen_case(rng, infos, ci):
    cls, cid, funcs = infos[ci]
    return {
        "class": ci,
        "answers": rng.choice(["all", "subset", "none"]),
        "version": rng.choice(["yes", "yes", "yes", "never", "late"]),
        "latency_us": rng.choice([0, 20000, 99000, 150000, 400000]),
        "late_us": rng.choice([500000, 1500000, 3000000, 20000000]),
        "flood": rng.random() < 0.3,
        "stray_version_before": rng.random() < 0.15,
        "seed": rng.randrange(1 << 30),
        "switch_prob": rng.choice([0.05, 0.3, 0.6]),
        "update_cb": True,
        # functions removed from THIS instance before initialising (`del subunit.<function>`), and whether an
        # instance of the same class has been initialised before in the process (complete, or with removals)
        "deleted": sorted(rng.sample(range(len(funcs)), rng.randrange(1, min(4, len(funcs)) + 1))) if rng.random() < 0.3 else [],
        "predecessor": rng.choice([None, None, "complete", "with-removals"]),
        # the device swallows the first k commands it receives after connecting (a receiver waking up)
        "swallow": rng.choice([0, 0, 0, 1, 2]) if cid != "SYS" else rng.choice([0, 1, 2, 2]),
    }


def run_case(case, infos):
    cls, cid, funcs = infos[case["class"]]
    rng = random.Random(case["seed"])
    store = {cid: {}, "SYS": {}}
    groups = {}
    for attr, f in funcs:
        if case["answers"] == "none":
            break
        if case["answers"] == "subset" and rng.random() < 0.5:
            continue
        store[cid][f.name] = AS.valid_value(rng, f)
        if f.initializer:
            groups.setdefault((cid, f.initializer), []).append(f.name)
    if case["version"] != "never":
        store["SYS"]["VERSION"] = "2.07/1.93"
    rx = AS.VirtualReceiver(store, groups)
    if case.get("swallow"):
        inner = rx.respond
        left = [case["swallow"]]

        def respond(line, idx):
            if left[0] > 0:
                left[0] -= 1
                return []
            return inner(line, idx)

        rx.respond = respond
    lat = case["latency_us"]

    started = {"v": False}

    def latency(line, idx):
        # only the synchronisation reply of the initialisation under test is late (a late reply to an EARLIER
        # query arriving during this call cannot be told apart by the protocol: outside the statement's device)
        if case["version"] == "late" and line == "@SYS:VERSION=?" and started["v"]:
            return lat + case["late_us"]
        return lat

    s = AS.ApiSession(case["seed"], rx, latency_us=latency, switch_prob=case["switch_prob"])
    s.notes = []

    def body(s):
        from ynca.connection import YncaConnection

        c = YncaConnection("sim://")
        c.connect()
        s.conn = c
        s.sleep(0.5)  # let the two start-up probes pass
        if case.get("predecessor"):
            # another instance of the same class went through initialisation earlier in this process
            pre = cls(c)
            if case["predecessor"] == "with-removals":
                for attr, f in funcs[:2]:
                    try:
                        delattr(pre, attr)
                    except Exception:  # noqa
                        pass
            try:
                pre.initialize()
            except Exception:  # noqa
                pass
            pre.close()
            s.sleep(0.3)
        started["v"] = True
        inst = cls(c)
        for k in case.get("deleted", []):
            try:
                delattr(inst, funcs[k][0])
            except Exception:  # noqa
                pass
        s.inst = inst
        inst.register_update_callback(lambda f, v: s.notes.append((len(s.sim.events), f, canon_value(v))))
        if case["stray_version_before"]:
            # an unsolicited VERSION line before initialize() starts must not satisfy the barrier
            s.dev.emit_at(s.sim.now, b"@SYS:VERSION=stray\r\n")
            s.sleep(0.05)
        if case["flood"]:
            t = s.sim.now
            for k in range(rng.randrange(1, 8)):
                attr, f = rng.choice([x for x in funcs if x[1].name != "VERSION"])
                s.dev.emit_at(t + rng.randrange(0, 3_000_000), f"@{cid}:{f.name}={AS.valid_value(rng, f)}\r\n".encode("utf-8"))
        # the reader (or the OS) stalls in the middle of a reply line for a while; everything the device sends meanwhile
        # reaches the port as one burst afterwards (several hundred bytes for the larger subunits)
        hrng = random.Random(case["seed"] ^ 0xB0257)
        n_plan = len(expected_plan([x for k, x in enumerate(funcs) if k not in set(case.get("deleted", []))])) + 1
        if hrng.random() < 0.25 and case["version"] == "yes":
            case["burst_after_stall"] = {"after_bytes": hrng.randrange(3, 120), "for_us": hrng.choice([300_000, 1_000_000] + ([2_500_000] if n_plan >= 8 else []))}
            s.dev.hold = {"after_bytes": s.dev.n_bytes + case["burst_after_stall"]["after_bytes"], "for_us": case["burst_after_stall"]["for_us"]}
        # unsolicited reports that keep coming at a steady pace for longer than any time-out (someone turning the
        # volume knob, a track playing): drawn from a generator of its own
        trng = random.Random(case["seed"] ^ 0x7AFF1C)
        if trng.random() < 0.3 and not case.get("no_traffic"):
            period = trng.choice([300_000, 900_000, 1_900_000])
            case["steady_traffic_period_us"] = period
            t = s.sim.now + trng.randrange(0, period)
            others = [x for x in funcs if x[1].name != "VERSION"]
            while t < s.sim.now + 45_000_000 and others:
                attr, f = trng.choice(others)
                s.dev.emit_at(t, f"@{cid}:{f.name}={AS.valid_value(trng, f)}\r\n".encode("utf-8"))
                t += period
        s.call(inst.initialize)
        s.cache_at_return = [(n, canon_value(h.value)) for n, h in inst.function_handlers.items()]
        s.sleep(1.0)
        c.close()

    s.run(body)
    return s, rx


def expected_plan(funcs):
    """independent reading of the statement: distinct initial queries in handler order, excluded functions skipped"""
    plan = []
    for attr, f in funcs:
        if f.no_initialize:
            continue
        q = f.initializer if f.initializer is not None else f.name
        if q not in plan:
            plan.append(q)
    return plan


def monitor(s, case, infos, rx):
    import ynca

    cls, cid, funcs = infos[case["class"]]
    if s.sim.failure is not None:
        return f"initialize() never came to rest: {s.sim.failure}"
    ev = s.sim.events
    writes = [(i, bytes(e["data"])[:-2].decode("utf-8", "replace")) for i, e in enumerate(ev) if e["k"] == "Write" and s.i_start <= i]
    enq = [e["item"] for e in ev[s.i_start : s.i_end] if e["k"] == "Enq" and e.get("marker") is None]
    plan = expected_plan([x for k, x in enumerate(funcs) if k not in set(case.get("deleted", []))])
    want = [f"@{cid}:{q}=?" for q in plan] + ["@SYS:VERSION=?"]
    # the statement fixes WHICH queries are sent, each once, and that the synchronisation query is last -- not the order of the others
    if not (sorted(enq[:-1]) == sorted(want[:-1]) and enq[-1:] == want[-1:]):
        extra = [x for x in enq if enq.count(x) > 1]
        if extra:
            return f"initialize() of {cls.__name__} queried {extra[0]!r} {enq.count(extra[0])} times"
        if enq and enq[-1] != "@SYS:VERSION=?":
            return f"the synchronisation query is not last: submissions end with {enq[-3:]!r}"
        return f"initialize() of {cls.__name__} submitted {enq!r}, expected {want!r}"
    n = len(want)
    from ..common import gen_params

    gp = gen_params()
    timeout_us = gp.get("p_init_base", 2_000_000) + gp.get("p_init_per_cmd", 500_000) * n
    # which VERSION line is the reply to THIS query?
    ver_write = [i for i, w in writes if w == "@SYS:VERSION=?"]
    reply_line_idx = None
    if ver_write:
        widx = ev[ver_write[0]]["idx"]
        emit = [i for i, e in enumerate(ev) if e["k"] == "DevEmit" and e.get("cause") == widx]
        if emit:
            # the Line event for that emission: first VERSION line after it
            for i in range(emit[0], len(ev)):
                if ev[i]["k"] == "Line" and ev[i]["text"].startswith("@SYS:VERSION="):
                    reply_line_idx = i
                    break
    if s.exc is None:
        if reply_line_idx is None or reply_line_idx > s.i_end:
            return f"initialize() of {cls.__name__} returned before the reply to its own synchronisation query was received"
        # every value delivered before the sync reply is readable at return
        # "every value the device sent before it": read from the bytes the device emitted (not from what the library
        # made of them), up to and including the emission that carried the synchronisation reply
        last = {}
        emit_idx = emit[0] if (ver_write and emit) else reply_line_idx
        sent = b"".join(bytes(ev[i]["data"]) for i in range(s.i_start, emit_idx + 1) if ev[i]["k"] == "DevEmit")
        for ln in sent.split(b"\r\n"):
            if ln.startswith(b"@SYS:VERSION="):
                continue
            t = split_sfv(ln.decode("utf-8", "replace"))
            if t and t[0] == cid:
                last[t[1]] = t[2]
        cache = dict(s.cache_at_return)
        removed = {funcs[k][1].name for k in case.get("deleted", [])}
        for attr, f in funcs:
            if f.name in removed:
                continue  # removed from this instance: nothing to read
            if f.name in last:
                try:
                    exp = canon_value(f.converter.to_value(last[f.name]))
                except Exception:  # noqa
                    continue
                # a later update (after the barrier, before we sampled) may have replaced it
                later = [split_sfv(ev[i]["text"]) for i in range(reply_line_idx, len(ev)) if ev[i]["k"] == "Line"]
                if cache.get(f.name) != exp and not any(t and t[0] == cid and t[1] == f.name for t in later):
                    return f"{cls.__name__}.{attr} reads {cache.get(f.name)!r} after initialize() returned although the device had sent {last[f.name]!r} before the synchronisation reply"
        early = [x for x in s.notes if x[0] < s.i_end and x[0] >= 0 and x[0] < reply_line_idx]
        if early:
            return f"an update callback fired ({early[0][1]}) before initialisation had completed"
    else:
        if not isinstance(s.exc, ynca.YncaInitializationFailedException):
            return f"initialize() raised {type(s.exc).__name__}: {s.exc}"
        dur = s.t_end - s.t_start
        if case.get("steady_traffic_period_us") and reply_line_idx is None:
            # "a bound proportional to the number of queries": how long the failing call takes is settled by the queries
            # it sent, not by what else the device happens to be sending (needs no constant of the code)
            quiet = dict(case, no_traffic=True)
            quiet.pop("steady_traffic_period_us", None)
            s2, _ = run_case(quiet, infos)
            if s2.sim.failure is None and s2.exc is not None and hasattr(s2, "t_end"):
                dur2 = s2.t_end - s2.t_start
                if dur2 != dur:
                    return f"with no reply to the synchronisation query, initialize() failed after {dur} us while the device kept sending unrelated reports every {case['steady_traffic_period_us']} us, and after {dur2} us with the same {n} queries and a quiet device: the bound depends on the traffic, not on the number of queries"
        if gp.get("p_init_base", 0) <= 0 or gp.get("p_init_per_cmd", 0) <= 0:
            return None  # the translator could not read the time-out expression (reported as a broken obligation): nothing to compare with
        if reply_line_idx is not None and ev[reply_line_idx]["t"] < s.t_start + timeout_us - 1000:
            return f"initialize() raised although the synchronisation reply arrived after {ev[reply_line_idx]['t'] - s.t_start} us (time-out {timeout_us} us)"
        if dur != timeout_us:
            return f"initialize() failed after {dur} us, the bound for {n} commands is {timeout_us} us"
        if any(x[0] < s.i_end for x in s.notes):
            return "an update callback fired although initialisation failed"
    return None


def run(chk: Check):
    rng = random.Random(chk.seed + 6)
    chk.build(PROP_FILE)
    infos, enums = class_info()
    per = 12 if chk.tier == "quick" else 300
    sessions = []
    dist = {"sessions": 0, "returned": 0, "failed": 0}
    for ci in range(len(infos)):
        for _ in range(per):
            case = gen_case(rng, infos, ci)
            s, rx = run_case(case, infos)
            sessions.append((case, s))
            dist["sessions"] += 1
            dist["returned" if s.exc is None else "failed"] += 1
            chk.count_case({"case": case}, True)
            why = monitor(s, case, infos, rx)
            if why:
                key = "duplicate-query" if "times" in why else ("sync-not-last" if "not last" in why else ("early-return" if "returned before" in why else ("callback-before-init" if "callback" in why else why.split(" ")[0])))
                chk.violation(f"C06:{key}", why, {"case": case})

    validated = 0
    if not any(b["obligation"].startswith(("translator", "compile")) for b in chk.broken):
        firsts = {}
        for case, s in sessions:
            if not case.get("deleted") and case["class"] not in firsts and s.sim.failure is None and hasattr(s, "i_end"):
                firsts[case["class"]] = (case, s)
        items = [(cid, [e["item"] for e in s.sim.events[s.i_start : s.i_end] if e["k"] == "Enq" and e.get("marker") is None]) for (case, s), (cls, cid, funcs) in ((x, infos[x[0]["class"]]) for x in firsts.values())]
        lines = [coqio.CASES_HEADER, "From Ynca Require Import Model.Line Model.Api Gen.Enums Gen.Functions Gen.Params.\n"]
        lines.append("Definition ids : list text := [" + "; ".join(ct(cid) for cid, _ in items) + "].\n")
        lines.append(
            "Definition run1 (id : text) : list N :=\n  match find_class all_subunits id with\n  | None => [9; END; END2]\n"
            "  | Some sc => (flat_map (fun t => t ++ [END]) (init_submissions sc) ++ [Z.to_N (init_timeout p_init_base p_init_per_cmd sc); END; END2])%list\n  end.\n"
        )
        lines.append("Eval vm_compute in flat_map run1 ids.\n")
        from ..common import run_cases

        ok, out = run_cases("c06_plans", "\n".join(lines))
        if not ok:
            chk.obligation_broken("cases c06_plans", out[-800:])
        else:
            res = coqio.parse_flat2(out)
            for (cid, enq), its in zip(items, res):
                model = [coqio.txt(t) for t in its[:-1]]
                tmo = its[-1][0]
                from ..common import gen_params

                gp = gen_params()
                if sorted(model[:-1]) == sorted(enq[:-1]) and model[-1:] == enq[-1:] and tmo == gp.get("p_init_base", 2_000_000) + gp.get("p_init_per_cmd", 500_000) * len(enq):
                    validated += 1
                else:
                    chk.obligation_broken(f"correspondence init_submissions {cid}", f"model {model!r} (time-out {tmo}) vs implementation {enq!r}"[:600])
    chk.cov["traces_validated_against_impl"] = validated
    chk.cov["rule"] = (
        f"all {len(infos)} subunit classes x {per} devices {{all / a subset / none of the functions answered; synchronisation reply prompt, late by 0.5-20 s, or never; reply latency 0-400 ms; "
        "unsolicited updates flooding in; a stray SYS:VERSION line before the call}} x PRNG schedules; the real SubunitBase.initialize on a real connection under the deterministic harness. "
        "Every case is distinct and non-trivial (a complete initialisation dialogue)."
    )
    chk.cov["input_distribution"] = dist
    case, s = sessions[0]
    chk.sample({"case": case, "submitted": [e["item"] for e in s.sim.events[s.i_start : s.i_end] if e["k"] == "Enq" and e.get("marker") is None][:6], "exception": repr(s.exc)})
    return chk.finish(
        trusted=["correspondence: the submissions of the real initialize() of every class are compared with Model/Api.init_submissions evaluated on the regenerated tables; the monitor judges barrier, time-out and callback gating on the event trace",
                 "threading.Event semantics (wait returns True only after set) are the harness's simulated Event"],
        assumptions=["version_discipline: the device sends SYS:VERSION lines only as the single reply to a VERSION query (a stray one before the call is cleared by initialize())"],
    )


def replay(path):
    d = json.load(open(path))
    case = d["replay"]["case"]
    infos, _ = class_info()
    s, rx = run_case(case, infos)
    print("case:", case, "class:", infos[case["class"]][0].__name__)
    print("exception:", repr(s.exc), "virtual duration:", (s.t_end or 0) - (s.t_start or 0))
    print("monitor:", monitor(s, case, infos, rx) or "ok")
    return 0
