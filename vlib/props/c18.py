"""C18 -- the test server replays what the recorded receiver said."""
from __future__ import annotations

import json
import random

from .. import coqio
from .. import srvharness as SH
from ..common import Check, ct, run_cases_parallel
from ..translate import read_recording
from ..translate_server import last_values

PROP_FILE = "Properties/C18.v"


def tables():
    import ynca.server as S

    return S.multiresponse_functions_table, S.related_functions_table


def ordinary_get(S_, F, multi):
    return F not in multi and not (S_ == "SYS" and F == "INPNAME") and F not in ("SCENENAME", "DIRMODE", "STRAIGHT")


def ordinary_put(S_, F, V, related):
    return F not in related and F not in ("PWR", "PLAYBACK", "MEM") and not (S_ == "SYS" and F == "REMOTECODE") and not (F in ("VOL", "ZONEBVOL") and (V.startswith("Up") or V.startswith("Down")))


# ------------------------------------------------------------------------------ generated recordings
def gen_recording(rng):
    subs = ["MAIN", "ZONE2", "SYS", "TUN", "NETRADIO", "A:B", "Z"]
    funs = ["VOL", "PWR", "INP", "ZONENAME", "SCENE1NAME", "INPNAMEHDMI1", "BASIC", "X=Y", "F"]
    vals = ["On", "-30.5", "Zoné ß", "a=b", "x:y", "", " ", '"q"', "tail,", 'tail"', "@foo", "@UNDEFINED", "@RESTRICTED", "Up", "1,5", "\\", "back\\slash", "tab\there", "nbsp ", " em"]
    lines = []
    said = []
    for _ in range(rng.randrange(3, 40)):
        r = rng.random()
        s, f, v = rng.choice(subs), rng.choice(funs), rng.choice(vals)
        if said and rng.random() < 0.35:
            # a function going back to a value it had before (A, B, A): the last one counts
            s, f, v = rng.choice(said)
            if rng.random() < 0.5:
                v = rng.choice(vals)
        body = None
        if r < 0.35:
            body = f"@{s}:{f}={v}"
            said.append((s, f, v))
        elif r < 0.55:
            body = f"@{s}:{f}=?"
        elif r < 0.75:
            body = rng.choice(["@UNDEFINED", "@RESTRICTED", "@RESTRICTED @UNDEFINED", "x @UNDEFINED y"])
        elif r < 0.85:
            body = rng.choice(["{", '"version": "1.2"', "", "noise without at", "communication: [", "@", "@:=", "@A:="])
        else:
            body = f"@{s}:{f}={v} @{rng.choice(subs)}:{rng.choice(funs)}=2"
        fmt = rng.random()
        pre = rng.choice(["", "Send: ", "Received: ", "12.345 Received: ", "Received: "])
        if fmt < 0.55:
            line = "    " + json.dumps(pre + body, ensure_ascii=rng.random() < 0.5) + rng.choice([",", "", ",", " ,"])
        elif fmt < 0.7:
            line = '    "' + pre + body + '"' + rng.choice([",", ""])  # not escaped: may be invalid JSON
        elif fmt < 0.85:
            line = f"2023-01-01 10:00:00 DEBUG [ynca.connection] {rng.choice('<>')} {body}"
        else:
            line = rng.choice(["", " ", "\t", " ", " "]) + body + rng.choice(["", " ", '"', ",", '",', "\t", " ", "　"])
        lines.append(line + rng.choice(["\n", "\n", "\n", "\r\n"]))
    return "".join(lines)


def ingest_cases(name, cases):
    """cases: list of (lines as read) -> model stores via vm_compute"""
    jobs, order = [], []
    for c0 in range(0, len(cases), 60):
        part = cases[c0 : c0 + 60]
        lines = [SH.SRV_HEADER]
        terms = []
        for ls in part:
            tab, _ = SH.json_oracle_table(ls)
            lst = "[" + "; ".join(ct(x) for x in ls) + "]"
            terms.append(
                f"(flat_map (fun '(s, fs) => flat_map (fun '(f, v) => (s ++ [SEP] ++ f ++ [SEP] ++ v ++ [END])%list) fs) "
                f"(ingest gen_json (fun l => match assoc l {tab} with Some r => r | None => None end) {lst}) ++ [END2])%list"
            )
        lines.append("Eval vm_compute in (" + "\n ++ ".join(terms) + ")%list.\n")
        jobs.append((f"{name}_{len(jobs)}", "\n".join(lines)))
        order.append(len(part))
    outs = run_cases_parallel(jobs)
    res, broken = [], []
    for (ok, out), n in zip(outs, order):
        if not ok:
            broken.append(out[-800:])
            res += [None] * n
            continue
        groups = coqio.parse_flat2(out)
        if len(groups) != n:
            broken.append(f"model output has {len(groups)} groups for {n} cases")
            res += [None] * n
            continue
        for g in groups:
            st = {}
            for t in g:
                a = t.index(coqio.SEP)
                b = t.index(coqio.SEP, a + 1)
                st.setdefault(coqio.txt(t[:a]), {})[coqio.txt(t[a + 1 : b])] = coqio.txt(t[b + 1 :])
            res.append(st)
    return res, broken


# ------------------------------------------------------------------------------ sessions
def gen_session(rng, store, multi, related):
    keys = [(s, f) for s, fs in store.items() for f in fs]
    subs = list(store)
    out = []
    n = rng.randrange(1, 60)
    while len(out) < n:
        r = rng.random()
        if r < 0.3:
            s, f = rng.choice(keys)
            out.append(f"@{s}:{f}=?")
        elif r < 0.4:
            s = rng.choice(subs + ["FOO", "ZONE9"])
            f = rng.choice(["NOPE", "VOL", "PWR", "ZONENAME", "SONG", "X"])
            out.append(f"@{s}:{f}=?")
        elif r < 0.7:
            s, f = rng.choice(keys)
            v = rng.choice(["On", "Off", "7", "-12.5", "Some Text", "Zoné ß", "a=b", "x:y", "", "@foo", "Up", "Downtown", store[s][f], store[s][f]])
            out += [f"@{s}:{f}={v}", f"@{s}:{f}=?"]
            if rng.random() < 0.5:
                out += [f"@{s}:{f}={v}", f"@{s}:{f}=?"]
        elif r < 0.8:
            # history dependence: a multi-value query, a PUT to one of its members, the same query again
            g = rng.choice(list(multi) + ["INPNAME", "SCENENAME"])
            cands = [(s, f) for (s, f) in keys if (f in multi.get(g, [])) or (g == "INPNAME" and s == "SYS" and f.startswith("INPNAME") and f != "INPNAME") or (g == "SCENENAME" and f.startswith("SCENE") and f.endswith("NAME") and f != "SCENENAME")]
            cands = [(s, f) for (s, f) in cands if f not in related and f not in ("PWR", "VOL", "ZONEBVOL", "STRAIGHT", "DIRMODE", "PUREDIRMODE") and not store[s][f].startswith("@")]
            if cands:
                s, f = rng.choice(cands)
                v = rng.choice(["On", "Off", "7", "New Name", "x y"])
                out += [f"@{s}:{g}=?", f"@{s}:{f}={v}", f"@{s}:{g}=?", f"@{s}:{f}=?"]
        elif r < 0.85:
            s = rng.choice(subs + ["FOO"])
            out.append(f"@{s}:{rng.choice(['BASIC', 'METAINFO', 'RDSINFO', 'INPNAME', 'SCENENAME', 'DIRMODE', 'STRAIGHT'])}=?")
        elif r < 0.95:
            s = rng.choice(["SYS", "MAIN", "ZONE2", "ZONE3", "ZONE4"])
            out.append(f"@{s}:{rng.choice(['PWR', 'STRAIGHT', 'PUREDIRMODE', 'DIRMODE', 'SOUNDPRG', 'VOL', 'PLAYBACK', 'MEM'])}={rng.choice(['On', 'Off', 'Standby', 'Up', 'Down 2 dB', 'Play', 'Hall in Vienna', '3'])}")
        else:
            out.append(f"@{rng.choice(subs)}:{rng.choice(['ZONENAME', 'VOL'])}={rng.choice(['@UNDEFINED', '@RESTRICTED'])}")
    return [x.encode("utf-8") for x in out[:n]]


def monitor(se, res, store0, multi, related):
    """the statement, judged on the real run with an independent reference map"""
    r = res["real"]
    if r["exc"] is not None:
        return None  # C19's matter
    ref = {s: dict(fs) for s, fs in store0.items()}
    unknown = set()
    for k, b in enumerate(se["lines"]):
        t = b.decode("utf-8", "replace").strip()
        replies = r["outs"][k]
        for x in replies:
            if not SH.wf_line(x):
                return ("malformed-reply", f"reply {x!r} to {t!r} is not a well-formed YNCA line")
        m = SH.WF.search(t)
        if not m:
            continue
        S_, F, V = m.group(1), m.group(2), m.group(3)
        cur = ref.get(S_, {}).get(F)
        if V == "?":
            if F in multi or (S_ == "SYS" and F == "INPNAME") or F == "SCENENAME":
                if replies == ["@UNDEFINED"]:
                    continue
                for x in replies:
                    mm = SH.WF.match(x)
                    if not mm or mm.group(1) != S_:
                        return ("group-foreign-reply", f"group query {t!r} answered {x!r}")
                    member = mm.group(2)
                    okm = member in multi.get(F, []) or (F == "INPNAME" and member.startswith("INPNAME")) or (F == "SCENENAME" and member.startswith("SCENE") and member.endswith("NAME")) or (member == "STRAIGHT" and "DIRMODE" in multi.get(F, []))
                    if not okm:
                        return ("group-foreign-member", f"group query {t!r} answered with {member}, which is not a member of the group")
                    stored = ref.get(S_, {}).get(member)
                    if (S_, member) in unknown or member == "STRAIGHT":
                        continue
                    if stored is None or stored in SH.ERRS or stored != mm.group(3):
                        return ("group-not-stored", f"group query {t!r} answered {x!r} but the stored value of {S_}:{member} is {stored!r}")
                if not replies:
                    return ("group-no-answer", f"group query {t!r} got no answer at all")
            elif ordinary_get(S_, F, multi) and (S_, F) not in unknown:
                if cur is not None and cur not in SH.ERRS:
                    if replies != [f"@{S_}:{F}={cur}"]:
                        return ("get-not-last-value", f"GET {t!r} answered {replies!r}; the last value recorded / stored for it is {cur!r}")
                elif len(replies) != 1 or replies[0] not in SH.ERRS:
                    return ("get-no-error", f"GET {t!r} of a function the server has no value for answered {replies!r} instead of one error line")
        else:
            if ordinary_put(S_, F, V, related) and cur is not None and cur not in SH.ERRS and V not in SH.ERRS and (S_, F) not in unknown:
                if V != cur:
                    if replies != [f"@{S_}:{F}={V}"]:
                        return ("put-not-reported-once", f"PUT {t!r} of a new value to an ordinary recorded function was answered {replies!r}")
                    ref[S_][F] = V
                elif replies:
                    return ("put-same-reported", f"PUT {t!r} of the current value produced the report {replies!r}")
            else:
                # coupled or unrecorded: no claim; what it may have changed is no longer known to the reference
                unknown.add((S_, F))
                if F in ("PWR", "PLAYBACK") or F in related:
                    for s2 in ref:
                        for f2 in ("PWR", "PWRB", "STRAIGHT", "SOUNDPRG", "PUREDIRMODE", "DIRMODE", "PLAYBACKINFO"):
                            unknown.add((s2, f2))
    return None


def run(chk: Check):
    rng = random.Random(chk.seed + 18)
    chk.build(PROP_FILE)
    multi, related = tables()
    recs = SH.load_recordings()
    stores = {n: SH.store_dict(st) for n, (st, p) in recs.items()}
    dist = {"recordings": len(stores), "recorded_keys": 0, "generated_recordings": 0, "sessions": 0, "lines": 0, "gets": 0, "puts": 0, "group_gets": 0}

    # (1) the 12 recordings: what the server answers vs the independent reader's last values
    sessions = []
    for name, (st, path) in recs.items():
        tab = last_values(read_recording(path))
        dist["recorded_keys"] += len(tab)
        keys = list(tab.items())
        se = {"rec": name, "kind": "recorded-keys", "lines": [f"@{s}:{f}=?".encode("utf-8") for (s, f), v in keys], "expect": keys}
        sessions.append(se)
    # (3) GET/PUT sequences
    per = 100 if chk.tier == "quick" else 1000
    for name in sorted(stores):
        for _ in range(per):
            sessions.append({"rec": name, "kind": "sequence", "lines": gen_session(rng, stores[name], multi, related)})
    results, broken = SH.run_sessions("c18", sessions, stores)
    for b in broken:
        chk.obligation_broken("cases c18", b)
    validated, nb = 0, 0
    for se, res in zip(sessions, results):
        dist["sessions"] += 1
        dist["lines"] += len(se["lines"])
        for b in se["lines"]:
            if b.endswith(b"=?"):
                dist["gets"] += 1
                if any(b.endswith(g.encode() + b"=?") for g in ("BASIC", "METAINFO", "RDSINFO", "INPNAME", "SCENENAME")):
                    dist["group_gets"] += 1
            else:
                dist["puts"] += 1
        chk.count_case({"rec": se["rec"], "kind": se["kind"], "n": len(se["lines"]), "first": se["lines"][0].hex() if se["lines"] else ""}, True)
        v = None
        se_orig = se
        if se["kind"] == "recorded-keys" and res["real"]["exc"] is None:
            for ((s, f), val), b, o in zip(se["expect"], se["lines"], res["real"]["outs"]):
                if ordinary_get(s, f, multi) and not val.startswith("@") and o != [f"@{s}:{f}={val}"]:
                    v = ("recording-not-replayed", f"loaded from the bundled recording {se['rec']}, GET {s}:{f} answers {o!r}; the last value in the recording (independent reader) is {val!r}")
                    se = dict(se, lines=[b])
                    break
        if v is None:
            v = monitor(se, res, stores[se["rec"]], multi, related)
        if v:
            chk.violation("C18:" + v[0], v[1] + f" (server loaded from {se['rec']})", {"recording": se["rec"], "lines_hex": [x.hex() for x in se["lines"]], "lines": [x.decode("utf-8", "replace") for x in se["lines"]][:40]})
        if res["model"] is not None:
            why = SH.compare_session(se_orig, res)
            if why is None:
                validated += 1
            else:
                nb += 1
                if nb <= 4:
                    chk.obligation_broken(f"correspondence handler ({se['rec']}, {se['kind']})", why[:700])

    # (2) ingestion: generated recordings, real fill_from_file vs model ingest
    n_gen = 240 if chk.tier == "quick" else 4000
    gens = []
    for _ in range(n_gen):
        text = gen_recording(rng)
        st, lines = SH.real_fill(text)
        gens.append((text, SH.store_dict(st), lines))
    dist["generated_recordings"] = n_gen
    models, broken = ingest_cases("c18_ingest", [g[2] for g in gens])
    for b in broken:
        chk.obligation_broken("cases c18_ingest", b)
    nb = 0
    for (text, real, lines), model in zip(gens, models):
        chk.count_case({"recording_text": text[:200]}, len(real) > 0)
        if model is None:
            continue
        if [(s, list(fs.items())) for s, fs in model.items()] == [(s, list(fs.items())) for s, fs in real.items()]:
            validated += 1
        else:
            nb += 1
            if nb <= 4:
                diff = [(s, f, real.get(s, {}).get(f), model.get(s, {}).get(f)) for s in set(real) | set(model) for f in set(real.get(s, {})) | set(model.get(s, {})) if real.get(s, {}).get(f) != model.get(s, {}).get(f)]
                chk.obligation_broken("correspondence fill_from_file", f"recording text {text[:300]!r}: (subunit, function, implementation, model) {diff[:3]}")
        # monitor on the generated recording: an error line never overwrites a value
    chk.cov["traces_validated_against_impl"] = validated
    chk.cov["rule"] = (
        f"(1) each of the 12 bundled recordings loaded by the real fill_from_file and asked, through the real handler, for every (subunit, function) the independent reader finds in it ({dist['recorded_keys']} keys); "
        f"(2) {n_gen} generated recordings (JSON diagnostics lines with and without escapes, log lines, bare lines, error replies after queries and after values, noise, values with quotes/commas/'@'/'='/':'/Unicode space) loaded by the real code and by the model; "
        f"(3) {per} GET/PUT sequences of 1-60 lines per recording over recorded and unrecorded subunits and functions (PUT new / PUT same / GET after PUT, group queries, coupled functions, error-marker values) run through the real "
        "YncaCommandHandler and the model, judged by an independent reference map per the statement."
    )
    chk.cov["input_distribution"] = dist
    se, res = sessions[len(stores)], results[len(stores)]
    chk.sample({"recording": se["rec"], "lines": [x.decode("utf-8", "replace") for x in se["lines"][:5]], "replies": res["real"]["outs"][:5]})
    return chk.finish(
        trusted=[
            "translator: tables from the live module, guard flags and the JSON-decoding shape of fill_from_file from the AST (vlib/translate_server.py, fail closed); the recordings as raw lines plus the independent reader's last-value table",
            "correspondence: real fill_from_file vs Model/Server.ingest on generated recordings (whole store, insertion order); real handler vs Model/Server.srv_bytes line by line",
            "oracle json.loads: universally quantified in the theorems; instantiated by the translator (bundled recordings, every quoted line evaluated) and by the harness (generated recordings)",
            "Python's text-mode line iteration and str.strip/rstrip as modelled (is_space = str.isspace)",
        ],
        assumptions=["'recorded value' = value of a recording line carrying @S:F=V, V != '?', either direction, without an error marker (DESIGN.md)"],
    )


def replay(path):
    d = json.load(open(path))
    rp = d["replay"]
    recs = SH.load_recordings()
    import copy

    import ynca.server as S

    st = S.YncaDataStore()
    st._store = copy.deepcopy(SH.store_dict(recs[rp["recording"]][0]))
    lines = [bytes.fromhex(x) for x in rp["lines_hex"]]
    r = SH.real_session(st, lines)
    for b, o in list(zip(lines, r["outs"]))[-8:]:
        print(repr(b), "->", o)
    print("exception:", r["exc"])
    return 0
