"""Entry point:  ./check Cnn [--tier quick|thorough] [--replay path]"""
from __future__ import annotations

import argparse
import importlib
import os
import sys


def main():
    ap = argparse.ArgumentParser()
    ap.add_argument("prop")
    ap.add_argument("--tier", default=os.environ.get("VERIF_TIER", "quick"))
    ap.add_argument("--replay", default=None)
    a = ap.parse_args()
    if a.tier not in ("quick", "thorough"):
        a.tier = "quick"
    try:
        seed = int(os.environ.get("VERIF_SEED", "0"))
    except ValueError:
        seed = 0
    mod = importlib.import_module("vlib.props." + a.prop.lower())
    if a.replay:
        sys.exit(mod.replay(a.replay))
    from .common import Check

    chk = Check(a.prop.upper(), a.tier, seed)
    sys.exit(mod.run(chk))


if __name__ == "__main__":
    main()
