"""Scenarios for the connection machine, projection of dsim traces onto the alphabet of
coq/Model/Conn.v, and replay of the projected traces in the model."""
from __future__ import annotations

import re

from . import coqio, dsim
from .common import cbytes, ct, run_cases_sharded

READER_TID = 100


def tid_of(name):
    if name == "main":
        return 1
    m = re.match(r"caller(\d+)", name)
    if m:
        return 1 + int(m.group(1))
    if name == "reader":
        return READER_TID
    if name == "sender":
        return 0
    return 99


def coq_item(e, th):
    if e.get("marker") is None:
        return f"(ICmd {tid_of(th)}%nat {ct(e['item'])})"
    if "KEEP_ALIVE" in e["marker"]:
        return "IKA"
    if "EXIT" in e["marker"]:
        return "IExit"
    return f"(ICmd 98%nat {ct(e['item'])})"


def coq_msg(status, sfv):
    st = {"OK": "StOK", "UNDEFINED": "StUNDEFINED", "RESTRICTED": "StRESTRICTED"}[status]
    if sfv is None:
        return f"({st}, None)"
    return f"({st}, Some ({ct(sfv[0] or '')}, {ct(sfv[1] or '')}, {ct(sfv[2] or '')}))"


LOG_RE = re.compile(r"^(?:(\S+) )?(Send|Received): (.*)$", re.S)  # the statement fixes label and exact text, not the stamp


def project(events):
    """-> (list of Coq action terms, list of notes about events that could not be mapped)"""
    acts, notes = [], []
    last_t = 0
    sender_dead = False
    was_connected = False
    for e in events:
        k, th = e["k"], e["th"]
        a = None
        if th == "sender":
            if sender_dead:
                continue
            if k == "GetWait":
                a = f"SGetWait ({e['deadline']})"
            elif k == "Deq":
                a = f"SDeq {coq_item(e, th)}"
            elif k == "DeqEmpty":
                a = "SDeqEmpty"
            elif k == "Enq":
                a = "SEnqKA" if e.get("marker") and "KEEP_ALIVE" in e["marker"] else f"Enq 0%nat {coq_item(e, th)}"
            elif k == "Set" and e["attr"] == "_keep_alive_pending":
                a = "SSetFlag" if e["val"] is True else "RClrFlag"
            elif k == "LogAdd":
                m = LOG_RE.match(e["text"])
                if not m or m.group(2) != "Send":
                    notes.append(("bad-log-entry", e["text"]))
                    a = f"SLogAdd {ct(e['text'])}"
                else:
                    a = f"SLogAdd {ct(m.group(3))}"
            elif k == "LockAcq":
                a = "SLockAcq"
            elif k == "Write":
                a = f"SWriteA {cbytes(bytes(e['data']))}"
            elif k == "WriteErr":
                a = "SWriteErr"
                sender_dead = True
            elif k == "LockRel":
                a = "SLockRel"
            elif k == "SleepStart":
                a = f"SSleepStartA ({e['d']})"
            elif k == "Wake":
                a = "SWake"
            elif k == "ThreadExit":
                a = "SExit"
            elif k == "Get" and e.get("attr") == "connected":
                # `if message is _EXIT or not self.connected`: read for every item but the marker
                a = f"SCheckConn {'true' if e['val'] else 'false'}"
                if not e["val"]:
                    sender_dead = True  # the item is dropped and the thread ends
            elif k in ("LockWait", "ThreadDied", "Get", "Stall"):
                continue
            else:
                notes.append(("unmapped-sender-event", k))
                continue
        elif th == "device":
            if k == "DevEmit":
                c = e.get("cause")
                a = f"DevEmit {cbytes(bytes(e['data']))} {'None' if c is None else '(Some %d%%nat)' % c}"
            else:
                continue
        else:
            tid = tid_of(th)
            if k == "Enq":
                a = f"Enq {tid}%nat {coq_item(e, th)}"
            elif k == "Deq":
                a = f"EDeq {coq_item(e, th)}"
            elif k == "LockAcq":
                a = f"ELock {tid}%nat"
            elif k == "LockRel":
                a = f"EUnlock {tid}%nat"
            elif k == "Write":
                a = f"SWriteA {cbytes(bytes(e['data']))}"  # a write by a non-sender thread: refused unless the model is at SWrite
                notes.append(("write-by-non-sender", th))
            elif th == "reader":
                if k == "Read":
                    a = f"RRead {cbytes(bytes(e['data']))}"
                elif k == "Line":
                    a = f"RLineStart {ct(e['text'])}"
                elif k == "LogAdd":
                    m = LOG_RE.match(e["text"])
                    if not m or m.group(2) != "Received":
                        notes.append(("bad-log-entry", e["text"]))
                        a = f"RLogAdd {ct(e['text'])}"
                    else:
                        a = f"RLogAdd {ct(m.group(3))}"
                elif k == "Get" and e["attr"] == "_keep_alive_pending":
                    a = f"RGetFlag {'true' if e['val'] else 'false'}"
                elif k == "Set" and e["attr"] == "_keep_alive_pending":
                    a = "RClrFlag" if e["val"] is False else "SSetFlag"
                elif k == "Deliver":
                    a = f"RDeliverA {coq_msg(e['status'], e['sfv'])}"
                elif k == "Set" and e.get("attr") == "connected" and e["val"] is True:
                    was_connected = True
                    continue
                elif k == "Set" and e.get("attr") == "connected" and e["val"] is False:
                    if not was_connected:
                        continue  # the initial value written by __init__ (the protocol object is built on the reader thread)
                    a = "ELost"  # connection_lost: from here on the sender drops what it dequeues and stops
                else:
                    continue
            elif k == "Set" and e.get("attr") == "_keep_alive_pending":
                a = "SSetFlag" if e["val"] is True else "RClrFlag"
                notes.append(("flag-written-by-other-thread", th))
            else:
                continue
        if e["t"] > last_t:
            acts.append(f"Tick ({e['t'] - last_t})")
            last_t = e["t"]
        acts.append(a)
    return acts, notes


def replay_cases(name, cases, spacing_us, keepalive_us, shard=12):
    """cases: list of (logcap, [action terms]).  Returns (ok, [parsed results], err).
    parsed: dict(refused=None|idx, wire=[(t, kind, tid, text)], delivered=[msg], log=[(kind, text)], withheld=[text])"""

    def mk(part):
        lines = [coqio.CASES_HEADER, "From Ynca Require Import Model.Line Model.Conn.\nOpen Scope Z_scope.\n"]
        for i, (cap, acts) in enumerate(part):
            lines.append(f"Definition tr{i} : list action :=\n [" + ";\n  ".join(acts) + "].\n")
        lines.append(
            "Definition go (cap : nat) (tr : list action) : list N :=\n"
            f"  show_conn (run_diag ({spacing_us}) ({keepalive_us}) (init cap) tr O).\n"
        )
        lines.append("Eval vm_compute in (" + " ++ ".join(f"go {cap}%nat tr{i}" for i, (cap, _) in enumerate(part)) + ")%list.\n")
        return "\n".join(lines)

    ok, outs, err = run_cases_sharded(name, mk, cases, shard=shard)
    if not ok:
        return False, [], err
    res = []
    for o in outs:
        for items in coqio.parse_flat2(o):
            r = {"refused": None if items[0][0] == 0 else items[0][1], "wire": [], "delivered": [], "log": [], "withheld": []}
            sec = 0
            for t in items[1:]:
                if t == [7]:
                    sec += 1
                    continue
                if sec == 0:
                    kind = {1: "KA", 2: "EXIT", 3: "CMD"}[t[1]]
                    r["wire"].append((t[0], kind, t[2] if kind == "CMD" else None, coqio.txt(t[3:]) if kind == "CMD" else None))
                elif sec == 1:
                    r["delivered"].append(coqio.decode_msg(t))
                elif sec == 2:
                    r["log"].append(("Send" if t[0] == 1 else "Received", coqio.txt(t[1:])))
                else:
                    r["withheld"].append(coqio.txt(t[1:]))
            res.append(r)
    return True, res, None


# ------------------------------------------------------------------------------ scenarios
class Session:
    """One simulated session of a YncaConnection against a scripted device."""

    def __init__(self, seed, respond=None, latency_us=20000, gap_us=1000, log_size=0, switch_prob=0.3, choices=None, delay_prob=0.0, max_delay_us=0):
        self.sim = dsim.Sim(seed=seed, switch_prob=switch_prob, choices=choices, delay_prob=delay_prob, max_delay_us=max_delay_us)
        self.dev = dsim.Device(self.sim, respond=respond, latency_us=latency_us, gap_us=gap_us)
        self.port = None
        self.log_size = log_size
        self.deliveries = []
        self.disconnects = []
        self.conn = None
        self.final_log = None
        self.errors = []
        self.submitted = []  # (thread, kind, text) in program order per thread

    def _mkport(self, url):
        if url.endswith("/decoy"):
            # a second, independent connection in the same process (its events are kept apart by dsim)
            self.decoy_dev = dsim.Device(self.sim, respond=self.decoy_respond, latency_us=self.decoy_latency_us, gap_us=700, decoy=True)
            self.decoy_port = dsim.SimPort(self.sim, self.decoy_dev)
            return self.decoy_port
        self.port = dsim.SimPort(self.sim, self.dev)
        return self.port

    decoy_latency_us = 30000

    @staticmethod
    def decoy_respond(line, idx):
        if line == "@SYS:MODELNAME=?":
            return ["@SYS:MODELNAME=DECOY-1"]
        if line.endswith("=?"):
            return [line[:-1] + "decoy"]
        return [line]

    def start_decoy(self, rng, n_ops=6, span_s=3.0):
        """connect a second YncaConnection to a second device and keep it busy from its own caller thread;
        returns a function that closes it.  Nothing the decoy does may show on the connection under test."""
        from ynca.connection import YncaConnection

        sim = self.sim
        self.decoy_deliveries = []
        self.decoy_disconnects = []
        with sim.decoy():
            d = YncaConnection("sim://x/decoy")
            d.register_message_callback(lambda st, s_, f, v: self.decoy_deliveries.append((st.name, s_, f, v)))
            d.connect(lambda: self.decoy_disconnects.append(sim.now), 5)
        self.decoy_conn = d
        ops = []
        for _ in range(n_ops):
            ops.append((rng.random() * span_s / n_ops, rng.choice(["put", "get", "model"])))
        self.decoy_sent = []

        def run():
            # this thread is the decoy's own caller: everything it does is decoy traffic
            sim.cur.decoy = True
            for dt, kind in ops:
                dsim._TimeShim(sim).sleep(dt)
                if kind == "put":
                    self.decoy_sent.append("@DECOY:VOL=Up")
                    d.put("DECOY", "VOL", "Up")
                elif kind == "get":
                    self.decoy_sent.append("@DECOY:PWR=?")
                    d.get("DECOY", "PWR")
                else:
                    self.decoy_sent.append("@SYS:MODELNAME=?")
                    d.get("SYS", "MODELNAME")

        th = sim.spawn(run, "decoycaller~")

        def stop():
            th.join()
            with sim.decoy():
                dsim._TimeShim(sim).sleep(0.4)
                d.close()

        return stop

    def run(self, body):
        """body(session) runs on thread 'main' after the port factory is installed"""

        def main():
            undo = dsim.install_port(self.sim, self._mkport)
            try:
                body(self)
            except dsim.SimAbort:
                raise
            except BaseException as e:  # noqa
                self.errors.append(("main", type(e).__name__, str(e)[:200]))
            finally:
                undo()

        self.sim.run(main)
        return self

    # helpers for bodies
    def connect(self):
        from ynca.connection import YncaConnection

        c = YncaConnection("sim://")
        c.register_message_callback(lambda st, s, f, v: self.deliveries.append((self.sim.now, st.name, None if s is None and f is None and v is None else (s, f, v))))
        c.connect(lambda: self.disconnects.append(self.sim.now), self.log_size)
        self.conn = c
        return c

    def sleep(self, seconds):
        dsim._TimeShim(self.sim).sleep(seconds)

    def submit(self, op):
        th = self.sim.cur.name
        c = self.conn
        if op[0] == "put":
            self.submitted.append((th, f"@{op[1]}:{op[2]}={op[3]}"))
            c.put(op[1], op[2], op[3])
        elif op[0] == "get":
            self.submitted.append((th, f"@{op[1]}:{op[2]}=?"))
            c.get(op[1], op[2])
        elif op[0] == "raw":
            self.submitted.append((th, op[1]))
            c.raw(op[1])
        elif op[0] == "sleep":
            self.sleep(op[1])

    def spawn_callers(self, programs):
        ths = []
        for i, prog in enumerate(programs):
            def runprog(prog=prog):
                for op in prog:
                    self.submit(op)
            ths.append(self.sim.spawn(runprog, f"caller{i + 1}"))
        return ths

    def join_all(self, ths):
        for t in ths:
            t.join()
