"""setup: translate once, generate the Makefile, build the whole Coq development."""
import sys

from .common import BuildLock, coq_make, coq_sources, ensure_makefile, failing_files, run_translator


def main():
    with BuildLock():
        ok, summ = run_translator()
        print("translator:", summ)
        if not ok:
            sys.exit(1)
        ensure_makefile()
        targets = [s[:-2] + ".vo" for s in coq_sources()]
        ok, log = coq_make(targets, timeout=3000)
        if not ok:
            print(log[-3000:])
            for f in failing_files(log):
                print("FAILED:", f)
            # a failing proof on a changed tree is reported by the checks, not by setup
        print("coq build:", "ok" if ok else "with failures (checks will report)")


if __name__ == "__main__":
    main()
